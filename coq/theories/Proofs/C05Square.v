(** C05 -- jaccarddist_pairwise, square form.
    Proved here: [C05_pairwise_square_statement] (Proofs/C05Pairwise.v): for every container,
    accepted dtype, sorted signatures, valid selection and accepted caller buffer, the square form
    of the model returns as many rows as there are selected signatures, with cell (i, j) equal to
    +0 on the diagonal and to [dist s_i s_j] elsewhere.
    Organisation: list facts about [splice] / [mv_slice] / [mv_set] in terms of [nth];
    [fill_diag_spec]; [set_col_spec] (the column write of the mirror copy); the loop invariant
    [Inv k] (diagonal zero; every cell with row < k or column < k holds the pair distance);
    [mirror_step] (one iteration of the loop keeps it); [sq_loop_spec] (induction over the number
    of rows still to process). *)
From Coq Require Import ZArith List Bool Lia ZifyBool Arith.
From GV Require Import Base.CSem Base.F32 Gen.MetricPyx Spec.Jaccard Spec.JaccardF Spec.C05
  Model.MetricPy Model.C05 Proofs.MetricCount Proofs.C05Sched Proofs.C05Array Proofs.C05Chunks
  Proofs.C05Matrix Proofs.C05Pairwise.
Import ListNotations.
Open Scope Z_scope.

Local Opaque dist.

(** ** list facts *)
Lemma nth_skipn_add {A} (d : A) : forall (a : nat) (l : list A) (j : nat),
  nth j (skipn a l) d = nth (a + j) l d.
Proof.
  induction a as [|a IH]; intros l j; [reflexivity|].
  destruct l as [|h t]; [destruct j; reflexivity|]. cbn [skipn Nat.add nth]. apply IH.
Qed.

Lemma nth_firstn_lt {A} (d : A) : forall (a : nat) (l : list A) (j : nat), (j < a)%nat ->
  nth j (firstn a l) d = nth j l d.
Proof.
  induction a as [|a IH]; intros l j H; [lia|].
  destruct l as [|h t]; [reflexivity|]. destruct j as [|j]; [reflexivity|].
  cbn [firstn nth]. apply IH. lia.
Qed.

Lemma split_at {A} (d : A) : forall (k : nat) (l : list A), (k < length l)%nat ->
  l = firstn k l ++ nth k l d :: skipn (S k) l.
Proof.
  induction k as [|k IH]; intros [|h t] H; simpl in H; try lia; [reflexivity|].
  cbn [firstn nth skipn app]. f_equal. apply IH. lia.
Qed.

Lemma splice_nat {A} (l : list A) (a : nat) (v : list A) : (a <= length l)%nat ->
  splice l (Z.of_nat a) v = firstn a l ++ v ++ skipn (a + length v) l.
Proof.
  intros H. unfold splice, clampZ, mv_len.
  replace (Z.to_nat (Z.max 0 (Z.min (Z.of_nat (length l)) (Z.of_nat a)))) with a by lia.
  reflexivity.
Qed.

Lemma splice_length {A} (l : list A) (a : nat) (v : list A) : (a + length v <= length l)%nat ->
  length (splice l (Z.of_nat a) v) = length l.
Proof.
  intros H. rewrite splice_nat by lia. rewrite !app_length, firstn_length, skipn_length. lia.
Qed.

Lemma splice_nth {A} (d : A) (l : list A) (a : nat) (v : list A) (j : nat) :
  (a + length v <= length l)%nat ->
  nth j (splice l (Z.of_nat a) v) d =
    if (j <? a)%nat then nth j l d
    else if (j <? a + length v)%nat then nth (j - a) v d else nth j l d.
Proof.
  intros H. rewrite splice_nat by lia.
  assert (Hf : length (firstn a l) = a) by (rewrite firstn_length; lia).
  destruct (Nat.ltb_spec j a) as [Hj|Hj].
  - rewrite app_nth1 by lia. now apply nth_firstn_lt.
  - rewrite app_nth2 by lia. rewrite Hf.
    destruct (Nat.ltb_spec j (a + length v)) as [Hj2|Hj2].
    + rewrite app_nth1 by lia. reflexivity.
    + rewrite app_nth2 by lia. rewrite nth_skipn_add. f_equal. lia.
Qed.

Lemma mv_set_spec {A} (d : A) (l : list A) (i : nat) (v : A) : (i < length l)%nat ->
  exists l', mv_set l (Z.of_nat i) v = Some l' /\ length l' = length l /\
    forall m, nth m l' d = if Nat.eqb m i then v else nth m l d.
Proof.
  intros H. unfold mv_set. destruct (0 <=? Z.of_nat i) eqn:E; [|lia]. rewrite Nat2Z.id.
  destruct (set_nth_Some l i v H) as [l' Hl']. exists l'. split; [exact Hl'|].
  split; [eapply set_nth_length; eauto|]. eapply set_nth_nth; eauto.
Qed.

Lemma mv_get_nat {A} (d : A) (l : list A) (i : nat) : (i < length l)%nat ->
  mv_get l (Z.of_nat i) = Some (nth i l d).
Proof.
  intros H. unfold mv_get. destruct (0 <=? Z.of_nat i) eqn:E; [|lia]. rewrite Nat2Z.id.
  now apply nth_error_nth'.
Qed.

Lemma mv_slice_tail {A} (l : list A) (a : nat) : (a <= length l)%nat ->
  mv_slice l (Z.of_nat a) (mv_len l) = skipn a l.
Proof.
  intros H. rewrite mv_slice_pos. unfold pos, clampZ, mv_len.
  replace (Z.to_nat (Z.max 0 (Z.min (Z.of_nat (length l)) (Z.of_nat a)))) with a by lia.
  replace (Z.to_nat (Z.max 0 (Z.min (Z.of_nat (length l)) (Z.of_nat (length l))))) with (length l) by lia.
  apply firstn_all2. rewrite skipn_length. lia.
Qed.

(** ** [np.fill_diagonal(out, 0)] *)
Lemma fill_diag_spec : forall (rows : list (list f32)) (k : nat),
  (forall r, (r < length rows)%nat -> (k + r < length (nth r rows []))%nat) ->
  exists rows', fill_diag rows (Z.of_nat k) = POk rows' /\ length rows' = length rows /\
    forall r, (r < length rows)%nat ->
      length (nth r rows' []) = length (nth r rows []) /\
      forall c, nth c (nth r rows' []) f32_zero =
                if Nat.eqb c (k + r) then f32_zero else nth c (nth r rows []) f32_zero.
Proof.
  induction rows as [|row rest IH]; intros k Hk.
  - exists []. split; [reflexivity|]. split; [reflexivity|]. intros r Hr. simpl in Hr. lia.
  - cbn [fill_diag].
    assert (H0 : (k < length row)%nat).
    { specialize (Hk 0%nat). cbn [nth length] in Hk. lia. }
    destruct (mv_set_spec f32_zero row k f32_zero H0) as [row' [H1 [H2 H3]]]. rewrite H1.
    replace (Z.of_nat k + 1) with (Z.of_nat (S k)) by lia.
    destruct (IH (S k)) as [rest' [R1 [R2 R3]]].
    { intros r Hr. specialize (Hk (S r)). cbn [nth length] in Hk. lia. }
    rewrite R1. cbn [pbind]. exists (row' :: rest'). split; [reflexivity|].
    split; [cbn [length]; lia|]. intros [|r] Hr; cbn [nth].
    + split; [exact H2|]. intros c. rewrite Nat.add_0_r. apply H3.
    + cbn [length] in Hr. destruct (R3 r ltac:(lia)) as [R4 R5]. split; [exact R4|].
      intros c. rewrite R5. replace (S k + r)%nat with (k + S r)%nat by lia. reflexivity.
Qed.

(** ** the column write of the mirror copy *)
Lemma set_col_spec (i : nat) : forall (rows : list (list f32)) (src : list f32),
  length rows = length src ->
  (forall r, (r < length rows)%nat -> (i < length (nth r rows []))%nat) ->
  exists rows', set_col rows (Z.of_nat i) src = POk rows' /\ length rows' = length rows /\
    forall r, (r < length rows)%nat ->
      length (nth r rows' []) = length (nth r rows []) /\
      forall c, nth c (nth r rows' []) f32_zero =
                if Nat.eqb c i then nth r src f32_zero else nth c (nth r rows []) f32_zero.
Proof.
  induction rows as [|row rest IH]; intros [|x xs] Hl Hi; cbn [length] in Hl; try discriminate.
  - exists []. split; [reflexivity|]. split; [reflexivity|]. intros r Hr. simpl in Hr. lia.
  - cbn [set_col].
    assert (H0 : (i < length row)%nat).
    { specialize (Hi 0%nat). cbn [nth length] in Hi. lia. }
    destruct (mv_set_spec f32_zero row i x H0) as [row' [H1 [H2 H3]]]. rewrite H1.
    destruct (IH xs) as [rest' [R1 [R2 R3]]]; [lia| |].
    { intros r Hr. specialize (Hi (S r)). cbn [nth length] in Hi. lia. }
    rewrite R1. cbn [pbind]. exists (row' :: rest'). split; [reflexivity|].
    split; [cbn [length]; lia|]. intros [|r] Hr; cbn [nth].
    + split; [exact H2|exact H3].
    + cbn [length] in Hr. apply R3. lia.
Qed.

(** ** the loop over the rows *)
Definition cell (rows : list (list f32)) (r c : nat) : f32 := nth c (nth r rows []) f32_zero.

Section Square.
  Variables (c : container) (d : Z * Z) (ss : list (list Z)) (indices : option (list Z)).
  Variable sel : list (list Z).
  Hypothesis Hd : dtype_ok d = true.
  Hypothesis Hsorted : Forall sorted sel.
  Hypothesis Hsel : selected ss indices = Some sel.

  Let sg (r : nat) : list Z := nth r sel [].

  (** after the rows < k have been processed *)
  Definition Inv (k : nat) (rows : list (list f32)) : Prop :=
    length rows = length sel /\
    (forall r, (r < length sel)%nat -> length (nth r rows []) = length sel) /\
    (forall r, (r < length sel)%nat -> cell rows r r = f32_zero) /\
    (forall r cc, (r < length sel)%nat -> (cc < length sel)%nat -> r <> cc ->
       (r < k \/ cc < k)%nat -> cell rows r cc = dist (sg r) (sg cc)).

  Lemma sg_sorted r : (r < length sel)%nat -> sorted (sg r).
  Proof. intros H. unfold sg. rewrite Forall_forall in Hsorted. apply Hsorted. now apply nth_In. Qed.

  Lemma dist_row_nth k j : (S k + j < length sel)%nat ->
    nth j (dist_row (sg k) (skipn (S k) sel)) f32_zero = dist (sg k) (sg (S k + j)).
  Proof.
    intros H. unfold dist_row.
    rewrite (nth_indep _ f32_zero (dist (sg k) [])) by (rewrite map_length, skipn_length; lia).
    rewrite map_nth. unfold sg at 3. now rewrite nth_skipn_add.
  Qed.

  Lemma mirror_step k rows : Inv k rows -> (k + 1 < length sel)%nat ->
    exists rows',
      mirror (splice rows (Z.of_nat k)
                [splice (nth k rows []) (Z.of_nat (S k)) (dist_row (sg k) (skipn (S k) sel))])
             (Z.of_nat k) (mv_len sel) = POk rows' /\ Inv (S k) rows'.
  Proof.
    intros [IL [IR [ID IC]]] Hk.
    set (n := length sel) in *.
    set (row := nth k rows []).
    set (v := dist_row (sg k) (skipn (S k) sel)).
    assert (Hv : (S k + length v = n)%nat).
    { subst v. unfold dist_row. rewrite map_length, skipn_length. fold n. lia. }
    assert (Hrow : length row = n) by (apply IR; lia).
    set (row' := splice row (Z.of_nat (S k)) v).
    assert (Hrow'l : length row' = n) by (subst row'; rewrite splice_length; lia).
    assert (Hrow'n : forall cc, nth cc row' f32_zero =
              if (cc <? S k)%nat then nth cc row f32_zero
              else if (cc <? S k + length v)%nat then nth (cc - S k) v f32_zero
                   else nth cc row f32_zero).
    { intros cc. subst row'. apply splice_nth. lia. }
    set (rowsA := splice rows (Z.of_nat k) [row']).
    assert (HAl : length rowsA = n) by (subst rowsA; rewrite splice_length; cbn [length]; lia).
    assert (HAn : forall r, nth r rowsA [] =
              if (r <? k)%nat then nth r rows []
              else if (r <? k + 1)%nat then row' else nth r rows []).
    { intros r. subst rowsA. rewrite splice_nth by (cbn [length]; lia). cbn [length].
      destruct (r <? k)%nat eqn:E1; [reflexivity|].
      destruct (r <? k + 1)%nat eqn:E2; [|reflexivity].
      replace (r - k)%nat with 0%nat by lia. reflexivity. }
    assert (HAk : nth k rowsA [] = row').
    { rewrite HAn. rewrite Nat.ltb_irrefl.
      destruct (Nat.ltb_spec k (k + 1)) as [_|H]; [reflexivity|lia]. }
    assert (HArl : forall r, (r < n)%nat -> length (nth r rowsA []) = n).
    { intros r Hr. rewrite HAn. destruct (r <? k)%nat; [apply IR; exact Hr|].
      destruct (r <? k + 1)%nat; [exact Hrow'l|apply IR; exact Hr]. }
    unfold mirror. rewrite (mv_get_nat [] rowsA k) by lia. rewrite HAk.
    replace (Z.of_nat k + 1) with (Z.of_nat (S k)) by lia.
    assert (HsA : mv_slice rowsA (Z.of_nat (S k)) (mv_len sel) = skipn (S k) rowsA).
    { replace (mv_len sel) with (mv_len rowsA) by (unfold mv_len; fold n; lia).
      apply mv_slice_tail. lia. }
    assert (Hsr : mv_slice row' (Z.of_nat (S k)) (mv_len sel) = skipn (S k) row').
    { replace (mv_len sel) with (mv_len row') by (unfold mv_len; fold n; lia).
      apply mv_slice_tail. lia. }
    rewrite HsA, Hsr.
    destruct (set_col_spec k (skipn (S k) rowsA) (skipn (S k) row')) as [low [L1 [L2 L3]]].
    { rewrite !skipn_length. lia. }
    { intros r Hr. rewrite skipn_length in Hr. rewrite nth_skipn_add. rewrite HArl by lia. lia. }
    rewrite L1. cbn [pbind]. eexists. split; [reflexivity|].
    rewrite skipn_length in L2, L3.
    set (R := splice rowsA (Z.of_nat (S k)) low).
    assert (HRl : length R = n) by (subst R; rewrite splice_length; lia).
    assert (HRn : forall r, nth r R [] =
              if (r <? S k)%nat then nth r rowsA []
              else if (r <? S k + length low)%nat then nth (r - S k) low [] else nth r rowsA []).
    { intros r. subst R. apply splice_nth. lia. }
    (* rows above k: unchanged; row k: the new row; rows below k: column k overwritten *)
    assert (Hup : forall r, (r < k)%nat -> nth r R [] = nth r rows []).
    { intros r Hr. rewrite HRn.
      destruct (Nat.ltb_spec r (S k)) as [_|H]; [|lia]. rewrite HAn.
      destruct (Nat.ltb_spec r k) as [_|H]; [reflexivity|lia]. }
    assert (Hmid : nth k R [] = row').
    { rewrite HRn. destruct (Nat.ltb_spec k (S k)) as [_|H]; [exact HAk|lia]. }
    assert (Hlow : forall r, (k < r < n)%nat ->
              length (nth r R []) = n /\
              forall cc, nth cc (nth r R []) f32_zero =
                if Nat.eqb cc k then dist (sg k) (sg r) else nth cc (nth r rows []) f32_zero).
    { intros r Hr. rewrite HRn.
      destruct (Nat.ltb_spec r (S k)) as [H|_]; [lia|].
      destruct (Nat.ltb_spec r (S k + length low)) as [_|H]; [|lia].
      destruct (L3 (r - S k)%nat ltac:(lia)) as [L4 L5].
      rewrite nth_skipn_add in L4.
      replace (S k + (r - S k))%nat with r in L4 by lia.
      split; [rewrite L4; apply HArl; lia|].
      intros cc. rewrite L5. destruct (Nat.eqb_spec cc k) as [Hc|Hc].
      - rewrite nth_skipn_add. rewrite Hrow'n.
        destruct (Nat.ltb_spec (S k + (r - S k)) (S k)) as [H|_]; [lia|].
        destruct (Nat.ltb_spec (S k + (r - S k)) (S k + length v)) as [_|H]; [|lia].
        replace (S k + (r - S k) - S k)%nat with (r - S k)%nat by lia.
        subst v. rewrite dist_row_nth by (fold n; lia).
        replace (S k + (r - S k))%nat with r by lia. reflexivity.
      - rewrite nth_skipn_add. replace (S k + (r - S k))%nat with r by lia.
        rewrite HAn.
        destruct (Nat.ltb_spec r k) as [H|_]; [lia|].
        destruct (Nat.ltb_spec r (k + 1)) as [H|_]; [lia|]. reflexivity. }
    assert (Hrowk : forall cc, (cc < n)%nat -> nth cc row' f32_zero =
              if (cc <? S k)%nat then nth cc row f32_zero else dist (sg k) (sg cc)).
    { intros cc Hc. rewrite Hrow'n. destruct (Nat.ltb_spec cc (S k)) as [H|H]; [reflexivity|].
      destruct (Nat.ltb_spec cc (S k + length v)) as [_|H2]; [|lia].
      subst v. rewrite dist_row_nth by (fold n; lia).
      replace (S k + (cc - S k))%nat with cc by lia. reflexivity. }
    unfold Inv. fold n. split; [exact HRl|]. split; [|split].
    - intros r Hr. destruct (lt_eq_lt_dec r k) as [[H|H]|H].
      + rewrite Hup by exact H. apply IR. exact Hr.
      + subst r. rewrite Hmid. exact Hrow'l.
      + apply Hlow. lia.
    - intros r Hr. unfold cell. destruct (lt_eq_lt_dec r k) as [[H|H]|H].
      + rewrite Hup by exact H. apply ID. exact Hr.
      + subst r. rewrite Hmid, Hrowk by lia.
        destruct (Nat.ltb_spec k (S k)) as [_|H]; [|lia]. apply ID. exact Hr.
      + destruct (Hlow r ltac:(lia)) as [_ Hc]. rewrite Hc.
        destruct (Nat.eqb_spec r k) as [H2|_]; [lia|]. apply ID. exact Hr.
    - intros r cc Hr Hc Hne Hlt. unfold cell. destruct (lt_eq_lt_dec r k) as [[H|H]|H].
      + rewrite Hup by exact H. apply IC; try assumption. left. exact H.
      + subst r. rewrite Hmid, Hrowk by lia.
        destruct (Nat.ltb_spec cc (S k)) as [H|H]; [|reflexivity].
        apply IC; try assumption. right. lia.
      + destruct (Hlow r ltac:(lia)) as [_ Hcc]. rewrite Hcc.
        destruct (Nat.eqb_spec cc k) as [H2|H2].
        * subst cc. apply dist_sym; apply sg_sorted; lia.
        * apply IC; try assumption. right. lia.
  Qed.

  Lemma sq_loop_spec : forall (cnt k : nat) (rows : list (list f32)),
    (k + cnt = length sel - 1)%nat -> Inv k rows ->
    exists rows', pw_square_loop cnt c d ss indices (mv_len sel) (Z.of_nat k) rows = POk rows' /\
                  Inv (k + cnt) rows'.
  Proof.
    induction cnt as [|cnt IH]; intros k rows Hc HI.
    - exists rows. rewrite Nat.add_0_r. split; [reflexivity|exact HI].
    - assert (Hk : (k + 1 < length sel)%nat) by lia.
      pose proof (split_at [] k sel ltac:(lia)) as E. fold (sg k) in E.
      assert (Hdone : mv_len (firstn k sel) = Z.of_nat k).
      { unfold mv_len. rewrite firstn_length. lia. }
      assert (Hrs : pw_row_sig ss indices (Z.of_nat k) = POk (sg k)).
      { rewrite <- Hdone. exact (pw_row_sig_spec d ss indices sel Hd Hsel _ _ _ E). }
      assert (Hcs : pw_col_sigs ss indices (Z.of_nat k + 1) (mv_len sel) = POk (skipn (S k) sel)).
      { rewrite <- Hdone. exact (pw_col_sigs_spec d ss indices sel Hd Hsel _ _ _ E). }
      cbn [pw_square_loop]. rewrite Hrs, Hcs. cbn [pbind].
      destruct HI as [IL [IR [ID IC]]].
      rewrite (mv_get_nat [] rows k) by lia.
      assert (Hs : sorted (sg k)) by (apply sg_sorted; lia).
      assert (Ht : Forall sorted (skipn (S k) sel)).
      { rewrite Forall_forall in *. intros x Hx. apply Hsorted. eapply In_skipn; eauto. }
      rewrite C05_array_l; try assumption; [|simpl; apply Z.eqb_refl].
      assert (Hok : out_ok (view_of (nth k rows []) (Z.of_nat k + 1) (mv_len sel))
                      [mv_len (skipn (S k) sel)] = true).
      { unfold view_of, out_ok. cbn [shape_eqb]. rewrite !andb_true_r. apply Z.eqb_eq.
        unfold mv_len. rewrite mv_slice_length, skipn_length, (IR k) by lia.
        unfold pos, clampZ. lia. }
      rewrite Hok. cbn [pbind].
      replace (Z.of_nat k + 1) with (Z.of_nat (S k)) by lia.
      destruct (mirror_step k rows (conj IL (conj IR (conj ID IC))) Hk) as [rows1 [M1 M2]].
      rewrite M1. cbn [pbind].
      destruct (IH (S k) rows1 ltac:(lia) M2) as [rows2 [N1 N2]].
      exists rows2. split; [exact N1|].
      replace (k + S cnt)%nat with (S k + cnt)%nat by lia. exact N2.
  Qed.
End Square.

(** ** jaccarddist_pairwise, square form *)
Theorem C05_pairwise_square : C05_pairwise_square_statement.
Proof.
  unfold C05_pairwise_square_statement.
  intros fx c d ss indices out sel Hd Hss Hw Hsel Hwf Hok. unfold jd_pairwise_square.
  rewrite wrap_plain_spec, Hw. cbn [pbind].
  assert (Hn : pw_n ss indices = mv_len sel).
  { unfold pw_n. destruct indices as [idx|]; simpl in Hsel.
    - unfold mv_len. now rewrite (select_length ss idx sel Hsel).
    - now inversion Hsel. }
  rewrite Hn, check_out_spec, Hok. cbn [pbind].
  assert (HselS : Forall sorted sel).
  { destruct indices as [idx|]; simpl in Hsel; [eapply select_Forall; eauto|now inversion Hsel; subst]. }
  set (rows0 := match out with
                | Some (_, _, cells) => cells
                | None => repeat (repeat uninit (Z.to_nat (mv_len sel))) (Z.to_nat (mv_len sel))
                end).
  assert (Hrows0 : length rows0 = length sel /\ Forall (fun row => length row = length sel) rows0).
  { subst rows0. destruct out as [[[sh f] rows]|].
    - simpl in Hok. apply andb_prop in Hok as [Hsh _]. apply shape_eqb_eq in Hsh. subst sh.
      simpl in Hwf. apply andb_prop in Hwf as [H1 H2]. apply Z.eqb_eq in H1. unfold mv_len in H1.
      split; [lia|]. rewrite forallb_forall in H2. apply Forall_forall. intros r Hr.
      specialize (H2 r Hr). apply Z.eqb_eq in H2. unfold mv_len in H2. lia.
    - unfold mv_len. rewrite !Nat2Z.id. split; [apply repeat_length|].
      apply repeat_Forall. apply repeat_length. }
  destruct Hrows0 as [Hl0 Hr0].
  assert (Hr0n : forall r, (r < length rows0)%nat -> length (nth r rows0 []) = length sel).
  { intros r Hr. rewrite Forall_forall in Hr0. apply Hr0. now apply nth_In. }
  change 0 with (Z.of_nat 0).
  destruct (fill_diag_spec rows0 0) as [rows1 [F1 [F2 F3]]].
  { intros r Hr. rewrite Hr0n by exact Hr. lia. }
  rewrite F1. cbn [pbind].
  assert (HI : Inv sel 0 rows1).
  { unfold Inv. split; [lia|]. split; [|split].
    - intros r Hr. destruct (F3 r ltac:(lia)) as [F4 _]. rewrite F4. apply Hr0n. lia.
    - intros r Hr. unfold cell. destruct (F3 r ltac:(lia)) as [_ F5]. rewrite F5.
      cbn [Nat.add]. now rewrite Nat.eqb_refl.
    - intros r cc _ _ _ H. lia. }
  replace (Z.to_nat (mv_len sel - 1)) with (length sel - 1)%nat by (unfold mv_len; lia).
  destruct (sq_loop_spec c d ss indices sel Hd HselS Hsel (length sel - 1) 0 rows1 ltac:(lia) HI)
    as [rows [L1 [IL [IR [ID IC]]]]].
  exists rows. split; [exact L1|]. split; [exact IL|].
  intros i j si sj Hi Hj.
  assert (Hil : (i < length sel)%nat) by (apply nth_error_Some; congruence).
  assert (Hjl : (j < length sel)%nat) by (apply nth_error_Some; congruence).
  exists (nth i rows []). split; [apply nth_error_nth'; lia|].
  rewrite (nth_error_nth' (nth i rows []) f32_zero) by (rewrite IR; lia). f_equal.
  destruct (Nat.eqb_spec i j) as [E|E].
  - subst j. apply ID. exact Hil.
  - rewrite <- (nth_error_nth sel i [] Hi), <- (nth_error_nth sel j [] Hj).
    apply IC; try assumption. cbn [Nat.add]. lia.
Qed.
