(** C16 -- the label of a sequence file (Model/C16.v [get_file_id], from
    src/gambit/cli/common.py): directory part, one gzip extension and one FASTA extension
    removed.  For every directory prefix and every stem. *)
From Coq Require Import ZArith List Bool Lia.
From GV Require Import Model.C16.
Import ListNotations.
Open Scope Z_scope.

Lemma starts_with_app : forall p x, starts_with p (p ++ x) = true.
Proof.
  induction p as [|a p IH]; intro x; [reflexivity|]. cbn [app starts_with]. rewrite Z.eqb_refl. apply IH.
Qed.

Lemma ends_with_app : forall s e, ends_with (s ++ e) e = true.
Proof. intros s e. unfold ends_with. rewrite rev_app_distr. apply starts_with_app. Qed.

Lemma firstn_drop_suffix : forall (s e : str), firstn (length (s ++ e) - length e) (s ++ e) = s.
Proof.
  intros s e. rewrite app_length. replace (length s + length e - length e)%nat with (length s + 0)%nat by lia.
  rewrite firstn_app_2. cbn [firstn]. apply app_nil_r.
Qed.

Lemma strip_extensions_hit : forall exts s e, In e exts ->
  (forall e', In e' exts -> e' <> e -> ends_with (s ++ e) e' = false) ->
  strip_extensions (s ++ e) exts = s.
Proof.
  induction exts as [|e0 exts IH]; intros s e Hin Hne; [contradiction|].
  cbn [strip_extensions].
  destruct (list_eq_dec Z.eq_dec e0 e) as [->|Hd].
  - rewrite ends_with_app. apply firstn_drop_suffix.
  - rewrite (Hne e0 (or_introl eq_refl) Hd).
    destruct Hin as [->|Hin]; [contradiction|].
    apply IH; [exact Hin|]. intros e' He' Hd'. apply Hne; [right; exact He'|exact Hd'].
Qed.

Lemma strip_extensions_miss : forall exts s,
  (forall e', In e' exts -> ends_with s e' = false) -> strip_extensions s exts = s.
Proof.
  induction exts as [|e0 exts IH]; intros s H; [reflexivity|].
  cbn [strip_extensions]. rewrite (H e0 (or_introl eq_refl)). apply IH.
  intros e' He'. apply H. right. exact He'.
Qed.

(** no FASTA extension is a suffix of a name ending in another one, nor is .gz *)
Lemma fasta_exts_exclusive : forall s e e', In e FASTA_EXTENSIONS -> In e' FASTA_EXTENSIONS -> e' <> e ->
  ends_with (s ++ e) e' = false.
Proof.
  intros s e e' He He' Hd. unfold ends_with. rewrite rev_app_distr.
  unfold FASTA_EXTENSIONS in He, He'. cbn [In] in He, He'.
  repeat (destruct He as [<-|He]; [|]); try contradiction;
    repeat (destruct He' as [<-|He']; [|]); try contradiction; try reflexivity; exfalso; apply Hd; reflexivity.
Qed.

Lemma fasta_not_gz : forall s e, In e FASTA_EXTENSIONS -> ends_with (s ++ e) [46; 103; 122] = false.
Proof.
  intros s e He. unfold ends_with. rewrite rev_app_distr.
  unfold FASTA_EXTENSIONS in He. cbn [In] in He.
  repeat (destruct He as [<-|He]; [reflexivity|]). contradiction.
Qed.

Lemma basename_from_plain : forall s cur, ~ In 47 s -> basename_from s cur = rev cur ++ s.
Proof.
  induction s as [|c s IH]; intros cur H; cbn [basename_from].
  - rewrite app_nil_r. reflexivity.
  - assert (Hc : c =? 47 = false) by (apply Z.eqb_neq; intro E; apply H; left; exact E).
    rewrite Hc. rewrite IH by (intro Hin; apply H; right; exact Hin).
    cbn [rev]. rewrite <- app_assoc. reflexivity.
Qed.

Lemma basename_from_dir : forall d s cur, basename_from (d ++ 47 :: s) cur = basename_from s [].
Proof.
  induction d as [|c d IH]; intros s cur; cbn [app basename_from].
  - reflexivity.
  - destruct (c =? 47); apply IH.
Qed.

Definition dir_prefix (pre : str) : Prop := pre = [] \/ exists d, pre = d ++ [47].

Lemma basename_spec : forall pre s, dir_prefix pre -> ~ In 47 s -> basename (pre ++ s) = s.
Proof.
  intros pre s [->|[d ->]] H; unfold basename.
  - cbn [app]. rewrite basename_from_plain by exact H. reflexivity.
  - rewrite <- app_assoc. cbn [app]. rewrite basename_from_dir, basename_from_plain by exact H. reflexivity.
Qed.

Lemma strip_seq_file_ext_spec : forall stem ext gz, In ext FASTA_EXTENSIONS -> In gz [[]; [46; 103; 122]] ->
  strip_seq_file_ext (stem ++ ext ++ gz) = stem.
Proof.
  intros stem ext gz He Hg. unfold strip_seq_file_ext.
  assert (H1 : strip_extensions (stem ++ ext ++ gz) GZIP_EXTENSIONS = stem ++ ext).
  { destruct Hg as [<-|[<-|[]]].
    - rewrite app_nil_r. apply strip_extensions_miss. intros e' [<-|[]]. apply fasta_not_gz. exact He.
    - rewrite app_assoc. apply strip_extensions_hit; [left; reflexivity|].
      intros e' [<-|[]] Hd. contradiction. }
  rewrite H1. apply strip_extensions_hit; [exact He|].
  intros e' He' Hd. apply fasta_exts_exclusive; assumption.
Qed.

(** the label of  [dir/]stem.ext[.gz]  is  stem *)
Lemma C16_label_l : forall pre stem ext gz, dir_prefix pre -> ~ In 47 stem ->
  In ext FASTA_EXTENSIONS -> In gz [[]; [46; 103; 122]] ->
  get_file_id (pre ++ stem ++ ext ++ gz) = stem.
Proof.
  intros pre stem ext gz Hp Hs He Hg. unfold get_file_id.
  rewrite basename_spec; [apply strip_seq_file_ext_spec; assumption|exact Hp|].
  intro Hin. apply in_app_or in Hin. destruct Hin as [Hin|Hin]; [exact (Hs Hin)|].
  apply in_app_or in Hin. destruct Hin as [Hin|Hin].
  - unfold FASTA_EXTENSIONS in He. cbn [In] in He.
    repeat (destruct He as [<-|He]; [cbn in Hin; repeat (destruct Hin as [Hin|Hin]; [discriminate|]); contradiction|]).
    contradiction.
  - destruct Hg as [<-|[<-|[]]]; cbn in Hin; repeat (destruct Hin as [Hin|Hin]; [discriminate|]); contradiction.
Qed.

(** a name without a recognised extension is its own label *)
Lemma C16_label_plain_l : forall pre name, dir_prefix pre -> ~ In 47 name ->
  (forall e, In e (GZIP_EXTENSIONS ++ FASTA_EXTENSIONS) -> ends_with name e = false) ->
  get_file_id (pre ++ name) = name.
Proof.
  intros pre name Hp Hs Hn. unfold get_file_id, strip_seq_file_ext. rewrite basename_spec by assumption.
  rewrite (strip_extensions_miss GZIP_EXTENSIONS) by (intros e' He'; apply Hn; apply in_or_app; left; exact He').
  apply strip_extensions_miss. intros e' He'. apply Hn. apply in_or_app. right. exact He'.
Qed.

Example label_example :
  get_file_id [47; 116; 109; 112; 47; 120; 46; 102; 97; 47; 113; 44; 49; 46; 102; 97; 115; 116; 97; 46; 103; 122]
  = [113; 44; 49].    (* /tmp/x.fa/q,1.fasta.gz -> q,1 *)
Proof. vm_compute. reflexivity. Qed.
