(** C05 -- jaccarddist_array: both container paths return [map (dist q) refs].
    Fast path: the bounds arithmetic of the concatenated representation makes iteration [i] of the
    generated prange loop read exactly the [i]-th signature, never out of range. *)
From Coq Require Import ZArith List Bool Lia.
From GV Require Import Base.CSem Base.F32 Gen.MetricPyx Spec.Jaccard Spec.JaccardF Spec.C05
  Model.MetricPy Model.C05 Proofs.MetricCount Proofs.C05Sched.
Import ListNotations.
Open Scope Z_scope.

(** characterisation of the generated Python-visible wrapper *)
Lemma jaccarddist_char fuel a b : jaccarddist fuel a b = c_jaccarddist fuel a b.
Proof. unfold jaccarddist. destruct (c_jaccarddist fuel a b); reflexivity. Qed.

Lemma pair_dist fuel q r : sorted q -> sorted r -> (length q + length r <= fuel)%nat ->
  jaccarddist fuel q r = Ok (dist q r).
Proof. intros. rewrite jaccarddist_char. now apply c_jaccarddist_counts. Qed.

(** ** list / memoryview facts *)
Lemma set_nth_app_r {A} (pre : list A) x suf v :
  set_nth (pre ++ x :: suf) (length pre) v = Some (pre ++ v :: suf).
Proof. induction pre as [|h t IH]; simpl; [reflexivity|]. now rewrite IH. Qed.

Lemma mv_set_app_r {A} (pre : list A) x suf v :
  mv_set (pre ++ x :: suf) (mv_len pre) v = Some (pre ++ v :: suf).
Proof.
  unfold mv_set, mv_len.
  destruct (0 <=? Z.of_nat (length pre)) eqn:E; [|apply Z.leb_gt in E; lia].
  rewrite Nat2Z.id. apply set_nth_app_r.
Qed.

Lemma mv_get_app_r1 {A} (pre : list A) x y suf :
  mv_get (pre ++ x :: y :: suf) (mv_len pre + 1) = Some y.
Proof.
  replace (pre ++ x :: y :: suf) with ((pre ++ [x]) ++ y :: suf) by (now rewrite <- app_assoc).
  rewrite <- mv_len_snoc with (x := x). apply mv_get_app_r.
Qed.

Lemma mv_slice_mid {A} (p r s : list A) :
  mv_slice (p ++ r ++ s) (mv_len p) (mv_len p + mv_len r) = r.
Proof.
  unfold mv_slice, clampZ, mv_len. rewrite !app_length.
  replace (Z.max 0 (Z.min (Z.of_nat (length p + (length r + length s))) (Z.of_nat (length p))))
    with (Z.of_nat (length p)) by lia.
  replace (Z.max 0 (Z.min (Z.of_nat (length p + (length r + length s)))
                      (Z.of_nat (length p) + Z.of_nat (length r))))
    with (Z.of_nat (length p) + Z.of_nat (length r)) by lia.
  replace (Z.of_nat (length p) + Z.of_nat (length r) - Z.of_nat (length p)) with (Z.of_nat (length r)) by lia.
  rewrite !Nat2Z.id.
  rewrite skipn_app, skipn_all, Nat.sub_diag. simpl.
  rewrite firstn_app, firstn_all, Nat.sub_diag. simpl. apply app_nil_r.
Qed.

(** ** the concatenated representation *)
Lemma cat_bounds_from_length refs : forall b0, length (cat_bounds_from b0 refs) = S (length refs).
Proof. induction refs as [|r t IH]; intros b0; simpl; [reflexivity|]. now rewrite IH. Qed.

Lemma cat_bounds_from_head refs b0 : exists t, cat_bounds_from b0 refs = b0 :: t.
Proof. destruct refs; simpl; eauto. Qed.

Lemma cat_bounds_from_app pre : forall b0 rest, exists P,
  length P = length pre /\
  cat_bounds_from b0 (pre ++ rest) = P ++ cat_bounds_from (b0 + mv_len (concat pre)) rest.
Proof.
  induction pre as [|r pre IH]; intros b0 rest.
  - exists []. split; [reflexivity|]. simpl. unfold mv_len. simpl. now rewrite Z.add_0_r.
  - destruct (IH (b0 + mv_len r) rest) as [P [HL HE]]. exists (b0 :: P). split; [simpl; lia|].
    simpl. rewrite HE. rewrite mv_len_app. now rewrite Z.add_assoc.
Qed.

Lemma mv_len_eq {A B} (a : list A) (b : list B) : length a = length b -> mv_len a = mv_len b.
Proof. unfold mv_len. intros ->. reflexivity. Qed.

(** iteration [|pre|] of the loop reads bounds [|concat pre|], [|concat pre| + |r|] and therefore
    exactly the signature [r] *)
Lemma cat_cell fuel q pre r suf :
  sorted q -> sorted r -> (length q + length r <= fuel)%nat ->
  par_cell fuel q (cat_values (pre ++ r :: suf)) (cat_bounds (pre ++ r :: suf)) (mv_len pre)
  = Ok (dist q r).
Proof.
  intros Hq Hr Hf. unfold par_cell, cat_bounds, cat_values.
  destruct (cat_bounds_from_app pre 0 (r :: suf)) as [P [HL HE]]. rewrite HE. cbn [cat_bounds_from].
  destruct (cat_bounds_from_head suf (0 + mv_len (concat pre) + mv_len r)) as [t Ht]. rewrite Ht.
  rewrite (mv_len_eq pre P) by (symmetry; exact HL).
  rewrite mv_get_app_r, mv_get_app_r1.
  rewrite concat_app. simpl concat. rewrite Z.add_0_l, mv_slice_mid.
  now apply c_jaccarddist_counts.
Qed.

Lemma run_cells_cat fuel q : sorted q -> forall todo done vd rest,
  Forall sorted todo -> (forall r, In r todo -> (length q + length r <= fuel)%nat) ->
  length vd = length done -> length rest = length todo ->
  run_cells (par_cell fuel q (cat_values (done ++ todo)) (cat_bounds (done ++ todo)))
            (map Z.of_nat (seq (length done) (length todo))) (vd ++ rest)
  = Ok (vd ++ map (dist q) todo).
Proof.
  intros Hq. induction todo as [|r todo IH]; intros done vd rest Hs Hf Hvd Hrest.
  - destruct rest; [|discriminate]. reflexivity.
  - destruct rest as [|x rest]; [discriminate|]. simpl length. simpl seq. simpl map. cbn [run_cells].
    inversion Hs as [|? ? Hr Hs']; subst.
    change (Z.of_nat (length done)) with (mv_len done).
    rewrite cat_cell; [|assumption|assumption|apply Hf; now left].
    rewrite (mv_len_eq done vd) by (symmetry; exact Hvd). rewrite mv_set_app_r.
    specialize (IH (done ++ [r]) (vd ++ [dist q r]) rest Hs').
    rewrite <- !app_assoc in IH. simpl app in IH.
    replace (length (done ++ [r])) with (S (length done)) in IH by (rewrite app_length; simpl; lia).
    apply IH.
    + intros r' Hin. apply Hf. now right.
    + rewrite app_length. simpl. lia.
    + simpl in Hrest. lia.
Qed.

(** fast path: the generated prange loop on the concatenated representation *)
Lemma fast_path fuel q refs out :
  sorted q -> Forall sorted refs -> (forall r, In r refs -> (length q + length r <= fuel)%nat) ->
  length out = length refs ->
  _jaccarddist_parallel fuel q (cat_values refs) (cat_bounds refs) out = Ok (dist_row q refs).
Proof.
  intros Hq Hs Hf Hl. rewrite par_seq_run.
  unfold iota, cat_bounds at 2, mv_len. rewrite cat_bounds_from_length.
  replace (Z.to_nat (Z.of_nat (S (length refs)) - 1)) with (length refs) by lia.
  apply (run_cells_cat fuel q Hq refs [] [] out Hs Hf eq_refl Hl).
Qed.

Lemma in_concat_length {A} (r : list A) refs : In r refs -> (length r <= length (concat refs))%nat.
Proof.
  induction refs as [|h t IH]; intros H; [contradiction|]. simpl. rewrite app_length.
  destruct H as [->|H]; [lia|]. specialize (IH H). lia.
Qed.

(** per-item loop *)
Lemma array_loop_spec dr q : cast dr = POk tt -> sorted q -> forall refs vd rest,
  Forall sorted refs -> length rest = length refs ->
  array_loop dr q refs (mv_len vd) (vd ++ rest) = POk (vd ++ map (dist q) refs).
Proof.
  intros Hc Hq. induction refs as [|r refs IH]; intros vd rest Hs Hl.
  - destruct rest; [|discriminate]. reflexivity.
  - destruct rest as [|x rest]; [discriminate|]. inversion Hs as [|? ? Hr Hs']; subst.
    cbn [array_loop]. rewrite Hc. cbn [pbind].
    rewrite pair_dist by (assumption || lia). cbn [lift pbind].
    rewrite mv_set_app_r.
    specialize (IH (vd ++ [dist q r]) rest Hs' ltac:(simpl in Hl; lia)).
    rewrite mv_len_snoc in IH. rewrite <- !app_assoc in IH. exact IH.
Qed.

(** ** jaccarddist_array *)

(** accepted dtypes *)
Definition dtype_ok (d : Z * Z) : bool :=
  ((fst d =? 0) || (fst d =? 1)) && memZ (snd d) coords_sizes.

Lemma cast_ok d : dtype_ok d = true -> cast d = POk tt.
Proof.
  unfold dtype_ok, cast, cast_sigs_array. intros H.
  apply andb_prop in H as [Hk Hs]. rewrite Hs.
  destruct (fst d =? 0); [reflexivity|]. simpl in Hk. rewrite Hk. reflexivity.
Qed.

Lemma cast_bad d : dtype_ok d = false -> cast d = PErr PValueError.
Proof.
  unfold dtype_ok, cast, cast_sigs_array. intros H.
  destruct (memZ (snd d) coords_sizes); [|now rewrite !andb_false_r].
  rewrite andb_true_r in H. apply orb_false_elim in H as [-> ->]. reflexivity.
Qed.

Lemma C05_array_core_l c dr q refs out0 :
  dtype_ok dr = true -> sorted q -> Forall sorted refs -> length out0 = length refs ->
  jd_array_core c dr q refs out0 = POk (dist_row q refs).
Proof.
  intros Hdr Hq Hs Hl. unfold jd_array_core. destruct (is_sigarray c).
  - rewrite (cast_ok dr Hdr). cbn [pbind].
    rewrite fast_path; try assumption; [reflexivity|].
    intros r Hin. pose proof (in_concat_length r refs Hin). unfold cat_values. lia.
  - apply (array_loop_spec dr q (cast_ok dr Hdr) Hq refs [] out0 Hs Hl).
Qed.

(** a caller-supplied buffer passes the checks: right shape, float32 *)
Definition out_ok {C} (out : option (obuf C)) (shape : list Z) : bool :=
  match out with
  | None => true
  | Some (sh, isf32, _) => shape_eqb sh shape && isf32
  end.

(** the cells of a 1-D buffer are as many as its shape says *)
Definition buf1_wf (out : option (obuf (list f32))) : bool :=
  match out with
  | Some ([n], _, cells) => n =? mv_len cells
  | _ => true
  end.

Lemma shape_eqb_eq a : forall b, shape_eqb a b = true -> a = b.
Proof.
  induction a as [|x a IH]; intros [|y b] H; simpl in H; try discriminate; [reflexivity|].
  apply andb_prop in H as [H1 H2]. apply Z.eqb_eq in H1. subst. f_equal. now apply IH.
Qed.

Lemma check_out_spec {C} (out : option (obuf C)) shape (fresh : C) :
  check_out out shape fresh =
    if out_ok out shape then POk (match out with None => fresh | Some (_, _, cells) => cells end)
    else PErr PValueError.
Proof.
  unfold check_out, out_ok. destruct out as [[[sh f] cells]|]; [|reflexivity].
  destruct (shape_eqb sh shape); [|reflexivity]. destruct f; reflexivity.
Qed.

Lemma C05_array_l c dq dr q refs out :
  dtype_ok dq = true -> dtype_ok dr = true -> sorted q -> Forall sorted refs -> buf1_wf out = true ->
  jd_array c dq dr q refs out =
    if out_ok out [mv_len refs] then POk (dist_row q refs) else PErr PValueError.
Proof.
  intros Hdq Hdr Hq Hs Hwf. unfold jd_array. rewrite (cast_ok dq Hdq). cbn [pbind].
  rewrite check_out_spec. destruct (out_ok out [mv_len refs]) eqn:Hok; [|reflexivity].
  cbn [pbind]. apply C05_array_core_l; try assumption.
  destruct out as [[[sh f] cells]|]; [|apply repeat_length].
  simpl in Hok. apply andb_prop in Hok as [Hsh _]. apply shape_eqb_eq in Hsh. subst sh.
  simpl in Hwf. apply Z.eqb_eq in Hwf. unfold mv_len in Hwf. lia.
Qed.

(** the values are those of the generated two-signature function *)
Lemma C05_array_pairs_l q refs :
  sorted q -> Forall sorted refs ->
  Forall2 (fun r d => forall fuel, (length q + length r <= fuel)%nat -> jaccarddist fuel q r = Ok d)
          refs (dist_row q refs).
Proof.
  intros Hq Hs. induction Hs as [|r refs Hr Hs IH]; simpl; constructor; [|exact IH].
  intros fuel Hf. now apply pair_dist.
Qed.

(** wrong query / reference dtype: ValueError *)
Lemma C05_array_dtype_l c dq dr q refs out :
  dtype_ok dq = false -> jd_array c dq dr q refs out = PErr PValueError.
Proof. intros H. unfold jd_array. rewrite (cast_bad dq H). reflexivity. Qed.

