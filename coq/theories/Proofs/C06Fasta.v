(** C06, part 2: a FASTA file written at any line width >= 1, with LF or CRLF line endings, with or
    without the final newline, is parsed back (universal newlines + FastaIterator) to exactly the
    contigs that were written. *)
From Coq Require Import ZArith List Bool Lia ZifyBool ZifyNat.
From GV Require Import Base.CSem Model.C06Fasta.
Import ListNotations.
Open Scope Z_scope.

(** * small list facts *)
Lemma Forall_firstn' {A} (P : A -> Prop) n : forall l, Forall P l -> Forall P (firstn n l).
Proof.
  induction n as [|n IH]; intros l H; [constructor|].
  destruct l as [|x l]; [constructor|]. inversion H; subst. cbn [firstn]. constructor; auto.
Qed.

Lemma Forall_skipn' {A} (P : A -> Prop) n : forall l, Forall P l -> Forall P (skipn n l).
Proof.
  induction n as [|n IH]; intros l H; [exact H|].
  destruct l as [|x l]; [constructor|]. inversion H; subst. cbn [skipn]. auto.
Qed.

(** * chunks *)
Lemma chunks_concat w : (1 <= w)%nat -> forall fuel s,
  (length s <= fuel)%nat -> concat (chunks fuel w s) = s.
Proof.
  intros Hw. induction fuel as [|fuel IH]; intros s Hl.
  - destruct s; [reflexivity|simpl in Hl; lia].
  - cbn [chunks]. destruct s as [|c t]; [reflexivity|].
    cbn [concat]. rewrite IH; [apply firstn_skipn|].
    rewrite skipn_length. cbn [length] in *. lia.
Qed.

Lemma chunks_Forall (P : Z -> Prop) w : (1 <= w)%nat -> forall fuel s,
  Forall P s -> Forall (fun l => l <> [] /\ Forall P l) (chunks fuel w s).
Proof.
  intros Hw. induction fuel as [|fuel IH]; intros s Hs; cbn [chunks]; [constructor|].
  destruct s as [|c t]; [constructor|]. constructor.
  - split; [|now apply Forall_firstn'].
    destruct w as [|w']; [lia|]. cbn [firstn]. discriminate.
  - apply IH. now apply Forall_skipn'.
Qed.

(** every piece has at most [w] bytes and all but the last exactly [w] (the layout is the intended one) *)
Lemma chunks_width w : forall fuel s, Forall (fun l => (length l <= w)%nat) (chunks fuel w s).
Proof.
  induction fuel as [|fuel IH]; intros s; cbn [chunks]; [constructor|].
  destruct s as [|c t]; [constructor|]. constructor; [|apply IH].
  rewrite firstn_length. lia.
Qed.

(** * universal newlines *)
Lemma un_cons_nocr c t : c <> 13 -> universal_newlines (c :: t) = c :: universal_newlines t.
Proof. intros H. cbn [universal_newlines]. destruct (c =? 13) eqn:E; [lia|reflexivity]. Qed.

Lemma un_app_nocr a b : Forall (fun c => c <> 13) a ->
  universal_newlines (a ++ b) = a ++ universal_newlines b.
Proof.
  induction 1 as [|c a Hc _ IH]; [reflexivity|].
  cbn [app]. rewrite un_cons_nocr by assumption. now rewrite IH.
Qed.

Lemma un_nocr a : Forall (fun c => c <> 13) a -> universal_newlines a = a.
Proof. intros H. rewrite <- (app_nil_r a) at 1. rewrite un_app_nocr by assumption. cbn. apply app_nil_r. Qed.

Lemma un_crlf t : universal_newlines (13 :: 10 :: t) = 10 :: universal_newlines t.
Proof. reflexivity. Qed.

Lemma un_eol crlf t : universal_newlines (eol crlf ++ t) = 10 :: universal_newlines t.
Proof. destruct crlf; [apply un_crlf|]. cbn [eol app]. now rewrite un_cons_nocr by lia. Qed.

Lemma un_join crlf fnl lines :
  Forall (Forall (fun c => c <> 13)) lines ->
  universal_newlines (join_lines (eol crlf) fnl lines) = join_lines [10] fnl lines.
Proof.
  induction 1 as [|l rest Hl Hrest IH]; [reflexivity|].
  cbn [join_lines]. destruct rest as [|l2 rest].
  - destruct fnl.
    + rewrite un_app_nocr by assumption. rewrite <- (app_nil_r (eol crlf)), un_eol. reflexivity.
    + now apply un_nocr.
  - rewrite un_app_nocr by assumption. rewrite un_eol. rewrite IH. reflexivity.
Qed.

(** * lines *)
Lemma split_lines_line l rest : Forall (fun c => c <> 10) l ->
  split_lines (l ++ 10 :: rest) = (l ++ [10]) :: split_lines rest.
Proof.
  induction 1 as [|c l Hc _ IH]; [reflexivity|].
  cbn [app split_lines]. destruct (c =? 10) eqn:E; [lia|]. rewrite IH. reflexivity.
Qed.

Lemma split_lines_last l : Forall (fun c => c <> 10) l -> l <> [] -> split_lines l = [l].
Proof.
  induction 1 as [|c l Hc Hl IH]; intros Hne; [congruence|].
  cbn [split_lines]. destruct (c =? 10) eqn:E; [lia|].
  destruct l as [|d l]; [reflexivity|]. rewrite IH by discriminate. reflexivity.
Qed.

(** the lines a reader sees: all terminated, except the last one when there is no final newline *)
Fixpoint term_lines (fnl : bool) (lines : list (list Z)) : list (list Z) :=
  match lines with
  | [] => []
  | l :: rest =>
      match rest with
      | [] => [if fnl then l ++ [10] else l]
      | _ :: _ => (l ++ [10]) :: term_lines fnl rest
      end
  end.

Lemma split_join fnl lines :
  Forall (fun l => l <> [] /\ Forall (fun c => c <> 10) l) lines ->
  split_lines (join_lines [10] fnl lines) = term_lines fnl lines.
Proof.
  induction 1 as [|l rest [Hne Hl] Hrest IH]; [reflexivity|].
  cbn [join_lines term_lines]. destruct rest as [|l2 rest].
  - destruct fnl.
    + rewrite split_lines_line by assumption. reflexivity.
    + now apply split_lines_last.
  - cbn [app]. rewrite split_lines_line by assumption. now rewrite IH.
Qed.

(** * the record loop only looks at three things of a line *)
Definition leq (l l' : list Z) : Prop :=
  is_gt_line l = is_gt_line l' /\ rstrip (tl l) = rstrip (tl l') /\ strip_seq l = strip_seq l'.

Lemma strip_body_cons l b : strip_seq (concat (rev (l :: b))) = strip_seq (concat (rev b)) ++ strip_seq l.
Proof.
  cbn [rev]. rewrite concat_app. unfold strip_seq. rewrite filter_app. cbn [concat]. now rewrite app_nil_r.
Qed.

Lemma loop_equiv ls ls' : Forall2 leq ls ls' -> forall t b b',
  strip_seq (concat (rev b)) = strip_seq (concat (rev b')) ->
  fasta_loop t b ls = fasta_loop t b' ls'.
Proof.
  induction 1 as [|l l' ls ls' [Hg [Ht Hs]] _ IH]; intros t b b' Hb.
  - cbn [fasta_loop]. unfold close_record. now rewrite Hb.
  - cbn [fasta_loop]. rewrite <- Hg. destruct (is_gt_line l).
    + unfold close_record. rewrite Hb, Ht. f_equal. now apply IH.
    + apply IH. rewrite !strip_body_cons. now rewrite Hb, Hs.
Qed.

Lemma parse_lines_equiv ls ls' : Forall2 leq ls ls' -> parse_lines ls = parse_lines ls'.
Proof.
  intros H. destruct H as [|l l' ls ls' [Hg [Ht Hs]] H]; [reflexivity|].
  cbn [parse_lines]. rewrite <- Hg. destruct (is_gt_line l); [|reflexivity].
  rewrite Ht. f_equal. now apply loop_equiv.
Qed.

Lemma rstrip_snoc_space x c : is_space c = true -> rstrip (x ++ [c]) = rstrip x.
Proof.
  intros H. induction x as [|a x IH].
  - cbn. now rewrite H.
  - cbn [app rstrip]. now rewrite IH.
Qed.

Lemma leq_refl l : leq l l.
Proof. repeat split. Qed.

Lemma leq_lf l : l <> [] -> leq l (l ++ [10]).
Proof.
  intros H. destruct l as [|c l]; [congruence|]. repeat split.
  - cbn [app tl]. now rewrite rstrip_snoc_space.
  - unfold strip_seq. rewrite filter_app. cbn. now rewrite app_nil_r.
Qed.

Lemma term_lines_leq fnl lines : Forall (fun l => l <> []) lines -> Forall2 leq lines (term_lines fnl lines).
Proof.
  induction 1 as [|l rest Hne _ IH]; [constructor|].
  cbn [term_lines]. destruct rest as [|l2 rest].
  - constructor; [|constructor]. destruct fnl; [now apply leq_lf|apply leq_refl].
  - constructor; [now apply leq_lf|exact IH].
Qed.

(** * the loop on the lines of a written file *)
Lemma loop_body t body ls rest : Forall (fun l => is_gt_line l = false) ls ->
  fasta_loop t body (ls ++ rest) = fasta_loop t (rev ls ++ body) rest.
Proof.
  intros H. revert body. induction H as [|l ls Hl _ IH]; intros body; [reflexivity|].
  cbn [app fasta_loop]. rewrite Hl, IH. cbn [rev]. now rewrite <- app_assoc.
Qed.

Lemma strip_seq_ok s : Forall (fun c => seq_ok c = true) s -> strip_seq s = s.
Proof.
  induction 1 as [|c s Hc _ IH]; [reflexivity|].
  unfold strip_seq in *. cbn [filter]. unfold seq_ok in Hc. apply andb_true_iff in Hc.
  destruct Hc as [Hc _]. now rewrite Hc, IH.
Qed.

Lemma wf_contig_iff c : wf_contig c = true <->
  Forall (fun x => title_ok x = true) (fst c) /\ Forall (fun x => seq_ok x = true) (snd c).
Proof.
  unfold wf_contig. rewrite andb_true_iff, !forallb_forall, !Forall_forall. tauto.
Qed.

Lemma seq_ok_not_gt l : l <> [] -> Forall (fun x => seq_ok x = true) l -> is_gt_line l = false.
Proof.
  intros Hne H. destruct l as [|c l]; [congruence|]. inversion H as [|? ? Hc _]; subst.
  cbn [is_gt_line]. unfold seq_ok in Hc. apply andb_true_iff in Hc. destruct Hc as [_ Hc].
  now apply negb_true_iff in Hc.
Qed.

Lemma chunk_lines_body w s : (1 <= w)%nat -> Forall (fun x => seq_ok x = true) s ->
  Forall (fun l => is_gt_line l = false) (chunks (length s) w s).
Proof.
  intros Hw Hs. eapply Forall_impl; [|apply (chunks_Forall _ w Hw (length s) s Hs)].
  intros l [Hne Hl]. now apply seq_ok_not_gt.
Qed.

Lemma close_chunks w t s : (1 <= w)%nat -> Forall (fun x => seq_ok x = true) s ->
  close_record t (rev (chunks (length s) w s) ++ []) = (t, s).
Proof.
  intros Hw Hs. unfold close_record. rewrite app_nil_r, rev_involutive.
  rewrite chunks_concat by lia. now rewrite strip_seq_ok.
Qed.

Definition parsed (c : record) : record := (rstrip (fst c), snd c).

Lemma loop_contigs w : (1 <= w)%nat -> forall cs c,
  wf_contig c = true -> Forall (fun c => wf_contig c = true) cs ->
  fasta_loop (rstrip (fst c)) [] (chunks (length (snd c)) w (snd c) ++ flat_map (contig_lines w) cs) =
  map parsed (c :: cs).
Proof.
  intros Hw. induction cs as [|a cs IH]; intros c Hc Hcs.
  - apply wf_contig_iff in Hc. destruct Hc as [_ Hs].
    cbn [flat_map]. rewrite loop_body by now apply chunk_lines_body.
    cbn [fasta_loop map]. now rewrite close_chunks.
  - inversion Hcs as [|? ? Ha Hcs']; subst.
    pose proof Hc as Hc'. apply wf_contig_iff in Hc'. destruct Hc' as [_ Hs].
    cbn [flat_map]. unfold contig_lines at 1. rewrite loop_body by now apply chunk_lines_body.
    cbn [app fasta_loop is_gt_line]. rewrite Z.eqb_refl. rewrite close_chunks by assumption.
    cbn [tl]. rewrite IH by assumption. reflexivity.
Qed.

Lemma parse_lines_contigs w cs : (1 <= w)%nat -> Forall (fun c => wf_contig c = true) cs ->
  parse_lines (flat_map (contig_lines w) cs) = Ok (map parsed cs).
Proof.
  intros Hw H. destruct cs as [|c cs]; [reflexivity|]. inversion H; subst.
  cbn [flat_map]. unfold contig_lines at 1. cbn [app parse_lines is_gt_line]. rewrite Z.eqb_refl.
  cbn [tl]. now rewrite loop_contigs.
Qed.

(** every written line is non-empty and free of CR and LF *)
Lemma contig_lines_good w cs : (1 <= w)%nat -> Forall (fun c => wf_contig c = true) cs ->
  Forall (fun l => l <> [] /\ Forall (fun c => c <> 13 /\ c <> 10) l) (flat_map (contig_lines w) cs).
Proof.
  intros Hw H. apply Forall_flat_map. eapply Forall_impl; [|exact H].
  intros c Hc. apply wf_contig_iff in Hc. destruct Hc as [Ht Hs]. unfold contig_lines. constructor.
  - split; [discriminate|]. constructor; [lia|].
    eapply Forall_impl; [|exact Ht]. intros x Hx. unfold title_ok in Hx. lia.
  - eapply Forall_impl; [|apply (chunks_Forall (fun x => seq_ok x = true) w Hw _ _ Hs)].
    intros l [Hne Hl]. split; [assumption|].
    eapply Forall_impl; [|exact Hl]. intros x Hx. unfold seq_ok, seq_char in Hx. lia.
Qed.

(** * the round trip *)
Theorem C06_wrapping_l w crlf fnl contigs :
  (1 <= w)%nat -> forallb wf_contig contigs = true ->
  parse_fasta (render_fasta w crlf fnl contigs) = Ok (map parsed contigs).
Proof.
  intros Hw Hwf.
  assert (H : Forall (fun c => wf_contig c = true) contigs)
    by (apply Forall_forall; now apply forallb_forall).
  pose proof (contig_lines_good w contigs Hw H) as Hg.
  unfold parse_fasta, render_fasta.
  rewrite un_join.
  2:{ eapply Forall_impl; [|exact Hg]. intros l [_ Hl].
      eapply Forall_impl; [|exact Hl]. intros x [Hx1 Hx2]; assumption. }
  rewrite split_join.
  2:{ eapply Forall_impl; [|exact Hg]. intros l [Hne Hl]. split; [assumption|].
      eapply Forall_impl; [|exact Hl]. intros x [Hx1 Hx2]; assumption. }
  rewrite <- (parse_lines_equiv (flat_map (contig_lines w) contigs)).
  - now apply parse_lines_contigs.
  - apply term_lines_leq. eapply Forall_impl; [|exact Hg]. intros l [Hl _]; exact Hl.
Qed.

(** the sequences come back unchanged, the titles up to trailing white space *)
Corollary C06_wrapping_seqs_l w crlf fnl contigs :
  (1 <= w)%nat -> forallb wf_contig contigs = true ->
  exists recs, parse_fasta (render_fasta w crlf fnl contigs) = Ok recs /\
               map snd recs = map snd contigs /\ map fst recs = map (fun c => rstrip (fst c)) contigs.
Proof.
  intros Hw Hwf. exists (map parsed contigs). split; [now apply C06_wrapping_l|].
  rewrite !map_map. split; reflexivity.
Qed.

(** hence two renderings of the same contigs parse to the same records *)
Corollary C06_layout_independent_l w w' crlf crlf' fnl fnl' contigs :
  (1 <= w)%nat -> (1 <= w')%nat -> forallb wf_contig contigs = true ->
  parse_fasta (render_fasta w crlf fnl contigs) = parse_fasta (render_fasta w' crlf' fnl' contigs).
Proof. intros. now rewrite !C06_wrapping_l. Qed.

(** * non-vacuity and the edge cases *)

(** ">a" "ACGTAC" (6 = 2 x 3, exact multiple), ">" "" (empty title, empty sequence), ">c d " "GT" *)
Example C06_fasta_ex :
  let cs := [([97], [65; 67; 71; 84; 65; 67]); ([], []); ([99; 32; 100; 32], [71; 84])] in
  forallb wf_contig cs = true /\
  render_fasta 3 true false cs =
    [62; 97; 13; 10; 65; 67; 71; 13; 10; 84; 65; 67; 13; 10; 62; 13; 10; 62; 99; 32; 100; 32; 13; 10; 71; 84] /\
  parse_fasta (render_fasta 3 true false cs) =
    Ok [([97], [65; 67; 71; 84; 65; 67]); ([], []); ([99; 32; 100], [71; 84])] /\
  parse_fasta (render_fasta 1 false true cs) = parse_fasta (render_fasta 7 true false cs).
Proof. vm_compute. repeat split; reflexivity. Qed.

(** zero contigs: the empty file has no records; a file without header is refused; a lone CR is a
    line terminator; blanks inside sequence lines are dropped; '>' inside a line is sequence data *)
Example C06_fasta_edge :
  render_fasta 5 false true [] = [] /\ parse_fasta [] = Ok [] /\
  parse_fasta [65; 67; 10] = Error ValueError /\
  parse_fasta [10; 62; 97; 10] = Error ValueError /\
  parse_fasta [62; 97; 13; 65; 32; 67; 13; 13; 10; 71; 62; 84] = Ok [([97], [65; 67; 71; 62; 84])].
Proof. vm_compute. repeat split; reflexivity. Qed.
