(** C16 -- the array-filling loop of [jaccarddist_pairwise] (Model/C16.v) initialises every
    cell: zero on the diagonal, the value of the pair (smaller index, larger index) on both
    sides of it; no slice assignment fails.  For every list of signatures. *)
From Coq Require Import ZArith List Bool Lia Arith.
From GV Require Import Model.C16 Spec.C16.
Import ListNotations.
Open Scope nat_scope.

(* ---- list helpers ------------------------------------------------------------------- *)

Lemma nth_firstn' {A} : forall (l : list A) n k x, k < n -> nth k (firstn n l) x = nth k l x.
Proof.
  induction l as [|a l IH]; intros n k x Hk.
  - rewrite firstn_nil. reflexivity.
  - destruct n as [|n]; [lia|]. destruct k as [|k]; cbn; [reflexivity|]. apply IH. lia.
Qed.

Lemma nth_skipn' {A} : forall n (l : list A) k x, nth k (skipn n l) x = nth (n + k) l x.
Proof.
  induction n as [|n IH]; intros l k x; [reflexivity|].
  destruct l as [|a l]; cbn.
  - destruct k; reflexivity.
  - apply IH.
Qed.

Lemma slice_length {A} : forall (l : list A) lo hi, hi <= length l -> length (slice l lo hi) = hi - lo.
Proof.
  intros l lo hi H. unfold slice. rewrite firstn_length, skipn_length. lia.
Qed.

Lemma slice_nth {A} : forall (l : list A) lo hi k x, k < hi - lo -> nth k (slice l lo hi) x = nth (lo + k) l x.
Proof.
  intros l lo hi k x H. unfold slice. rewrite nth_firstn' by lia. apply nth_skipn'.
Qed.

Lemma splice_length {A} : forall (l : list A) lo vs, lo + length vs <= length l ->
  length (splice l lo vs) = length l.
Proof.
  intros l lo vs H. unfold splice. rewrite !app_length, firstn_length, skipn_length. lia.
Qed.

Lemma splice_nth {A} : forall (l : list A) lo vs k x, lo + length vs <= length l ->
  nth k (splice l lo vs) x =
  if (lo <=? k) && (k <? lo + length vs) then nth (k - lo) vs x else nth k l x.
Proof.
  intros l lo vs k x H. unfold splice.
  assert (Hf : length (firstn lo l) = lo) by (rewrite firstn_length; lia).
  destruct (lo <=? k) eqn:E1; cbn [andb].
  - apply Nat.leb_le in E1. rewrite app_nth2 by lia. rewrite Hf.
    destruct (k <? lo + length vs) eqn:E2.
    + apply Nat.ltb_lt in E2. rewrite app_nth1 by lia. reflexivity.
    + apply Nat.ltb_ge in E2. rewrite app_nth2 by lia. rewrite nth_skipn'. f_equal. lia.
  - apply Nat.leb_gt in E1. rewrite app_nth1 by lia. apply nth_firstn'. lia.
Qed.

(* ---- matrices ----------------------------------------------------------------------- *)

Definition mget (m : mat) (a b : nat) : cell := nth b (nth a m []) None.
Definition shape (m : mat) (r c : nat) : Prop :=
  length m = r /\ forall a, a < r -> length (nth a m []) = c.

Lemma mat_ext : forall (m m' : mat) r c, shape m r c -> shape m' r c ->
  (forall a b, a < r -> b < c -> mget m a b = mget m' a b) -> m = m'.
Proof.
  intros m m' r c [L1 S1] [L2 S2] H.
  apply (nth_ext m m' [] []); [lia|].
  intros a Ha. rewrite L1 in Ha.
  apply (nth_ext _ _ None None); [rewrite S1, S2; lia|].
  intros b Hb. rewrite S1 in Hb by lia. apply H; assumption.
Qed.

Lemma nth_repeat_lt {A} : forall (x y : A) m k, k < m -> nth k (repeat x m) y = x.
Proof.
  intros x y m k H. rewrite (nth_indep _ y x) by (rewrite repeat_length; lia). apply nth_repeat.
Qed.

Lemma np_empty_spec : forall r c, shape (np_empty r c) r c /\ forall a b, mget (np_empty r c) a b = None.
Proof.
  intros r c. unfold np_empty, shape, mget. split; [split|].
  - apply repeat_length.
  - intros a Ha. rewrite nth_repeat_lt by lia. apply repeat_length.
  - intros a b. destruct (Nat.lt_ge_cases a r) as [Ha|Ha].
    + rewrite nth_repeat_lt by lia. destruct (Nat.lt_ge_cases b c) as [Hb|Hb].
      * apply nth_repeat_lt. lia.
      * apply nth_overflow. rewrite repeat_length. lia.
    + rewrite (nth_overflow (repeat _ _)) by (rewrite repeat_length; lia). destruct b; reflexivity.
Qed.

Lemma fill_diag_nth : forall (m : mat) i0 v a, a < length m ->
  nth a (fill_diag_from i0 m v) [] =
  let row := nth a m [] in if i0 + a <? length row then splice row (i0 + a) [v] else row.
Proof.
  induction m as [|row m IH]; intros i0 v a Ha; cbn in Ha; [lia|].
  destruct a as [|a]; cbn [fill_diag_from nth].
  - rewrite Nat.add_0_r. reflexivity.
  - rewrite IH by lia. replace (S i0 + a) with (i0 + S a) by lia. reflexivity.
Qed.

Lemma fill_diag_length : forall (m : mat) i0 v, length (fill_diag_from i0 m v) = length m.
Proof. induction m as [|row m IH]; intros i0 v; cbn; [reflexivity|]. rewrite IH. reflexivity. Qed.

Lemma fill_diag_spec : forall (m : mat) n v, shape m n n ->
  shape (fill_diag_from 0 m v) n n /\
  forall a b, a < n -> b < n -> mget (fill_diag_from 0 m v) a b = if a =? b then v else mget m a b.
Proof.
  intros m n v [L S]. split; [split|].
  - rewrite fill_diag_length. exact L.
  - intros a Ha. rewrite fill_diag_nth by lia. cbn zeta. rewrite Nat.add_0_l, S by lia.
    assert (E : a <? n = true) by (apply Nat.ltb_lt; lia). rewrite E.
    rewrite splice_length; [apply S; lia|]. rewrite S by lia. cbn. lia.
  - intros a b Ha Hb. unfold mget. rewrite fill_diag_nth by lia. cbn zeta.
    rewrite Nat.add_0_l, S by lia.
    assert (E : a <? n = true) by (apply Nat.ltb_lt; lia). rewrite E.
    rewrite splice_nth by (rewrite S by lia; cbn; lia). cbn [length].
    destruct (a =? b) eqn:E1.
    + apply Nat.eqb_eq in E1. subst b.
      assert (E2 : (a <=? a) && (a <? a + 1) = true)
        by (apply andb_true_iff; split; [apply Nat.leb_le|apply Nat.ltb_lt]; lia).
      rewrite E2, Nat.sub_diag. reflexivity.
    + apply Nat.eqb_neq in E1.
      assert (E2 : (a <=? b) && (b <? a + 1) = false).
      { apply andb_false_iff. destruct (Nat.lt_ge_cases b a); [left; apply Nat.leb_gt|right; apply Nat.ltb_ge]; lia. }
      rewrite E2. reflexivity.
Qed.

Lemma set_row_slice_spec : forall (m : mat) n i lo vs, shape m n n -> i < n -> lo <= n ->
  length vs = n - lo ->
  exists m', set_row_slice m i lo n vs = DOk m' /\ shape m' n n /\
    forall a b, mget m' a b =
      if (a =? i) && ((lo <=? b) && (b <? n)) then nth (b - lo) vs None else mget m a b.
Proof.
  intros m n i lo vs [L S] Hi Hlo Hvs. unfold set_row_slice.
  rewrite (nth_error_nth' m []) by lia.
  set (row := nth i m []). assert (Hrow : length row = n) by (apply S; lia).
  rewrite slice_length by lia. rewrite Hvs, Nat.eqb_refl.
  eexists; split; [reflexivity|].
  assert (Hr' : length (splice row lo vs) = n) by (rewrite splice_length; lia).
  assert (Hnth : forall a, nth a (splice m i [splice row lo vs]) [] =
                           if a =? i then splice row lo vs else nth a m []).
  { intro a. rewrite splice_nth by (cbn; lia). cbn [length].
    destruct (a =? i) eqn:E.
    - apply Nat.eqb_eq in E. subst a.
      assert (E2 : (i <=? i) && (i <? i + 1) = true)
        by (apply andb_true_iff; split; [apply Nat.leb_le|apply Nat.ltb_lt]; lia).
      rewrite E2, Nat.sub_diag. reflexivity.
    - apply Nat.eqb_neq in E.
      assert (E2 : (i <=? a) && (a <? i + 1) = false).
      { apply andb_false_iff. destruct (Nat.lt_ge_cases a i); [left; apply Nat.leb_gt|right; apply Nat.ltb_ge]; lia. }
      rewrite E2. reflexivity. }
  split; [split|].
  - rewrite splice_length by (cbn; lia). exact L.
  - intros a Ha. rewrite Hnth. destruct (a =? i); [exact Hr'|apply S; lia].
  - intros a b. unfold mget. rewrite Hnth. destruct (a =? i) eqn:E; cbn [andb]; [|reflexivity].
    apply Nat.eqb_eq in E. subst a. rewrite splice_nth by lia. rewrite Hvs.
    replace (lo + (n - lo)) with n by lia. reflexivity.
Qed.

Lemma set_col_from_spec : forall (rows : list (list cell)) j vs, length rows = length vs ->
  (forall k, k < length rows -> j < length (nth k rows [])) ->
  exists r', set_col_from rows j vs = DOk r' /\ length r' = length rows /\
    forall k, k < length rows -> nth k r' [] = splice (nth k rows []) j [nth k vs None].
Proof.
  induction rows as [|row rows IH]; intros j vs Hl Hj; destruct vs as [|v vs]; cbn in Hl; try discriminate.
  - exists []. repeat split. intros k Hk. cbn in Hk. lia.
  - cbn [set_col_from].
    assert (E : j <? length row = true) by (apply Nat.ltb_lt; apply (Hj 0); cbn; lia). rewrite E.
    destruct (IH j vs) as [r' [E1 [L1 N1]]]; [lia| |].
    { intros k Hk. apply (Hj (S k)). cbn. lia. }
    rewrite E1. cbn [dbind]. eexists; split; [reflexivity|]. split; [cbn; lia|].
    intros k Hk. destruct k as [|k]; [reflexivity|]. cbn [nth]. apply N1. cbn in Hk. lia.
Qed.

Lemma set_col_slice_spec : forall (m : mat) n lo j vs, shape m n n -> lo <= n -> j < n ->
  length vs = n - lo ->
  exists m', set_col_slice m lo n j vs = DOk m' /\ shape m' n n /\
    forall a b, mget m' a b =
      if (b =? j) && ((lo <=? a) && (a <? n)) then nth (a - lo) vs None else mget m a b.
Proof.
  intros m n lo j vs [L S] Hlo Hj Hvs. unfold set_col_slice.
  assert (Hsl : length (slice m lo n) = n - lo) by (apply slice_length; lia).
  destruct (set_col_from_spec (slice m lo n) j vs) as [r' [E1 [L1 N1]]]; [lia| |].
  { intros k Hk. rewrite slice_nth by lia. rewrite S; lia. }
  rewrite E1. cbn [dbind]. eexists; split; [reflexivity|].
  rewrite Hsl in L1, N1.
  assert (Hnth : forall a, nth a (splice m lo r') [] =
            if (lo <=? a) && (a <? n) then splice (nth a m []) j [nth (a - lo) vs None] else nth a m []).
  { intro a. rewrite splice_nth by lia. rewrite L1. replace (lo + (n - lo)) with n by lia.
    destruct ((lo <=? a) && (a <? n)) eqn:E; [|reflexivity].
    apply andb_true_iff in E. destruct E as [Ea Eb]. apply Nat.leb_le in Ea. apply Nat.ltb_lt in Eb.
    rewrite N1 by lia. rewrite slice_nth by lia. replace (lo + (a - lo)) with a by lia. reflexivity. }
  split; [split|].
  - rewrite splice_length by lia. exact L.
  - intros a Ha. rewrite Hnth. destruct ((lo <=? a) && (a <? n)); [|apply S; lia].
    rewrite splice_length; [apply S; lia|]. rewrite S by lia. cbn. lia.
  - intros a b. unfold mget. rewrite Hnth.
    destruct ((lo <=? a) && (a <? n)) eqn:E; [|rewrite andb_false_r; reflexivity].
    rewrite andb_true_r.
    apply andb_true_iff in E. destruct E as [Ea Eb]. apply Nat.leb_le in Ea. apply Nat.ltb_lt in Eb.
    rewrite splice_nth by (rewrite S by lia; cbn; lia). cbn [length].
    destruct (b =? j) eqn:E3.
    + apply Nat.eqb_eq in E3. subst b.
      assert (E2 : (j <=? j) && (j <? j + 1) = true)
        by (apply andb_true_iff; split; [apply Nat.leb_le|apply Nat.ltb_lt]; lia).
      rewrite E2, Nat.sub_diag. reflexivity.
    + apply Nat.eqb_neq in E3.
      assert (E2 : (j <=? b) && (b <? j + 1) = false).
      { apply andb_false_iff. destruct (Nat.lt_ge_cases b j); [left; apply Nat.leb_gt|right; apply Nat.ltb_ge]; lia. }
      rewrite E2. reflexivity.
Qed.

(* ---- the loop ----------------------------------------------------------------------- *)

Section Pairwise.
Variable d : G -> G -> Z.
Variable sigs : list G.
Let n := length sigs.
Let sg (a : nat) : G := nth a sigs 0%Z.

(** after the iterations 0 .. i-1 *)
Definition inv (i : nat) (out : mat) : Prop :=
  shape out n n /\
  forall a b, a < n -> b < n ->
    (a = b -> mget out a b = Some 0%Z) /\
    (a < b -> a < i -> mget out a b = Some (d (sg a) (sg b))) /\
    (b < a -> b < i -> mget out a b = Some (d (sg b) (sg a))).

Lemma pw_step_inv : forall i out, i < n - 1 -> inv i out ->
  exists out', pw_step d sigs n i out = DOk out' /\ inv (S i) out'.
Proof.
  intros i out Hi [Sh I]. unfold pw_step.
  rewrite (nth_error_nth' sigs 0%Z) by (fold n; lia). fold (sg i).
  set (vs := map (fun r => Some (d (sg i) r)) (slice sigs (i + 1) n)).
  assert (Hvs : length vs = n - (i + 1)).
  { unfold vs. rewrite map_length. apply slice_length. fold n. lia. }
  assert (Hvn : forall k, k < n - (i + 1) -> nth k vs None = Some (d (sg i) (sg (i + 1 + k)))).
  { intros k Hk. unfold vs.
    rewrite (nth_indep _ None (Some (d (sg i) 0%Z))) by (rewrite map_length, slice_length; fold n; lia).
    rewrite (map_nth (fun r => Some (d (sg i) r))). rewrite slice_nth by lia. reflexivity. }
  destruct (set_row_slice_spec out n i (i + 1) vs Sh) as [out1 [E1 [Sh1 G1]]]; [lia|lia|exact Hvs|].
  rewrite E1. cbn [dbind].
  rewrite (nth_error_nth' out1 []) by (destruct Sh1; lia).
  set (row := nth i out1 []).
  assert (Hrow : length row = n) by (apply Sh1; lia).
  destruct (set_col_slice_spec out1 n (i + 1) i (slice row (i + 1) n) Sh1) as [out2 [E2 [Sh2 G2]]];
    [lia|lia|apply slice_length; lia|].
  rewrite E2. eexists; split; [reflexivity|].
  split; [exact Sh2|].
  intros a b Ha Hb. rewrite G2.
  destruct (I a b Ha Hb) as [Id [Iu Il]].
  destruct ((b =? i) && ((i + 1 <=? a) && (a <? n))) eqn:C2.
  - (* the mirrored cell (a, i), a > i *)
    apply andb_true_iff in C2. destruct C2 as [Cb Ca]. apply Nat.eqb_eq in Cb. subst b.
    apply andb_true_iff in Ca. destruct Ca as [Ca _]. apply Nat.leb_le in Ca.
    rewrite slice_nth by lia. replace (i + 1 + (a - (i + 1))) with a by lia.
    change (nth a row None) with (mget out1 i a). rewrite G1.
    assert (C1 : (i =? i) && ((i + 1 <=? a) && (a <? n)) = true).
    { rewrite Nat.eqb_refl. cbn [andb]. apply andb_true_iff; split; [apply Nat.leb_le|apply Nat.ltb_lt]; lia. }
    rewrite C1. rewrite Hvn by lia. replace (i + 1 + (a - (i + 1))) with a by lia.
    repeat split; intros; try lia; reflexivity.
  - rewrite G1.
    destruct ((a =? i) && ((i + 1 <=? b) && (b <? n))) eqn:C1.
    + (* the computed cell (i, b), b > i *)
      apply andb_true_iff in C1. destruct C1 as [Ca Cb]. apply Nat.eqb_eq in Ca. subst a.
      apply andb_true_iff in Cb. destruct Cb as [Cb _]. apply Nat.leb_le in Cb.
      rewrite Hvn by lia. replace (i + 1 + (b - (i + 1))) with b by lia.
      repeat split; intros; try lia; reflexivity.
    + (* untouched cell *)
      assert (Hn1 : ~ (a = i /\ i < b)).
      { intros [-> Hlt]. rewrite Nat.eqb_refl in C1. cbn [andb] in C1.
        apply andb_false_iff in C1. destruct C1 as [C|C]; [apply Nat.leb_gt in C|apply Nat.ltb_ge in C]; lia. }
      assert (Hn2 : ~ (b = i /\ i < a)).
      { intros [-> Hlt]. rewrite Nat.eqb_refl in C2. cbn [andb] in C2.
        apply andb_false_iff in C2. destruct C2 as [C|C]; [apply Nat.leb_gt in C|apply Nat.ltb_ge in C]; lia. }
      repeat split; intros.
      * apply Id; assumption.
      * apply Iu; lia.
      * apply Il; lia.
Qed.

Lemma pw_iter_inv : forall k i out, i + k <= n - 1 -> inv i out ->
  exists out', pw_iter d sigs n (seq i k) out = DOk out' /\ inv (i + k) out'.
Proof.
  induction k as [|k IH]; intros i out Hk Hinv; cbn [seq pw_iter].
  - exists out. rewrite Nat.add_0_r. split; [reflexivity|exact Hinv].
  - destruct (pw_step_inv i out) as [out1 [E1 I1]]; [lia|exact Hinv|].
    rewrite E1. cbn [dbind]. destruct (IH (S i) out1) as [out2 [E2 I2]]; [lia|exact I1|].
    exists out2. split; [exact E2|]. replace (i + S k) with (S i + k) by lia. exact I2.
Qed.

Definition sq_matrix : mat :=
  map (fun a => map (fun b => Some (sq_dist d sigs a b)) (seq 0 n)) (seq 0 n).

Lemma sq_matrix_spec : shape sq_matrix n n /\
  forall a b, a < n -> b < n -> mget sq_matrix a b = Some (sq_dist d sigs a b).
Proof.
  unfold sq_matrix, shape, mget.
  assert (Hrow : forall a, a < n ->
     nth a (map (fun a => map (fun b => Some (sq_dist d sigs a b)) (seq 0 n)) (seq 0 n)) [] =
     map (fun b => Some (sq_dist d sigs a b)) (seq 0 n)).
  { intros a Ha.
    rewrite (nth_indep _ [] ((fun a => map (fun b => Some (sq_dist d sigs a b)) (seq 0 n)) 0))
      by (rewrite map_length, seq_length; lia).
    rewrite (map_nth (fun a => map (fun b => Some (sq_dist d sigs a b)) (seq 0 n))).
    rewrite seq_nth by lia. reflexivity. }
  split; [split|].
  - rewrite map_length, seq_length. reflexivity.
  - intros a Ha. rewrite Hrow by lia. rewrite map_length, seq_length. reflexivity.
  - intros a b Ha Hb. rewrite Hrow by lia.
    rewrite (nth_indep _ None ((fun b => Some (sq_dist d sigs a b)) 0))
      by (rewrite map_length, seq_length; lia).
    rewrite (map_nth (fun b => Some (sq_dist d sigs a b))). rewrite seq_nth by lia. reflexivity.
Qed.

(** the loop terminates without an error and leaves exactly the square matrix *)
Lemma pairwise_correct : jaccarddist_pairwise d sigs = DOk sq_matrix.
Proof.
  unfold jaccarddist_pairwise. fold n.
  destruct (np_empty_spec n n) as [Sh0 G0].
  destruct (fill_diag_spec (np_empty n n) n (Some 0%Z) Sh0) as [Sh1 G1].
  assert (I0 : inv 0 (fill_diag_from 0 (np_empty n n) (Some 0%Z))).
  { split; [exact Sh1|]. intros a b Ha Hb. repeat split; intros; try lia.
    subst b. rewrite G1 by lia. rewrite Nat.eqb_refl. reflexivity. }
  destruct (pw_iter_inv (n - 1) 0 _ ltac:(lia) I0) as [out [E [Sh I]]].
  rewrite E. f_equal.
  destruct sq_matrix_spec as [Sh2 G2].
  apply (mat_ext out sq_matrix n n Sh Sh2).
  intros a b Ha Hb. rewrite G2 by lia. destruct (I a b Ha Hb) as [Id [Iu Il]].
  unfold sq_dist. destruct (a =? b) eqn:E1.
  - apply Nat.eqb_eq in E1. apply Id. exact E1.
  - apply Nat.eqb_neq in E1. destruct (Nat.lt_ge_cases a b) as [Hlt|Hge].
    + rewrite Nat.min_l, Nat.max_r by lia. apply Iu; lia.
    + rewrite Nat.min_r, Nat.max_l by lia. apply Il; lia.
Qed.

End Pairwise.
