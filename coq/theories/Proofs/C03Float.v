(** C03 -- the comparison "binary32 distance <= binary64 threshold" as decoded by Base/F32.v
    (op 4 of Entry/E03.v, which the harness runs next to the scaled-integer comparison and next
    to the code on every boundary pair) is the comparison of the two real values: widening a
    binary32 to binary64 is exact, and Flocq's [Bcompare] on finite values is [Rcompare]. *)
From Coq Require Import ZArith Reals Lia.
From Flocq Require Import Core.Core IEEE754.BinarySingleNaN.
From GV Require Import Base.F32 Spec.C03Float.
Open Scope Z_scope.

Lemma f64_of_f32_exact : forall d : f32, is_finite d = true ->
  is_finite (f64_of_f32 d) = true /\ B2R (f64_of_f32 d) = B2R d.
Proof.
  intros d Hd. destruct d as [s|s| |s m e Hb]; try discriminate; cbn [f64_of_f32].
  - split; reflexivity.
  - set (mz := if s then Z.neg m else Z.pos m).
    assert (Hx : B2R (B754_finite s m e Hb : f32) = F2R (Float radix2 mz e)).
    { unfold mz. now destruct s. }
    pose proof (binary_normalize_correct 53 1024 Hp64 He64 mode_NE mz e false) as H.
    cbv zeta in H.
    assert (Hfmt : generic_format radix2 (SpecFloat.fexp 53 1024) (F2R (Float radix2 mz e))).
    { rewrite <- Hx.
      destruct (FLT_format_B2R 24 128 Hp32 (B754_finite s m e Hb)) as [f Hf Hm He].
      change (SpecFloat.fexp 53 1024) with (FLT_exp (-1074) 53).
      apply generic_format_FLT. exists f; [exact Hf| |].
      - eapply Z.lt_trans; [exact Hm|]. reflexivity.
      - eapply Z.le_trans; [|exact He]. now compute. }
    rewrite round_generic in H; [|apply valid_rnd_N|exact Hfmt].
    rewrite Rlt_bool_true in H.
    + destruct H as [H1 [H2 _]]. split; [exact H2|]. rewrite H1. now rewrite Hx.
    + rewrite <- Hx. eapply Rlt_trans; [apply abs_B2R_lt_emax|]. apply bpow_lt. reflexivity.
Qed.

Lemma C03_float_compare_exact_l : forall (d : f32) (t : f64),
  is_finite d = true -> is_finite t = true ->
  f64_le (f64_of_f32 d) t = Rle_bool (B2R d) (B2R t).
Proof.
  intros d t Hd Ht. destruct (f64_of_f32_exact d Hd) as [Hf Hr].
  unfold f64_le. rewrite (Bcompare_correct 53 1024 _ _ Hf Ht), Hr.
  unfold Rle_bool. now destruct (Rcompare (B2R d) (B2R t)).
Qed.

Lemma C03_float_argmin_exact_l : forall (x y : f32),
  is_finite x = true -> is_finite y = true ->
  f32_lt x y = Rlt_bool (B2R x) (B2R y).
Proof.
  intros x y Hx Hy. unfold f32_lt. rewrite (Bcompare_correct 24 128 _ _ Hx Hy).
  unfold Rlt_bool. now destruct (Rcompare (B2R x) (B2R y)).
Qed.

(** * scaled integers *)
Lemma scaled_IZR : forall prec emax k (x : binary_float prec emax),
  is_finite x = true -> fits k x -> IZR (scaled k x) = (B2R x * bpow radix2 k)%R.
Proof.
  intros prec emax k x Hf Hk. destruct x as [s|s| |s m e Hb]; try discriminate; cbn [scaled B2R].
  - now rewrite Rmult_0_l.
  - cbn [fits] in Hk. unfold F2R; cbn [Fnum Fexp].
    rewrite mult_IZR. change 2 with (radix_val radix2) at 1.
    rewrite IZR_Zpower by exact Hk. rewrite bpow_plus. ring.
Qed.

Lemma leb_IZR : forall a b, (a <=? b) = Rle_bool (IZR a) (IZR b).
Proof.
  intros a b. destruct (Z.leb_spec a b) as [H|H]; symmetry.
  - apply Rle_bool_true. now apply IZR_le.
  - apply Rle_bool_false. now apply IZR_lt.
Qed.

Lemma ltb_IZR : forall a b, (a <? b) = Rlt_bool (IZR a) (IZR b).
Proof.
  intros a b. destruct (Z.ltb_spec a b) as [H|H]; symmetry.
  - apply Rlt_bool_true. now apply IZR_lt.
  - apply Rlt_bool_false. now apply IZR_le.
Qed.

Lemma Rle_bool_scale : forall x y p, (0 < p)%R -> Rle_bool (x * p) (y * p) = Rle_bool x y.
Proof.
  intros x y p Hp. destruct (Rle_or_lt x y) as [H|H].
  - rewrite !Rle_bool_true; auto using Rmult_le_compat_r, Rlt_le.
  - rewrite !Rle_bool_false; auto using Rmult_lt_compat_r.
Qed.

Lemma Rlt_bool_scale : forall x y p, (0 < p)%R -> Rlt_bool (x * p) (y * p) = Rlt_bool x y.
Proof.
  intros x y p Hp. destruct (Rle_or_lt y x) as [H|H].
  - rewrite !Rlt_bool_false; auto using Rmult_le_compat_r, Rlt_le.
  - rewrite !Rlt_bool_true; auto using Rmult_lt_compat_r.
Qed.

Lemma C03_threshold_compare_scaled_l : forall k (d : f32) (t : f64),
  is_finite d = true -> is_finite t = true -> fits k d -> fits k t ->
  f64_le (f64_of_f32 d) t = (scaled k d <=? scaled k t).
Proof.
  intros k d t Hd Ht Kd Kt.
  rewrite C03_float_compare_exact_l, leb_IZR, !scaled_IZR by assumption.
  symmetry. apply Rle_bool_scale. apply bpow_gt_0.
Qed.

Lemma C03_distance_compare_scaled_l : forall k (x y : f32),
  is_finite x = true -> is_finite y = true -> fits k x -> fits k y ->
  f32_lt x y = (scaled k x <? scaled k y).
Proof.
  intros k x y Hx Hy Kx Ky.
  rewrite C03_float_argmin_exact_l, ltb_IZR, !scaled_IZR by assumption.
  symmetry. apply Rlt_bool_scale. apply bpow_gt_0.
Qed.

(** non-vacuity: 0.3f (bits 0x3e99999a) against the double 0.3, scale 2^54 *)
Example C03_float_example :
  let d := f32_of_bits 1050253722 in
  let t := f64_of_bits 4599075939470750515 in
  is_finite d = true /\ is_finite t = true /\ fits 54 d /\ fits 54 t /\
  f64_le (f64_of_f32 d) t = false /\ scaled 54 d = 10066330 * 2 ^ 29 /\
  scaled 54 t = 5404319552844595.
Proof. vm_compute. repeat split; discriminate. Qed.
