(** The decoder and [revcomp] of [Gen/KmersPyx.v]. *)
From Coq Require Import ZArith List Bool Lia ZifyBool.
From GV Require Import Base.CSem Base.PyConv Gen.KmersPyx Spec.Kmers Proofs.KmersEnc.
Import ListNotations.
Open Scope Z_scope.

Lemma mv_set_spec {A} (l : list A) i v :
  0 <= i < mv_len l ->
  exists l', mv_set l i v = Some l' /\ length l' = length l /\
    forall (m : nat) d, nth m l' d = if (Z.of_nat m =? i) then v else nth m l d.
Proof.
  intros Hi. unfold mv_set, mv_len in *.
  destruct (0 <=? i) eqn:E; [|lia].
  destruct (set_nth_Some l (Z.to_nat i) v) as [l' Hl']; [lia|].
  exists l'. split; [exact Hl'|]. split; [eapply set_nth_length; eauto|].
  intros m d. rewrite (set_nth_nth l _ v l' d Hl').
  destruct (Nat.eqb_spec m (Z.to_nat i)); destruct (Z.eqb_spec (Z.of_nat m) i); try lia; reflexivity.
Qed.

Lemma dec_body_step i k ni nuc out index :
  0 <= k - i - 1 < mv_len out -> 0 <= index < 18446744073709551616 ->
  exists out',
    c_index_to_kmer_loop1_body i (k, ni, nuc, out, index) =
      Go (k, index mod 4, letter (index mod 4), out', index / 4) /\
    length out' = length out /\
    forall (m : nat) d, nth m out' d = if (Z.of_nat m =? k - i - 1) then letter (index mod 4) else nth m out d.
Proof.
  intros Hi Hidx.
  destruct (mv_set_spec out (k - i - 1) (letter (index mod 4)) Hi) as [out' [Hset [Hlen Hnth]]].
  exists out'. split; [|split; assumption].
  unfold c_index_to_kmer_loop1_body.
  assert (Hs : u64 (Z.shiftr index 2) = index / 4).
  { rewrite Z.shiftr_div_pow2 by lia. change (2 ^ 2) with 4. apply u64_small.
    split; [apply Z.div_pos; lia|]. apply Z.div_lt_upper_bound; lia. }
  unfold letter in *.
  assert (Hm : 0 <= index mod 4 < 4) by (apply Z.mod_pos_bound; lia).
  destruct (index mod 4 =? 0) eqn:E0; cbn [bind]; [rewrite Hset, Hs; reflexivity|].
  destruct (index mod 4 =? 1) eqn:E1; cbn [bind]; [rewrite Hset, Hs; reflexivity|].
  destruct (index mod 4 =? 2) eqn:E2; cbn [bind]; [rewrite Hset, Hs; reflexivity|].
  rewrite Hset, Hs; reflexivity.
Qed.

Lemma div_div_pow4 x m : 0 <= m -> (x / 4) / 4 ^ m = x / 4 ^ (m + 1).
Proof.
  intros Hm. rewrite Z.div_div. 3: apply Z.pow_pos_nonneg; lia. 2: lia.
  f_equal. rewrite Z.pow_add_r by lia. change (4 ^ 1) with 4. ring.
Qed.

Lemma dec_loop n : forall i0 out index ni nuc k,
  k = mv_len out -> 0 <= i0 -> i0 + Z.of_nat n <= k -> 0 <= index < 18446744073709551616 ->
  exists out' ni' nuc',
    for_range_from n i0 c_index_to_kmer_loop1_body (k, ni, nuc, out, index) =
      Go (k, ni', nuc', out', index / 4 ^ Z.of_nat n) /\
    length out' = length out /\
    forall (m : nat) d, nth m out' d =
      if (k - i0 - Z.of_nat n <=? Z.of_nat m) && (Z.of_nat m <? k - i0)
      then letter ((index / 4 ^ (k - i0 - 1 - Z.of_nat m)) mod 4) else nth m out d.
Proof.
  induction n as [|n IH]; intros i0 out index ni nuc k Hk Hi0 Hn Hidx.
  - exists out, ni, nuc. split; [simpl; now rewrite Z.div_1_r|]. split; [reflexivity|].
    intros m d. destruct (_ && _) eqn:E; [lia|reflexivity].
  - cbn [for_range_from].
    destruct (dec_body_step i0 k ni nuc out index) as [out1 [Hstep [Hlen1 Hnth1]]]; [lia|lia|].
    rewrite Hstep.
    assert (Hidx' : 0 <= index / 4 < 18446744073709551616).
    { split; [apply Z.div_pos; lia|]. apply Z.div_lt_upper_bound; lia. }
    destruct (IH (i0 + 1) out1 (index / 4) (index mod 4) (letter (index mod 4)) k) as
      [out' [ni' [nuc' [Hloop [Hlen' Hnth']]]]]; [unfold mv_len in *; lia | lia | lia | exact Hidx' |].
    exists out', ni', nuc'. split; [|split; [congruence|]].
    + rewrite Hloop. f_equal. f_equal. rewrite Nat2Z.inj_succ.
      rewrite div_div_pow4 by lia. try reflexivity; repeat f_equal; lia.
    + intros m d. rewrite Hnth', Hnth1.
      destruct ((k - (i0 + 1) - Z.of_nat n <=? Z.of_nat m) && (Z.of_nat m <? k - (i0 + 1))) eqn:E1.
      * assert ((k - i0 - Z.of_nat (S n) <=? Z.of_nat m) && (Z.of_nat m <? k - i0) = true) as -> by lia.
        rewrite div_div_pow4 by lia. f_equal. f_equal. f_equal. f_equal. lia.
      * destruct (Z.eqb_spec (Z.of_nat m) (k - i0 - 1)) as [Hm|Hm].
        -- assert ((k - i0 - Z.of_nat (S n) <=? Z.of_nat m) && (Z.of_nat m <? k - i0) = true) as -> by lia.
           replace (k - i0 - 1 - Z.of_nat m) with 0 by lia. now rewrite Z.div_1_r.
        -- assert ((k - i0 - Z.of_nat (S n) <=? Z.of_nat m) && (Z.of_nat m <? k - i0) = false) as -> by lia.
           reflexivity.
Qed.

Lemma nth_ext_Z (l l' : list Z) : length l = length l' ->
  (forall m, (m < length l)%nat -> nth m l 0 = nth m l' 0) -> l = l'.
Proof. intros H1 H2. apply (nth_ext l l' 0 0 H1 H2). Qed.

Theorem c_index_to_kmer_spec idx out :
  0 <= idx < 18446744073709551616 ->
  c_index_to_kmer idx out = Ok (spec_decode (length out) idx).
Proof.
  intros Hidx. unfold c_index_to_kmer, for_range.
  destruct (dec_loop (length out) 0 out idx 0 0 (mv_len out)) as [out' [ni' [nuc' [Hloop [Hlen Hnth]]]]];
    [reflexivity | lia | unfold mv_len; lia | exact Hidx |].
  unfold mv_len at 1. rewrite Nat2Z.id. rewrite Hloop. cbn [bind finish]. f_equal.
  apply nth_ext_Z.
  - unfold spec_decode. rewrite map_length, seq_length. exact Hlen.
  - intros m Hm. rewrite Hnth. unfold mv_len.
    assert ((Z.of_nat (length out) - 0 - Z.of_nat (length out) <=? Z.of_nat m) &&
            (Z.of_nat m <? Z.of_nat (length out) - 0) = true) as -> by lia.
    unfold spec_decode.
    rewrite (nth_indep _ 0 (letter (digit_at (length out) idx 0))) by
      (rewrite map_length, seq_length; lia).
    rewrite (map_nth (fun i => letter (digit_at (length out) idx i)) (seq 0 (length out)) 0%nat m).
    rewrite seq_nth by lia. unfold digit_at. simpl (0 + m)%nat.
    f_equal. f_equal. f_equal. f_equal. lia.
Qed.

Theorem index_to_kmer_spec idx k :
  0 <= k -> 0 <= idx < 18446744073709551616 ->
  index_to_kmer idx k = Ok (spec_decode (Z.to_nat k) idx).
Proof.
  intros Hk Hidx. unfold index_to_kmer, py_bytearray, py_to_u64.
  assert (k <? 0 = false) as -> by lia.
  assert ((0 <=? idx) && (idx <? 18446744073709551616) = true) as -> by lia.
  cbn [rbind finish]. rewrite c_index_to_kmer_spec by assumption.
  cbn [rbind finish]. unfold zeros. now rewrite repeat_length.
Qed.

Theorem index_to_kmer_errors idx k :
  (k < 0 -> index_to_kmer idx k = Error ValueError) /\
  (0 <= k -> ~ (0 <= idx < 18446744073709551616) -> index_to_kmer idx k = Error OverflowError).
Proof.
  unfold index_to_kmer, py_bytearray, py_to_u64. split.
  - intros H. assert (k <? 0 = true) as -> by lia. reflexivity.
  - intros H1 H2. assert (k <? 0 = false) as -> by lia.
    assert ((0 <=? idx) && (idx <? 18446744073709551616) = false) as -> by lia. reflexivity.
Qed.

(** * revcomp *)

Definition comp_chain (b : Z) : Z :=
  if b =? 65 then 84 else if b =? 97 then 116 else if b =? 84 then 65 else if b =? 116 then 97
  else if b =? 71 then 67 else if b =? 103 then 99 else if b =? 67 then 71 else if b =? 99 then 103
  else b.

Lemma comp_chain_comp b : comp_chain b = comp b.
Proof.
  unfold comp_chain, comp.
  repeat match goal with |- context [?x =? ?y] => destruct (Z.eqb_spec x y); try lia end; reflexivity.
Qed.

Lemma revcomp_body_step seq i b n nuc nuc2 out :
  mv_get seq i = Some b -> 0 <= n - i - 1 < mv_len out ->
  exists out',
    c_revcomp_loop1_body seq i (n, nuc, nuc2, out) = Go (n, b, comp b, out') /\
    length out' = length out /\
    forall (m : nat) d, nth m out' d = if (Z.of_nat m =? n - i - 1) then comp b else nth m out d.
Proof.
  intros Hget Hi.
  destruct (mv_set_spec out (n - i - 1) (comp b) Hi) as [out' [Hset [Hlen Hnth]]].
  exists out'. split; [|split; assumption].
  unfold c_revcomp_loop1_body. rewrite Hget.
  rewrite <- comp_chain_comp in *. unfold comp_chain in *.
  repeat match goal with
         | |- context [b =? ?y] => destruct (b =? y); cbn [bind]; [rewrite Hset; reflexivity|]
         end.
  rewrite Hset. reflexivity.
Qed.

Lemma revcomp_loop suf : forall pre out nuc nuc2 n,
  n = mv_len (pre ++ suf) -> mv_len out = n ->
  exists out' nuc' nuc2',
    for_range_from (length suf) (mv_len pre) (c_revcomp_loop1_body (pre ++ suf)) (n, nuc, nuc2, out) =
      Go (n, nuc', nuc2', out') /\
    length out' = length out /\
    forall (m : nat) d, nth m out' d =
      if (Z.of_nat m <? n - mv_len pre)
      then comp (nth (Z.to_nat (n - 1 - Z.of_nat m) - length pre) suf d) else nth m out d.
Proof.
  induction suf as [|b t IH]; intros pre out nuc nuc2 n Hn Hout.
  - exists out, nuc, nuc2. split; [reflexivity|]. split; [reflexivity|].
    intros m d. rewrite app_nil_r in Hn. subst n.
    destruct (Z.of_nat m <? mv_len pre - mv_len pre) eqn:E; [lia|reflexivity].
  - cbn [for_range_from length].
    assert (Hlenn : n = mv_len pre + 1 + mv_len t).
    { subst n. unfold mv_len. rewrite app_length. simpl. lia. }
    destruct (revcomp_body_step (pre ++ b :: t) (mv_len pre) b n nuc nuc2 out) as [out1 [Hstep [Hlen1 Hnth1]]].
    { apply mv_get_app_r. }
    { unfold mv_len in *. lia. }
    rewrite Hstep.
    destruct (IH (pre ++ [b]) out1 b (comp b) n) as [out' [nuc' [nuc2' [Hloop [Hlen' Hnth']]]]].
    { rewrite <- app_assoc. exact Hn. }
    { unfold mv_len in *. lia. }
    exists out', nuc', nuc2'.
    replace (mv_len pre + 1) with (mv_len (pre ++ [b])) by (unfold mv_len; rewrite app_length; simpl; lia).
    rewrite <- app_assoc in Hloop. simpl app in Hloop.
    split; [exact Hloop|]. split; [congruence|].
    intros m d. rewrite Hnth', Hnth1.
    assert (Hpl : mv_len (pre ++ [b]) = mv_len pre + 1) by (unfold mv_len; rewrite app_length; simpl; lia).
    rewrite Hpl. rewrite app_length. simpl length.
    destruct (Z.of_nat m <? n - (mv_len pre + 1)) eqn:E1.
    + assert (Z.of_nat m <? n - mv_len pre = true) as -> by lia.
      f_equal.
      replace (Z.to_nat (n - 1 - Z.of_nat m) - length pre)%nat
        with (S (Z.to_nat (n - 1 - Z.of_nat m) - (length pre + 1)))%nat by (unfold mv_len in *; lia).
      reflexivity.
    + destruct (Z.eqb_spec (Z.of_nat m) (n - mv_len pre - 1)) as [Hm|Hm].
      * assert (Z.of_nat m <? n - mv_len pre = true) as -> by lia.
        replace (Z.to_nat (n - 1 - Z.of_nat m) - length pre)%nat with 0%nat by (unfold mv_len in *; lia).
        reflexivity.
      * assert (Z.of_nat m <? n - mv_len pre = false) as -> by lia. reflexivity.
Qed.

Theorem c_revcomp_spec s out :
  length out = length s -> c_revcomp s out = Ok (spec_revcomp s).
Proof.
  intros Hlen. unfold c_revcomp, for_range.
  destruct (revcomp_loop s [] out 0 0 (mv_len s)) as [out' [nuc' [nuc2' [Hloop [Hlen' Hnth]]]]];
    [reflexivity | unfold mv_len; lia |].
  unfold mv_len at 1. rewrite Nat2Z.id. simpl app in Hloop. change (mv_len []) with 0 in *.
  rewrite Hloop. cbn [bind finish]. f_equal.
  apply nth_ext_Z.
  - unfold spec_revcomp. rewrite rev_length, map_length. congruence.
  - intros m Hm. rewrite Hnth. unfold mv_len.
    assert (Z.of_nat m <? Z.of_nat (length s) - 0 = true) as -> by lia.
    unfold spec_revcomp. rewrite rev_nth by (rewrite map_length; lia).
    rewrite map_length.
    rewrite (nth_indep (map comp s) 0 (comp 0)) by (rewrite map_length; lia).
    rewrite map_nth. f_equal. f_equal. simpl length. lia.
Qed.

Theorem revcomp_spec s : revcomp s = Ok (spec_revcomp s).
Proof.
  unfold revcomp, py_bytearray.
  assert (mv_len s <? 0 = false) as -> by (unfold mv_len; lia).
  cbn [rbind]. rewrite c_revcomp_spec; [reflexivity|].
  unfold zeros, mv_len. now rewrite repeat_length, Nat2Z.id.
Qed.
