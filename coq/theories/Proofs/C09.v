(** C09 -- lemmas behind Props/C09.v. *)
From Coq Require Import ZArith List Bool Arith Lia ZifyBool
  Sorting.Sorted Sorting.Permutation RelationClasses.
From GV Require Import Base.CSem Model.C09 Spec.C09 Proofs.C09Sort.
Import ListNotations.
Open Scope Z_scope.

(** ** generic list facts *)

Lemma StronglySorted_app : forall {A} (R : A -> A -> Prop) l1 l2,
  StronglySorted R l1 -> StronglySorted R l2 ->
  (forall x y, In x l1 -> In y l2 -> R x y) -> StronglySorted R (l1 ++ l2).
Proof.
  intros A R l1; induction l1 as [|a t IH]; intros l2 S1 S2 H; cbn; [exact S2|].
  inversion S1 as [|? ? St F]; subst. constructor.
  - apply IH; auto. intros x y Hx Hy; apply H; [right|]; assumption.
  - apply Forall_app; split; [exact F|]. rewrite Forall_forall. intros y Hy. apply H; [left; reflexivity|exact Hy].
Qed.

Lemma StronglySorted_app_inv : forall {A} (R : A -> A -> Prop) l1 l2,
  StronglySorted R (l1 ++ l2) ->
  StronglySorted R l1 /\ StronglySorted R l2 /\ (forall x y, In x l1 -> In y l2 -> R x y).
Proof.
  intros A R l1; induction l1 as [|a t IH]; intros l2 S; cbn in S.
  - repeat split; [constructor|exact S|intros x y []].
  - inversion S as [|? ? St F]; subst. destruct (IH _ St) as (S1 & S2 & H).
    apply Forall_app in F. destruct F as [F1 F2]. repeat split; [constructor; assumption|exact S2|].
    intros x y [Hx|Hx] Hy; [subst x; rewrite Forall_forall in F2; auto|auto].
Qed.

Lemma StronglySorted_filter' : forall {A} (R : A -> A -> Prop) f l,
  StronglySorted R l -> StronglySorted R (filter f l).
Proof.
  intros A R f l; induction l as [|a t IH]; intro S; cbn; [constructor|].
  inversion S as [|? ? St F]; subst. destruct (f a); [constructor|]; auto.
  rewrite Forall_forall in *. intros x Hx. apply filter_In in Hx. apply F, Hx.
Qed.

Lemma StronglySorted_nearer_NoDup : forall ds l, StronglySorted (nearer ds) l -> NoDup l.
Proof.
  intros ds l; induction l as [|a t IH]; intro S; [constructor|].
  inversion S as [|? ? St F]; subst. constructor; auto.
  intro Hin. rewrite Forall_forall in F. exact (nearer_irrefl _ _ (F _ Hin)).
Qed.

Lemma NoDup_app_intro : forall {A} (l1 l2 : list A),
  NoDup l1 -> NoDup l2 -> (forall x, In x l1 -> In x l2 -> False) -> NoDup (l1 ++ l2).
Proof.
  intros A l1; induction l1 as [|a t IH]; intros l2 N1 N2 H; cbn; [exact N2|].
  inversion N1 as [|? ? Na Nt]; subst. constructor.
  - rewrite in_app_iff. intros [Hi|Hi]; [exact (Na Hi)|exact (H a (or_introl eq_refl) Hi)].
  - apply IH; auto. intros x H1 H2. exact (H x (or_intror H1) H2).
Qed.

Lemma memb_spec : forall j l, memb j l = true <-> In j l.
Proof.
  unfold memb. intros j l. rewrite existsb_exists. split.
  - intros [x [Hx E]]. apply Nat.eqb_eq in E. subst; assumption.
  - intro H. exists j. split; [assumption|apply Nat.eqb_refl].
Qed.

(** ** length, existence, uniqueness *)

Lemma C09_length_l : forall n ds, length (closest_list n ds) = Nat.min n (length ds).
Proof. intros n ds. unfold closest_list. rewrite firstn_length, stable_argsort_length. reflexivity. Qed.

Lemma closest_list_is_closest : forall n ds, is_closest_list n ds (closest_list n ds).
Proof.
  intros n ds. split; [apply C09_length_l|]. exists (skipn n (stable_argsort ds)).
  unfold closest_list. rewrite firstn_skipn. split; [apply stable_argsort_perm|apply stable_argsort_sorted].
Qed.

Lemma closest_list_unique : forall n ds l, is_closest_list n ds l -> l = closest_list n ds.
Proof.
  intros n ds l [L [rest [P S]]]. unfold closest_list.
  rewrite <- (stable_argsort_unique ds _ P S).
  assert (Lf : length (l ++ rest) = length ds) by (rewrite (Permutation_length P); apply seq_length).
  rewrite app_length in Lf.
  destruct (Nat.le_gt_cases n (length ds)) as [Hn|Hn].
  - rewrite Nat.min_l in L by assumption. rewrite <- L. rewrite firstn_app, Nat.sub_diag, firstn_all. cbn.
    symmetry; apply app_nil_r.
  - rewrite Nat.min_r in L by lia. assert (rest = []) by (destruct rest; [reflexivity|cbn in Lf; lia]). subst rest.
    rewrite app_nil_r. symmetry; apply firstn_all2. lia.
Qed.

Lemma C09_sorted_prefix_l : forall n ds l, is_closest_list n ds l <-> l = closest_list n ds.
Proof. intros n ds l; split; [apply closest_list_unique|intros ->; apply closest_list_is_closest]. Qed.

Lemma C09_deterministic_l : forall n ds l1 l2, is_closest_list n ds l1 -> is_closest_list n ds l2 -> l1 = l2.
Proof. intros n ds l1 l2 H1 H2. rewrite (closest_list_unique _ _ _ H1), (closest_list_unique _ _ _ H2). reflexivity. Qed.

(** ** the formulation without the unlisted references' order *)

Lemma closest'_iff : forall n ds l, is_closest_list' n ds l <-> is_closest_list n ds l.
Proof.
  intros n ds l; split.
  - intros (L & B & S & C). split; [exact L|].
    set (rest := filter (fun j => negb (memb j l)) (stable_argsort ds)).
    assert (Hrest : forall j, In j rest <-> (j < length ds)%nat /\ ~ In j l).
    { intro j. unfold rest. rewrite filter_In, negb_true_iff, <- not_true_iff_false, memb_spec.
      split; intros [H1 H2]; split; auto.
      - apply (Permutation_in _ (stable_argsort_perm ds)) in H1. apply in_seq in H1. lia.
      - apply (Permutation_in _ (Permutation_sym (stable_argsort_perm ds))). apply in_seq. lia. }
    exists rest. split.
    + apply NoDup_Permutation.
      * apply NoDup_app_intro.
        { eapply StronglySorted_nearer_NoDup; exact S. }
        { apply NoDup_filter; eapply StronglySorted_nearer_NoDup; apply stable_argsort_sorted. }
        intros x H1 H2. apply Hrest in H2. tauto.
      * apply seq_NoDup.
      * intro j. rewrite in_app_iff, in_seq, Hrest. rewrite Forall_forall in B. split.
        -- intros [H|[H _]]; [apply B in H|]; lia.
        -- intros [_ H]. destruct (in_dec Nat.eq_dec j l); [left; assumption|right; split; [lia|assumption]].
    + apply StronglySorted_app; [exact S|apply StronglySorted_filter', stable_argsort_sorted|].
      intros x y Hx Hy. apply Hrest in Hy. destruct Hy. apply C; assumption.
  - intros (L & rest & P & S). apply StronglySorted_app_inv in S. destruct S as (S1 & S2 & H).
    split; [exact L|]. split; [|split; [exact S1|]].
    + rewrite Forall_forall. intros i Hi.
      assert (Hin : In i (seq 0 (length ds))) by (apply (Permutation_in _ P), in_app_iff; left; exact Hi).
      apply in_seq in Hin. lia.
    + intros i j Hi Hj Hn. apply H; [exact Hi|].
      assert (Hin : In j (l ++ rest)) by (apply (Permutation_in _ (Permutation_sym P)), in_seq; lia).
      apply in_app_iff in Hin. tauto.
Qed.

(** ** the executable checker decides the specification *)

Lemma chainb_spec : forall ds l, chainb ds l = true <-> StronglySorted (nearer ds) l.
Proof.
  intros ds l. split.
  - intro H. apply Sorted_StronglySorted; [intros x y z; apply nearer_trans|].
    induction l as [|i t IH]; [constructor|]. cbn in H. destruct t as [|j t'].
    + repeat constructor.
    + apply andb_true_iff in H. destruct H as [H1 H2]. constructor; [apply IH; exact H2|].
      constructor. apply nearerb_spec; exact H1.
  - intro S. apply StronglySorted_Sorted in S. induction l as [|i t IH]; [reflexivity|].
    inversion S as [|? ? St Hd]; subst. cbn. destruct t as [|j t']; [reflexivity|].
    inversion Hd; subst. apply andb_true_iff. split; [apply nearerb_spec; assumption|apply IH; exact St].
Qed.

Lemma closest_listb_spec' : forall n ds l, closest_listb n ds l = true <-> is_closest_list' n ds l.
Proof.
  intros n ds l. unfold closest_listb, is_closest_list'.
  rewrite !andb_true_iff, Nat.eqb_eq, chainb_spec, !forallb_forall, Forall_forall.
  split.
  - intros [[[L B] S] C]. repeat split; auto.
    + intros i Hi. apply Nat.ltb_lt, B, Hi.
    + intros i j Hi Hj Hn. assert (Hs : In j (seq 0 (length ds))) by (apply in_seq; lia).
      specialize (C _ Hs). apply orb_true_iff in C. destruct C as [C|C]; [apply memb_spec in C; contradiction|].
      rewrite forallb_forall in C. apply nearerb_spec, C, Hi.
  - intros (L & B & S & C). repeat split; auto.
    + intros i Hi. apply Nat.ltb_lt, B, Hi.
    + intros j Hj. apply in_seq in Hj. apply orb_true_iff.
      destruct (in_dec Nat.eq_dec j l) as [Hin|Hn]; [left; apply memb_spec; exact Hin|right].
      apply forallb_forall. intros i Hi. apply nearerb_spec, C; auto. lia.
Qed.

Lemma C09_checker_l : forall n ds l, closest_listb n ds l = true <-> l = closest_list n ds.
Proof. intros n ds l. rewrite closest_listb_spec', closest'_iff. apply C09_sorted_prefix_l. Qed.

(** ** np.argmin *)

Lemma key_app1 : forall pre l j, (j < length pre)%nat -> key (pre ++ l) j = key pre j.
Proof. intros; unfold key; apply app_nth1; assumption. Qed.

Lemma argmin_from_spec : forall l pre bi b,
  (bi < length pre)%nat -> key pre bi = b ->
  (forall j, (j < length pre)%nat -> b <= key pre j) ->
  (forall j, (j < bi)%nat -> b < key pre j) ->
  is_first_argmin (pre ++ l) (argmin_from bi b (length pre) l).
Proof.
  induction l as [|x t IH]; intros pre bi b Hbi Hb Hmin Hfirst.
  - cbn. rewrite app_nil_r. unfold is_first_argmin. rewrite Hb. auto.
  - cbn [argmin_from].
    assert (Epre : (pre ++ x :: t) = ((pre ++ [x]) ++ t)) by (rewrite <- app_assoc; reflexivity).
    assert (Lpre : length (pre ++ [x]) = S (length pre)) by (rewrite app_length; cbn; lia).
    assert (Kx : key (pre ++ [x]) (length pre) = x).
    { unfold key. rewrite app_nth2 by lia. rewrite Nat.sub_diag. reflexivity. }
    rewrite Epre, <- Lpre. destruct (x <? b) eqn:E.
    + apply IH.
      * lia.
      * exact Kx.
      * intros j Hj. rewrite Lpre in Hj. destruct (Nat.eq_dec j (length pre)) as [->|Hne]; [rewrite Kx; lia|].
        rewrite key_app1 by lia. specialize (Hmin j). lia.
      * intros j Hj. rewrite key_app1 by lia. specialize (Hmin j). lia.
    + apply IH.
      * lia.
      * rewrite key_app1 by lia. exact Hb.
      * intros j Hj. rewrite Lpre in Hj. destruct (Nat.eq_dec j (length pre)) as [->|Hne]; [rewrite Kx; lia|].
        rewrite key_app1 by lia. apply Hmin. lia.
      * intros j Hj. rewrite key_app1 by lia. apply Hfirst. exact Hj.
Qed.

Lemma argmin_first_spec : forall ds i, argmin_first ds = Ok i -> is_first_argmin ds i.
Proof.
  intros [|x t] i H; cbn in H; [discriminate|]. inversion H; subst.
  apply (argmin_from_spec t [x] 0%nat x); cbn [length]; try lia.
  - reflexivity.
  - intros j Hj. assert (j = 0)%nat by lia. subst. unfold key; cbn. lia.
Qed.

Lemma argmin_first_total : forall ds, ds <> [] -> exists i, argmin_first ds = Ok i.
Proof. intros [|x t] H; [congruence|]. eexists; reflexivity. Qed.

Lemma first_argmin_unique : forall ds i j, is_first_argmin ds i -> is_first_argmin ds j -> i = j.
Proof.
  intros ds i j (Li & Mi & Fi) (Lj & Mj & Fj).
  destruct (lt_eq_lt_dec i j) as [[H|H]|H]; [|assumption|].
  - specialize (Fj _ H). specialize (Mi _ Lj). lia.
  - specialize (Fi _ H). specialize (Mj _ Li). lia.
Qed.

Lemma argsort_head_first_argmin : forall ds h t,
  stable_argsort ds = h :: t -> is_first_argmin ds h.
Proof.
  intros ds h t E. pose proof (stable_argsort_perm ds) as P. pose proof (stable_argsort_sorted ds) as S.
  rewrite E in P, S. inversion S as [|? ? St F]; subst. rewrite Forall_forall in F.
  assert (Hall : forall j, (j < length ds)%nat -> j = h \/ nearer ds h j).
  { intros j Hj. assert (Hin : In j (h :: t)) by (apply (Permutation_in _ (Permutation_sym P)), in_seq; lia).
    destruct Hin as [->|Hin]; [left; reflexivity|right; apply F, Hin]. }
  split; [|split].
  - assert (Hin : In h (seq 0 (length ds))) by (apply (Permutation_in _ P); left; reflexivity).
    apply in_seq in Hin. lia.
  - intros j Hj. destruct (Hall j Hj) as [->|N]; [lia|]. unfold nearer in N. lia.
  - intros j Hj. assert (Lh : (h < length ds)%nat).
    { assert (Hin : In h (seq 0 (length ds))) by (apply (Permutation_in _ P); left; reflexivity).
      apply in_seq in Hin. lia. }
    destruct (Hall j ltac:(lia)) as [->|N]; [lia|]. unfold nearer in N. lia.
Qed.

Lemma C09_head_is_argmin_l : forall n ds, (1 <= n)%nat ->
  match argmin_first ds with
  | Ok i => hd_error (closest_list n ds) = Some i /\ is_first_argmin ds i
  | Error e => ds = [] /\ e = ValueError /\ closest_list n ds = []
  end.
Proof.
  intros n ds Hn. destruct (argmin_first ds) as [i|e] eqn:E.
  - pose proof (argmin_first_spec _ _ E) as Hi. split; [|exact Hi].
    unfold closest_list. destruct (stable_argsort ds) as [|h t] eqn:Es.
    + pose proof (stable_argsort_length ds) as L. rewrite Es in L. destruct Hi as [Hi _]. cbn in L. lia.
    + destruct n as [|n']; [lia|]. cbn. f_equal.
      eapply first_argmin_unique; [eapply argsort_head_first_argmin; exact Es|exact Hi].
  - destruct ds as [|x t]; [|discriminate]. cbn in E. inversion E. repeat split.
    unfold closest_list. destruct n; reflexivity.
Qed.

(** ** entries *)

Lemma mapM_Forall2 : forall {A B} (f : A -> res B) l r,
  mapM f l = Ok r -> Forall2 (fun a b => f a = Ok b) l r.
Proof.
  intros A B f l; induction l as [|a t IH]; intros r H; cbn in H.
  - inversion H; constructor.
  - destruct (f a) as [b|e] eqn:Ea; [|discriminate]. destruct (mapM f t) as [bs|e] eqn:Et; [|discriminate].
    inversion H; subst. constructor; auto.
Qed.

Lemma genome_match_Ok : forall db ds i e, genome_match db ds i = Ok e ->
  exists t m, e = (i, key ds i, m) /\ (i < length ds)%nat /\ nth_error (db_gtaxon db) i = Some t /\
              matching_taxon (S (length (db_taxa db))) (db_taxa db) t (key ds i) = Ok m.
Proof.
  unfold genome_match. intros db ds i e H.
  destruct (nth_error ds i) as [d|] eqn:Ed; [|discriminate].
  destruct (nth_error (db_gtaxon db) i) as [t|] eqn:Et; [|discriminate].
  destruct (matching_taxon _ _ t d) as [m|] eqn:Em; [|discriminate].
  inversion H; subst. exists t, m.
  assert (K : key ds i = d) by (unfold key; apply nth_error_nth; exact Ed).
  rewrite K. repeat split; auto. apply nth_error_Some. congruence.
Qed.

Definition e_index (e : nat * Z * option nat) : nat := fst (fst e).

Lemma C09_entries_l : forall db n ds es, closest_genomes db n ds = Ok es ->
  map e_index es = closest_list n ds /\
  Forall (fun e => exists i t m, e = (i, key ds i, m) /\ (i < length ds)%nat /\
                     nth_error (db_gtaxon db) i = Some t /\
                     matching_taxon (S (length (db_taxa db))) (db_taxa db) t (key ds i) = Ok m) es.
Proof.
  unfold closest_genomes. intros db n ds es H. apply mapM_Forall2 in H.
  induction H as [|i e l r Hi Hl IH]; [split; constructor|].
  destruct IH as [IH1 IH2]. apply genome_match_Ok in Hi. destruct Hi as (t & m & -> & Hi).
  split; [cbn; f_equal; exact IH1|]. constructor; [|exact IH2]. exists i, t, m. tauto.
Qed.

(** the first entry of the list is the classifier's closest match -- same genome, same distance,
    same matched taxon -- so CSV (closest_match) and JSON (closest_genomes[0]) agree *)
Lemma C09_csv_json_l : forall db n ds c es, (1 <= n)%nat ->
  result_item db n ds = Ok (c, es) -> hd_error es = Some c.
Proof.
  unfold result_item, closest_match. intros db n ds c es Hn H.
  pose proof (C09_head_is_argmin_l n ds Hn) as Hh.
  destruct (argmin_first ds) as [i|e]; [|discriminate]. destruct Hh as [Hh _].
  destruct (genome_match db ds i) as [c'|] eqn:Ec; [|discriminate].
  destruct (closest_genomes db n ds) as [es'|] eqn:Ees; [|discriminate].
  inversion H; subst. unfold closest_genomes in Ees.
  destruct (closest_list n ds) as [|h t]; [discriminate|]. cbn in Hh. inversion Hh; subst.
  cbn in Ees. rewrite Ec in Ees. destruct (mapM (genome_match db ds) t); [|discriminate].
  inversion Ees; reflexivity.
Qed.

(** ** matching_taxon against the lineage *)

Lemma Lineage_det : forall taxa t l1 l2, Lineage taxa t l1 -> Lineage taxa t l2 -> l1 = l2.
Proof.
  intros taxa t l1 l2 H1; revert l2. induction H1 as [t thr E|t p thr l E H IH]; intros l2 H2.
  - inversion H2; subst; [reflexivity|congruence].
  - inversion H2 as [? ? E2|? p2 ? l' E2 H']; subst; [congruence|].
    rewrite E in E2. inversion E2; subst. f_equal. apply IH; assumption.
Qed.

Lemma admits_admitsb : forall taxa t par thr d, nth_error taxa t = Some (par, thr) ->
  admits thr d = admitsb taxa d t.
Proof. intros taxa t par thr d E. unfold admitsb, thr_of. rewrite E. reflexivity. Qed.

Lemma matching_taxon_lineage : forall taxa d fuel t m l,
  matching_taxon fuel taxa t d = Ok m -> Lineage taxa t l -> m = find (admitsb taxa d) l.
Proof.
  intros taxa d fuel; induction fuel as [|f IH]; intros t m l H HL; cbn in H; [discriminate|].
  destruct (nth_error taxa t) as [[par thr]|] eqn:E; [|discriminate].
  rewrite (admits_admitsb _ _ _ _ d E) in H.
  inversion HL as [? thr' E'|? p thr' l' E' HL']; subst; cbn [find].
  - rewrite E in E'. inversion E'; subst. destruct (admitsb taxa d t); inversion H; reflexivity.
  - rewrite E in E'. inversion E'; subst. destruct (admitsb taxa d t); [inversion H; reflexivity|].
    eapply IH; eassumption.
Qed.

Lemma nth_error_combine_seq : forall {A} (l : list A) s t a, nth_error l t = Some a ->
  nth_error (combine (seq s (length l)) l) t = Some ((s + t)%nat, a).
Proof.
  intros A l; induction l as [|x r IH]; intros s t a E; destruct t as [|t']; cbn in *; try discriminate.
  - inversion E; subst. rewrite Nat.add_0_r. reflexivity.
  - rewrite (IH (S s) t' a E). f_equal. f_equal. lia.
Qed.

Lemma wf_taxa_parent : forall taxa t p thr, wf_taxa taxa = true ->
  nth_error taxa t = Some (Some p, thr) -> (p < t)%nat.
Proof.
  unfold wf_taxa. intros taxa t p thr W E. rewrite forallb_forall in W.
  assert (Hin : In (t, (Some p, thr)) (combine (seq 0 (length taxa)) taxa)).
  { apply nth_error_In with (n := t). rewrite (nth_error_combine_seq _ 0%nat t _ E). reflexivity. }
  specialize (W _ Hin). cbn in W. apply Nat.ltb_lt in W. exact W.
Qed.

Lemma matching_taxon_total : forall taxa d, wf_taxa taxa = true ->
  forall fuel t, (t < fuel)%nat -> (t < length taxa)%nat ->
  exists m l, matching_taxon fuel taxa t d = Ok m /\ Lineage taxa t l.
Proof.
  intros taxa d W fuel; induction fuel as [|f IH]; intros t Hf Ht; [lia|]. cbn.
  destruct (nth_error taxa t) as [[par thr]|] eqn:E; [|apply nth_error_None in E; lia].
  destruct par as [p|].
  - pose proof (wf_taxa_parent _ _ _ _ W E) as Hp.
    destruct (IH p ltac:(lia) ltac:(lia)) as (m & l & Hm & Hl).
    destruct (admits thr d); [exists (Some t)|exists m]; exists (t :: l); (split; [auto|econstructor; eassumption]).
  - destruct (admits thr d); [exists (Some t)|exists None]; exists [t]; (split; [reflexivity|econstructor; eassumption]).
Qed.

(** every entry's taxon is the first taxon of its genome's lineage whose threshold admits the
    entry's own distance *)
Lemma C09_entry_taxon_l : forall db n ds es, closest_genomes db n ds = Ok es ->
  Forall (fun e => forall t l, nth_error (db_gtaxon db) (e_index e) = Some t -> Lineage (db_taxa db) t l ->
                     snd e = find (admitsb (db_taxa db) (snd (fst e))) l) es.
Proof.
  intros db n ds es H. apply C09_entries_l in H. destruct H as [_ H].
  eapply Forall_impl; [|exact H]. intros e (i & t & m & -> & _ & Et & Hm) t' l Et' HL.
  unfold e_index in Et'. cbn [fst snd] in *. rewrite Et in Et'. inversion Et'; subst.
  eapply matching_taxon_lineage; eassumption.
Qed.

(** a well-formed database and a non-empty row always produce a result (no error value) *)
Lemma genome_match_total : forall db ds i, wf_db db ds = true -> (i < length ds)%nat ->
  exists e, genome_match db ds i = Ok e.
Proof.
  unfold wf_db, genome_match. intros db ds i W Hi.
  rewrite !andb_true_iff, Nat.eqb_eq, forallb_forall in W. destruct W as [[W L] B].
  destruct (nth_error ds i) as [d|] eqn:Ed; [|apply nth_error_None in Ed; lia].
  destruct (nth_error (db_gtaxon db) i) as [t|] eqn:Et; [|apply nth_error_None in Et; lia].
  assert (Ht : (t < length (db_taxa db))%nat) by (apply Nat.ltb_lt, B; eapply nth_error_In; exact Et).
  destruct (matching_taxon_total _ d W (S (length (db_taxa db))) t ltac:(lia) Ht) as (m & l & Hm & _).
  rewrite Hm. eexists; reflexivity.
Qed.

Lemma mapM_total : forall {A B} (f : A -> res B) l, (forall a, In a l -> exists b, f a = Ok b) ->
  exists r, mapM f l = Ok r.
Proof.
  intros A B f l; induction l as [|a t IH]; intro H; cbn; [eexists; reflexivity|].
  destruct (H a (or_introl eq_refl)) as [b ->]. destruct IH as [r ->]; [intros; apply H; right; assumption|].
  eexists; reflexivity.
Qed.

Lemma C09_total_l : forall db n ds, wf_db db ds = true -> ds <> [] ->
  exists c es, result_item db n ds = Ok (c, es).
Proof.
  intros db n ds W Hne. unfold result_item, closest_match.
  destruct (argmin_first_total ds Hne) as [i Ei]. rewrite Ei.
  pose proof (argmin_first_spec _ _ Ei) as [Li _].
  destruct (genome_match_total db ds i W Li) as [c ->].
  unfold closest_genomes.
  destruct (mapM_total (genome_match db ds) (closest_list n ds)) as [es ->].
  - intros a Ha. apply genome_match_total; [exact W|].
    destruct (closest_list_is_closest n ds) as [_ [rest [P _]]].
    assert (Hin : In a (seq 0 (length ds))) by (apply (Permutation_in _ P), in_app_iff; left; exact Ha).
    apply in_seq in Hin. lia.
  - exists c, es; reflexivity.
Qed.

(** ** the algorithm before the fix: np.argsort without kind='stable' *)

(** witness = what NumPy 1.26 (AVX512 dispatch) returns on this machine for the distance row
    [0.5; 0.5; 0.25; 0.25]: argsort = [3; 2; 1; 0], argmin = 2 (corpus/C09/unstable-head.json) *)
Lemma C09_unstable_refuted_l : exists ds p i,
  is_argsort ds p /\ argmin_first ds = Ok i /\ hd_error (firstn 1 p) <> Some i.
Proof.
  exists [5; 5; 2; 2], [3%nat; 2%nat; 1%nat; 0%nat], 2%nat. split; [split|split].
  - change (Permutation (rev [0%nat; 1%nat; 2%nat; 3%nat]) [0%nat; 1%nat; 2%nat; 3%nat]).
    apply Permutation_sym, Permutation_rev.
  - repeat constructor; unfold key; cbn; lia.
  - reflexivity.
  - cbn. discriminate.
Qed.

Lemma C09_unstable_nondet_refuted_l : exists ds p1 p2,
  is_argsort ds p1 /\ is_argsort ds p2 /\ firstn 1 p1 <> firstn 1 p2.
Proof.
  exists [7; 7], [1%nat; 0%nat], [0%nat; 1%nat]. split; [split|split; [split|]].
  - apply perm_swap.
  - repeat constructor; unfold key; cbn; lia.
  - apply Permutation_refl.
  - repeat constructor; unfold key; cbn; lia.
  - cbn. discriminate.
Qed.

(** what the unfixed algorithm does guarantee: the same sequence of distances *)
Lemma StronglySorted_le_perm_unique : forall l1 l2 : list Z,
  StronglySorted Z.le l1 -> StronglySorted Z.le l2 -> Permutation l1 l2 -> l1 = l2.
Proof.
  induction l1 as [|x1 t1 IH]; intros l2 S1 S2 P.
  - apply Permutation_nil in P; subst; reflexivity.
  - destruct l2 as [|x2 t2]; [apply Permutation_sym, Permutation_nil in P; discriminate|].
    inversion S1 as [|? ? S1t F1]; subst. inversion S2 as [|? ? S2t F2]; subst.
    assert (E : x1 = x2).
    { assert (I1 : In x1 (x2 :: t2)) by (eapply Permutation_in; [exact P|left; reflexivity]).
      assert (I2 : In x2 (x1 :: t1)) by (eapply Permutation_in; [exact (Permutation_sym P)|left; reflexivity]).
      rewrite Forall_forall in F1, F2.
      destruct I1 as [I1|I1]; [congruence|]. destruct I2 as [I2|I2]; [congruence|].
      specialize (F1 _ I2). specialize (F2 _ I1). lia. }
    subst x2. f_equal. apply IH; auto. eapply Permutation_cons_inv; exact P.
Qed.

Lemma StronglySorted_map_key : forall ds (R : nat -> nat -> Prop) l,
  (forall i j, R i j -> key ds i <= key ds j) -> StronglySorted R l -> StronglySorted Z.le (map (key ds) l).
Proof.
  intros ds R l HR; induction l as [|a t IH]; intro S; cbn; [constructor|].
  inversion S as [|? ? St F]; subst. constructor; [auto|].
  rewrite Forall_forall in *. intros x Hx. apply in_map_iff in Hx. destruct Hx as [j [<- Hj]]. apply HR, F, Hj.
Qed.

Lemma C09_unstable_distances_l : forall n ds p, is_argsort ds p ->
  map (key ds) (firstn n p) = map (key ds) (closest_list n ds).
Proof.
  intros n ds p [P S]. unfold closest_list. rewrite <- !firstn_map. f_equal.
  apply StronglySorted_le_perm_unique.
  - eapply StronglySorted_map_key; [|exact S]. auto.
  - eapply StronglySorted_map_key; [|apply stable_argsort_sorted]. unfold nearer; intros; lia.
  - apply Permutation_map. eapply Permutation_trans; [exact P|apply Permutation_sym, stable_argsort_perm].
Qed.

(** ** non-vacuity *)

Example ex_row : list Z := [5; 3; 9; 3; 5; 3].
Example ex_closest : closest_list 4 ex_row = [1%nat; 3%nat; 5%nat; 0%nat].
Proof. reflexivity. Qed.
Example ex_argmin : argmin_first ex_row = Ok 1%nat.
Proof. reflexivity. Qed.
Example ex_checker : closest_listb 4 ex_row [1%nat; 3%nat; 5%nat; 0%nat] = true /\
                     closest_listb 4 ex_row [3%nat; 1%nat; 5%nat; 0%nat] = false /\
                     closest_listb 4 ex_row [1%nat; 3%nat; 5%nat; 4%nat] = false.
Proof. repeat split. Qed.
(** taxa: 0 root (no threshold), 1 genus thr 8 (child of 0), 2 species thr 4 (child of 1) *)
Example ex_db : refdb := {| db_taxa := [(None, None); (Some 0%nat, Some 8); (Some 1%nat, Some 4)];
                            db_gtaxon := [2%nat; 2%nat; 1%nat; 2%nat; 0%nat; 2%nat] |}.
Example ex_wf : wf_db ex_db ex_row = true.
Proof. reflexivity. Qed.
Example ex_item : result_item ex_db 3 ex_row =
  Ok ((1%nat, 3, Some 2%nat), [(1%nat, 3, Some 2%nat); (3%nat, 3, Some 2%nat); (5%nat, 3, Some 2%nat)]).
Proof. reflexivity. Qed.
Example ex_item2 : closest_genomes ex_db 6 ex_row =
  Ok [(1%nat, 3, Some 2%nat); (3%nat, 3, Some 2%nat); (5%nat, 3, Some 2%nat);
      (0%nat, 5, Some 1%nat); (4%nat, 5, None); (2%nat, 9, None)].
Proof. reflexivity. Qed.
Example ex_lineage : Lineage (db_taxa ex_db) 2 [2%nat; 1%nat; 0%nat].
Proof. repeat econstructor. Qed.

Lemma C09_nearest_l : forall n ds l, is_closest_list' n ds l <-> l = closest_list n ds.
Proof. intros n ds l. rewrite closest'_iff. apply C09_sorted_prefix_l. Qed.

Lemma C09_argmin_l : forall ds,
  (ds = [] -> argmin_first ds = Error ValueError) /\
  (ds <> [] -> exists i, argmin_first ds = Ok i) /\
  (forall i, argmin_first ds = Ok i -> is_first_argmin ds i) /\
  (forall i j, is_first_argmin ds i -> is_first_argmin ds j -> i = j).
Proof.
  intro ds. split; [intros ->; reflexivity|]. split; [apply argmin_first_total|].
  split; [apply argmin_first_spec|apply first_argmin_unique].
Qed.
