(** C20: __getitem__ of the three collection types refines plain-list indexing; invariants;
    mutation histories of the list-backed collection; content equality; the refuted statement
    for the index-array conversion as found. *)
From Coq Require Import ZArith List Bool Lia ZifyBool Sorted.
From GV Require Import Spec.C20 Model.C20 Proofs.C20Lists Proofs.C20Slice Proofs.C20Arr.
Import ListNotations.
Open Scope Z_scope.

Definition wf_coll (c : coll) : bool := match c with CArr sa => wf_arr sa | CList _ => true end.
Definition content (c : coll) : list sig := match c with CArr sa => arr_content sa | CList sl => sl_list sl end.

(** a collection of the same backing, k-mer parameters and integer type holding [l] *)
Definition same_kind (c : coll) (l : list sig) : coll :=
  match c with
  | CArr sa => CArr (enc (sa_kspec sa) (sa_dtype sa) l)
  | CList sl => CList (mk_siglist l (sl_kspec sl) (sl_dtype sl))
  end.

Definition lift (c : coll) (r : sres) : gres :=
  match r with RSig s => GSig s | RColl l => GColl (same_kind c l) | RErr e => GErr e end.

(** stated bound on an index expression: a slice step fits Py_ssize_t *)
Definition idx_fits (idx : pidx) : bool :=
  match idx with PSlice _ _ s => step_fits (sarg_opt s) | _ => true end.

(** ** small facts *)

Lemma znth_nth_error (l : list sig) i : 0 <= i < zlen l -> nth_error l (Z.to_nat i) = Some (znth l i).
Proof. intros H. unfold znth. apply nth_error_nth'. unfold zlen in H. lia. Qed.

Lemma all_checked_spec n xs : 0 <= n ->
  all_checked n xs = if forallb (in_range n) xs then Some (map (pos n) xs) else None.
Proof.
  intros Hn. unfold all_checked. induction xs as [|x r IH]; [reflexivity|].
  cbn [forallb map]. rewrite (check_index_spec n x Hn). destruct (in_range n x); [|reflexivity].
  rewrite IH. cbn [andb]. destruct (forallb (in_range n) r); reflexivity.
Qed.

Lemma in_range_pos n i : in_range n i = true -> 0 <= pos n i < n.
Proof. unfold in_range, pos. destruct (i <? 0) eqn:E; lia. Qed.

Lemma nth_skipn_plus {A} (d : A) : forall (l : list A) (s j : nat), nth j (skipn s l) d = nth (s + j) l d.
Proof.
  induction l as [|x l IH]; intros s j.
  - rewrite skipn_nil. destruct j, s; reflexivity.
  - destruct s as [|s]; [reflexivity|]. cbn. apply IH.
Qed.

Lemma firstn_as_map {A} (d : A) : forall (l : list A) (m : nat), (m <= length l)%nat ->
  map (fun j => nth j l d) (seq 0 m) = firstn m l.
Proof.
  induction l as [|x l IH]; intros m Hm.
  - cbn in Hm. assert (m = 0%nat) by lia. subst. reflexivity.
  - destruct m as [|m]; [reflexivity|]. cbn [seq map firstn nth]. f_equal.
    rewrite <- seq_shift, map_map. cbn [nth]. apply IH. cbn in Hm. lia.
Qed.

(** the positions start, start+1, ..., stop-1 pick the sub-list l[start:stop] *)
Lemma interval_pick (l : list sig) start stop : 0 <= start -> start <= stop -> stop <= zlen l ->
  map (znth l) (map (fun j => start + j) (seqZ (stop - start))) =
  firstn (Z.to_nat (stop - start)) (skipn (Z.to_nat start) l).
Proof.
  intros H0 H1 H2. unfold seqZ. rewrite !map_map.
  rewrite <- (firstn_as_map [] (skipn (Z.to_nat start) l)).
  - apply map_ext. intros j. unfold znth. rewrite nth_skipn_plus. f_equal. lia.
  - rewrite skipn_length. unfold zlen in H2. lia.
Qed.

Lemma mask_pick (l : list sig) : forall (m : list bool) (pre : list sig), length m = length l ->
  map (znth (pre ++ l)) (flatnonzero_from (zlen pre) m) = map fst (filter snd (combine l m)) /\
  Forall (fun i => 0 <= i < zlen (pre ++ l)) (flatnonzero_from (zlen pre) m).
Proof.
  induction l as [|x l IH]; intros m pre Hm.
  - destruct m; [|discriminate]. cbn. split; constructor.
  - destruct m as [|b m]; [discriminate|]. cbn in Hm.
    specialize (IH m (pre ++ [x]) ltac:(lia)). rewrite zlen_app, <- app_assoc in IH.
    change (zlen [x]) with 1 in IH. cbn [app] in IH. destruct IH as [IH1 IH2].
    cbn [flatnonzero_from combine filter snd]. destruct b; cbn [map fst]; [|split; assumption].
    split.
    + f_equal; [|assumption]. unfold znth.
      replace (Z.to_nat (zlen pre)) with (length pre) by (unfold zlen; lia).
      rewrite app_nth2, Nat.sub_diag by lia. reflexivity.
    + constructor; [|assumption]. rewrite zlen_app, zlen_cons.
      pose proof (zlen_nonneg pre). pose proof (zlen_nonneg l). lia.
Qed.

(** ** gathering on either backing *)

Lemma sl_int_array l k d idxs : Forall (fun i => 0 <= i < zlen l) idxs ->
  sl_getitem_int_array (mk_siglist l k d) idxs = Ok (mk_siglist (map (znth l) idxs) k d).
Proof.
  intros H. rewrite Forall_forall in H. unfold sl_getitem_int_array.
  rewrite (mapM_ok _ (znth l)); [reflexivity|].
  intros i Hi. unfold sl_getitem_int. cbn [sl_list].
  rewrite pyget_in, znth_nth_error by auto. reflexivity.
Qed.

(** executing a gather of checked positions yields the picked signatures, same backing *)
Lemma exec_arr c idxs : wf_coll c = true -> Forall (fun i => 0 <= i < zlen (content c)) idxs ->
  exec c (AArr idxs) = GColl (same_kind c (map (znth (content c)) idxs)).
Proof.
  intros Hwf Hall. destruct c as [sa|sl]; cbn [exec same_kind content] in *.
  - rewrite (wf_enc sa Hwf) at 1. rewrite int_array_enc by assumption. reflexivity.
  - destruct sl as [l k d]. cbn [sl_list sl_kspec sl_dtype] in *. rewrite sl_int_array by assumption. reflexivity.
Qed.

Lemma coll_len_content c : wf_coll c = true -> coll_len c = zlen (content c).
Proof.
  intros Hwf. destruct c as [sa|sl]; cbn; [|reflexivity].
  rewrite (wf_enc sa Hwf) at 1. apply sa_len_enc.
Qed.

Lemma exec_int c i : wf_coll c = true -> 0 <= i < zlen (content c) ->
  exec c (AInt i) = GSig (znth (content c) i).
Proof.
  intros Hwf Hi. destruct c as [sa|sl]; cbn [exec content] in *.
  - rewrite (wf_enc sa Hwf) at 1. rewrite getitem_int_enc by assumption. reflexivity.
  - unfold sl_getitem_int. rewrite pyget_in, znth_nth_error by assumption. reflexivity.
Qed.

Lemma slice_enc k d l a b s :
  zlen l <= SSIZE_MAX -> step_fits s = true -> step_of s <> 0 ->
  sa_getitem_slice (enc k d l) a b s =
  Ok (enc k d (map (znth l) (spec_slice_positions (zlen l) a b (step_of s)))).
Proof.
  intros Hmax Hfit Hnz. pose proof (zlen_nonneg l) as Hn.
  pose proof (slice_positions (zlen l) a b s ltac:(lia) Hfit Hnz) as Hpos.
  assert (Hrange : Forall (fun i => 0 <= i < zlen l) (spec_slice_positions (zlen l) a b (step_of s))).
  { apply Forall_forall. intros p Hp. eapply spec_slice_positions_range; eassumption. }
  unfold sa_getitem_slice. rewrite sa_len_enc.
  destruct (slice_indices (zlen l) a b s) as [[start stop] step] eqn:Esl.
  destruct (negb (step =? 1) || (stop <=? start)) eqn:Efast.
  - rewrite Hpos. now apply int_array_enc.
  - (* contiguous fast path *)
    rewrite slice_indices_spec in Esl by (assumption || lia).
    assert (Es : start = spec_start (zlen l) (step_of s) a) by congruence.
    assert (Ee : stop = spec_stop (zlen l) (step_of s) b) by congruence.
    assert (Est : step = step_of s) by congruence.
    clear Esl. subst step.
    assert (Hst : step_of s = 1) by lia. rewrite Hst in *.
    pose proof (spec_bounds_up (zlen l) 1 a b ltac:(lia) ltac:(lia)) as [B1 B2].
    rewrite <- Es in B1. rewrite <- Ee in B2.
    pose proof (fast_path_enc k d l start stop ltac:(lia) ltac:(lia) ltac:(lia)) as Hfp.
    change (sa_kspec (enc k d l)) with k. change (sa_dtype (enc k d l)) with d. rewrite Hfp. do 2 f_equal.
    unfold spec_slice_positions. cbn [Z.ltb Z.compare]. rewrite <- Es, <- Ee.
    rewrite positions_step1 by lia. symmetry. apply interval_pick; lia.
Qed.

Lemma exec_slice c a b s :
  wf_coll c = true -> zlen (content c) <= SSIZE_MAX -> step_fits s = true -> step_of s <> 0 ->
  exec c (ASlice a b s) =
  GColl (same_kind c (map (znth (content c)) (spec_slice_positions (zlen (content c)) a b (step_of s)))).
Proof.
  intros Hwf Hmax Hfit Hnz. destruct c as [sa|sl]; cbn [exec same_kind content] in *.
  - rewrite (wf_enc sa Hwf) at 1. rewrite slice_enc by assumption. reflexivity.
  - pose proof (zlen_nonneg (sl_list sl)) as Hn.
    pose proof (slice_positions (zlen (sl_list sl)) a b s ltac:(lia) Hfit Hnz) as Hpos.
    unfold sl_getitem_slice.
    destruct (slice_indices (zlen (sl_list sl)) a b s) as [[start stop] step] eqn:Esl.
    rewrite Hpos. apply (exec_arr (CList sl)); [reflexivity|].
    apply Forall_forall. intros p Hp. eapply spec_slice_positions_range; eassumption.
Qed.

(** ** the main refinement: __getitem__ = list indexing, result of the same backing *)

Lemma getitem_lift c idx :
  wf_coll c = true -> zlen (content c) <= SSIZE_MAX -> idx_fits idx = true ->
  getitem true c idx = lift c (list_getitem (content c) idx).
Proof.
  intros Hwf Hmax Hfit. unfold getitem. rewrite (coll_len_content c Hwf).
  set (l := content c) in *. pose proof (zlen_nonneg l) as Hn.
  destruct idx as [i|a b s|dt xs|m| |]; cbn [resolve list_getitem lift].
  - (* integer *)
    rewrite check_index_spec by assumption. unfold spec_int.
    destruct (in_range (zlen l) i) eqn:E; [|reflexivity].
    apply exec_int; [assumption|]. now apply in_range_pos.
  - (* slice *)
    unfold spec_slice. destruct (sarg_bad a || sarg_bad b || sarg_bad s) eqn:Eb; [reflexivity|].
    cbn [idx_fits] in Hfit.
    destruct s as [|z|]; [| |cbn in Eb; rewrite !orb_true_r in Eb; discriminate].
    + cbn [Z.eqb lift sarg_opt]. change (1 =? 0) with false. cbv iota.
      rewrite exec_slice by (assumption || cbn; lia). reflexivity.
    + destruct z as [|p|p]; [reflexivity| |];
        (cbn [Z.eqb lift]; rewrite exec_slice by (assumption || cbn; lia); reflexivity).
  - (* integer array *)
    rewrite all_checked_spec by assumption. unfold spec_take.
    destruct (forallb (in_range (zlen l)) xs) eqn:E; [|reflexivity].
    rewrite exec_arr; [cbn [lift]; now rewrite map_map|assumption|].
    rewrite forallb_forall in E. apply Forall_forall. intros p Hp. apply in_map_iff in Hp.
    destruct Hp as [x [<- Hx]]. apply in_range_pos. auto.
  - (* mask *)
    unfold spec_mask. destruct (zlen m =? zlen l) eqn:E; [|reflexivity].
    assert (Hlen : length m = length l) by (unfold zlen in E; lia).
    destruct (mask_pick l m [] Hlen) as [H1 H2]. cbn [app] in H1, H2. change (zlen (@nil sig)) with 0 in H1, H2.
    rewrite exec_arr by assumption. cbn [lift]. fold l. now rewrite H1.
  - reflexivity.
  - reflexivity.
Qed.

(** ** iteration (Sequence.__iter__) recovers the content *)

Lemma iter_from_enc k d (l : list sig) fx : forall (r done : list sig), l = done ++ r ->
  iter_from (S (length r)) (fun i => getitem fx (CArr (enc k d l)) (PInt i)) (zlen done) = Ok r.
Proof.
  induction r as [|x r IH]; intros done Hl.
  - cbn [iter_from length]. unfold getitem. cbn [coll_len resolve]. rewrite sa_len_enc.
    rewrite app_nil_r in Hl. subst done. rewrite check_index_spec by apply zlen_nonneg.
    pose proof (zlen_nonneg l). unfold in_range.
    destruct ((- zlen l <=? zlen l) && (zlen l <? zlen l)) eqn:E; [lia|]. reflexivity.
  - cbn [length]. remember (S (length r)) as fuel. cbn [iter_from].
    unfold getitem at 1. cbn [coll_len resolve]. rewrite sa_len_enc.
    assert (Hd : 0 <= zlen done < zlen l).
    { subst l. rewrite zlen_app, zlen_cons. pose proof (zlen_nonneg done). pose proof (zlen_nonneg r). lia. }
    rewrite check_index_in by assumption. cbn [exec]. rewrite getitem_int_enc by assumption. cbn [g_sig].
    subst fuel. specialize (IH (done ++ [x])). rewrite zlen_app in IH. change (zlen [x]) with 1 in IH.
    rewrite IH by (subst l; now rewrite <- app_assoc).
    f_equal. f_equal. unfold znth. subst l.
    replace (Z.to_nat (zlen done)) with (length done) by (unfold zlen; lia).
    rewrite app_nth2, Nat.sub_diag by lia. reflexivity.
Qed.

Lemma coll_iter_content fx c : wf_coll c = true -> coll_iter fx c = Ok (content c).
Proof.
  intros Hwf. destruct c as [sa|sl]; [|reflexivity]. cbn [content].
  rewrite (wf_enc sa Hwf) at 1. unfold coll_iter. cbn [coll_len]. rewrite sa_len_enc.
  replace (Z.to_nat (zlen (arr_content sa))) with (length (arr_content sa)) by (unfold zlen; lia).
  apply (iter_from_enc _ _ _ fx (arr_content sa) []). reflexivity.
Qed.

Lemma wf_same_kind c l : wf_coll (same_kind c l) = true.
Proof. destruct c; cbn; [apply wf_arr_enc|reflexivity]. Qed.

Lemma content_same_kind c l : content (same_kind c l) = l.
Proof. destruct c; cbn; [apply arr_content_enc|reflexivity]. Qed.

Lemma C20_refines_list_l c idx :
  wf_coll c = true -> zlen (content c) <= SSIZE_MAX -> idx_fits idx = true ->
  observe true (getitem true c idx) = list_getitem (content c) idx.
Proof.
  intros Hwf Hmax Hfit. rewrite getitem_lift by assumption.
  destruct (list_getitem (content c) idx) as [s|l|e]; cbn [lift observe]; try reflexivity.
  rewrite coll_iter_content by apply wf_same_kind. now rewrite content_same_kind.
Qed.

(** sub-collections: same backing, representation invariant, k-mer parameters, integer type *)
Lemma C20_invariant_l c idx c' :
  wf_coll c = true -> zlen (content c) <= SSIZE_MAX -> idx_fits idx = true ->
  getitem true c idx = GColl c' ->
  wf_coll c' = true /\ coll_kspec c' = coll_kspec c /\ coll_dtype c' = coll_dtype c /\
  (match c, c' with CArr _, CArr _ | CList _, CList _ => True | _, _ => False end).
Proof.
  intros Hwf Hmax Hfit H. rewrite getitem_lift in H by assumption.
  destruct (list_getitem (content c) idx) as [s|l|e]; cbn [lift] in H; try discriminate.
  inversion H; subst c'. split; [apply wf_same_kind|]. destruct c; cbn; auto.
Qed.

(** construction from any sequence of signatures *)
Lemma C20_construct_l k d l :
  exists sa, sa_of_list k d l = Ok sa /\ wf_arr sa = true /\ arr_content sa = l /\
             sa_kspec sa = k /\ sa_dtype sa = d /\ sa_len sa = zlen l /\
             coll_iter true (CArr sa) = Ok l.
Proof.
  exists (enc k d l). split; [apply sa_of_list_enc|]. split; [apply wf_arr_enc|].
  split; [apply arr_content_enc|]. split; [reflexivity|]. split; [reflexivity|].
  split; [apply sa_len_enc|].
  rewrite (coll_iter_content true (CArr (enc k d l))) by apply wf_arr_enc. cbn. now rewrite arr_content_enc.
Qed.

(** ** list mutations *)

Lemma set_at_spec {A} (x : A) : forall l p, (p < length l)%nat -> set_at p x l = firstn p l ++ x :: skipn (S p) l.
Proof.
  induction l as [|y l IH]; intros p Hp; [cbn in Hp; lia|].
  destruct p as [|p]; [reflexivity|]. cbn. f_equal. apply IH. cbn in Hp. lia.
Qed.

Lemma del_at_spec {A} : forall (l : list A) p, (p < length l)%nat -> del_at p l = firstn p l ++ skipn (S p) l.
Proof.
  induction l as [|y l IH]; intros p Hp; [cbn in Hp; lia|].
  destruct p as [|p]; [reflexivity|]. cbn. f_equal. apply IH. cbn in Hp. lia.
Qed.

Lemma ins_at_spec {A} (x : A) : forall l p, (p <= length l)%nat -> ins_at p x l = firstn p l ++ x :: skipn p l.
Proof.
  induction l as [|y l IH]; intros p Hp.
  - cbn in Hp. assert (p = 0%nat) by lia. subst. reflexivity.
  - destruct p as [|p]; [reflexivity|]. cbn. f_equal. apply IH. cbn in Hp. lia.
Qed.

Lemma list_insert_spec (l : list sig) i x :
  list_insert l i x = zfirstn (clamp 0 (zlen l) (pos (zlen l) i)) l ++ x :: zskipn (clamp 0 (zlen l) (pos (zlen l) i)) l.
Proof.
  unfold list_insert, zfirstn, zskipn. pose proof (zlen_nonneg l) as Hn.
  set (w := if zlen l <? _ then _ else _).
  assert (w = clamp 0 (zlen l) (pos (zlen l) i)) as ->.
  { unfold w, clamp, pos. destruct (i <? 0) eqn:E1.
    - destruct (i + zlen l <? 0) eqn:E2; destruct (zlen l <? _) eqn:E3; lia.
    - destruct (zlen l <? i) eqn:E3; lia. }
  apply ins_at_spec. unfold clamp, zlen in *. lia.
Qed.

Lemma sl_mop_spec l k d o :
  sl_mop (mk_siglist l k d) o = (mk_siglist (fst (spec_mop l o)) k d, snd (spec_mop l o)).
Proof.
  pose proof (zlen_nonneg l) as Hn.
  destruct o as [i x|i|i x|i|x]; unfold sl_mop, spec_mop; cbn [sl_list sl_kspec sl_dtype].
  - rewrite check_index_spec by assumption. destruct (in_range (zlen l) i) eqn:E; [|reflexivity].
    cbn [fst snd]. pose proof (in_range_pos _ _ E). rewrite set_at_spec by (unfold zlen in *; lia).
    unfold zfirstn, zskipn. replace (Z.to_nat (pos (zlen l) i + 1)) with (S (Z.to_nat (pos (zlen l) i))) by lia.
    reflexivity.
  - rewrite check_index_spec by assumption. destruct (in_range (zlen l) i) eqn:E; [|reflexivity].
    cbn [fst snd]. pose proof (in_range_pos _ _ E). rewrite del_at_spec by (unfold zlen in *; lia).
    unfold zfirstn, zskipn. replace (Z.to_nat (pos (zlen l) i + 1)) with (S (Z.to_nat (pos (zlen l) i))) by lia.
    reflexivity.
  - cbn [fst snd]. now rewrite list_insert_spec.
  - rewrite check_index_spec by assumption. destruct (in_range (zlen l) i) eqn:E; [|reflexivity].
    pose proof (in_range_pos _ _ E) as Hp. unfold sl_getitem_int. cbn [sl_list].
    rewrite pyget_in, znth_nth_error by assumption. cbn [fst snd].
    rewrite del_at_spec by (unfold zlen in *; lia).
    unfold zfirstn, zskipn. replace (Z.to_nat (pos (zlen l) i + 1)) with (S (Z.to_nat (pos (zlen l) i))) by lia.
    reflexivity.
  - cbn [fst snd]. rewrite list_insert_spec. unfold pos, clamp, zfirstn, zskipn.
    destruct (zlen l <? 0) eqn:E; [lia|].
    replace (Z.max 0 (Z.min (zlen l) (zlen l))) with (zlen l) by lia.
    replace (Z.to_nat (zlen l)) with (length l) by (unfold zlen; lia).
    now rewrite firstn_all, skipn_all.
Qed.

(** any finite history of mutations tracks the abstract list, observation by observation *)
Lemma C20_mutation_l ops : forall l k d,
  sl_history (mk_siglist l k d) ops =
  (mk_siglist (fst (spec_history l ops)) k d, snd (spec_history l ops)).
Proof.
  induction ops as [|o r IH]; intros l k d; [reflexivity|].
  cbn [sl_history spec_history]. rewrite sl_mop_spec.
  destruct (spec_mop l o) as [l1 out]. cbn [fst snd]. rewrite IH.
  destruct (spec_history l1 r) as [l2 outs]. reflexivity.
Qed.

(** ** equality *)

Lemma arr_eqb_eq a : forall b, arr_eqb a b = true <-> a = b.
Proof.
  induction a as [|x a IH]; intros [|y b]; cbn; try (split; [discriminate|discriminate]); try tauto.
  rewrite andb_true_iff, IH, Z.eqb_eq. split; [intros [-> ->]; reflexivity|intros H; inversion H; auto].
Qed.

Lemma all_eq_eq (a : list sig) : forall b, length a = length b -> (all_eq a b = true <-> a = b).
Proof.
  induction a as [|x a IH]; intros [|y b] Hl; cbn in Hl |- *; try discriminate; [tauto|].
  rewrite andb_true_iff, arr_eqb_eq, IH by lia. split; [intros [-> ->]; reflexivity|intros H; inversion H; auto].
Qed.

Lemma C20_eq_l c1 c2 : wf_coll c1 = true -> wf_coll c2 = true ->
  coll_eq true c1 c2 = Ok (spec_eq (coll_kspec c1) (content c1) (coll_kspec c2) (content c2)).
Proof.
  intros H1 H2. unfold coll_eq, spec_eq. rewrite !coll_len_content by assumption.
  rewrite !coll_iter_content by assumption. cbn [rbind].
  destruct (coll_kspec c1 =? coll_kspec c2) eqn:Ek; cbn [negb andb]; [|reflexivity].
  unfold sigs_eqb. destruct (list_eq_dec (list_eq_dec Z.eq_dec) (content c1) (content c2)) as [E|N].
  - rewrite E, Z.eqb_refl. cbn [negb]. f_equal. apply all_eq_eq; reflexivity.
  - destruct (zlen (content c1) =? zlen (content c2)) eqn:El; cbn [negb]; [|reflexivity].
    f_equal. destruct (all_eq (content c1) (content c2)) eqn:Ea; [|reflexivity].
    exfalso. apply N. apply all_eq_eq; [unfold zlen in El; lia|assumption].
Qed.

Lemma sigs_eqb_eq a b : sigs_eqb a b = true <-> a = b.
Proof. unfold sigs_eqb. destruct (list_eq_dec (list_eq_dec Z.eq_dec) a b); split; auto; discriminate. Qed.

Lemma C20_eq_iff_l c1 c2 : wf_coll c1 = true -> wf_coll c2 = true ->
  (coll_eq true c1 c2 = Ok true <-> coll_kspec c1 = coll_kspec c2 /\ content c1 = content c2) /\
  (exists b, coll_eq true c1 c2 = Ok b).
Proof.
  intros H1 H2. rewrite C20_eq_l by assumption. split; [|eauto]. unfold spec_eq. split.
  - intros H. inversion H as [E]. apply andb_prop in E. destruct E as [Ek El].
    split; [lia|now apply sigs_eqb_eq].
  - intros [Ek El]. f_equal. apply andb_true_intro. split; [lia|now apply sigs_eqb_eq].
Qed.

(** ** the index-array conversion as found is refuted: int8 index [-1] on 129 signatures *)

Definition witness_sigs : list sig := map (fun i => [i]) (seqZ 129).
Definition witness_idx : pidx := PInts (DT 8 true) [-1].

Lemma C20_old_refuted_l :
  exists k d l idx,
    (forall kind : bool, let c := if kind then CArr (enc k d l) else CList (mk_siglist l k d) in
       wf_coll c = true /\ content c = l /\
       observe false (getitem false c idx) <> list_getitem l idx) /\
    list_getitem l idx = RColl [[128]].
Proof.
  exists 0, 0, witness_sigs, witness_idx. split; [|vm_compute; reflexivity].
  intros [|]; cbn zeta.
  - split; [apply wf_arr_enc|]. split; [apply arr_content_enc|]. vm_compute. discriminate.
  - split; [reflexivity|]. split; [reflexivity|]. vm_compute. discriminate.
Qed.

(** the conversion as found is correct whenever no wrap-around happens *)
Lemma convert_old_ok dt n xs : 0 <= n ->
  forallb (in_range n) xs = true ->
  Forall (fun x => x < 0 -> wrap dt (x + n) = x + n) xs ->
  convert_old dt n xs = map (pos n) xs.
Proof.
  intros Hn Hr Hw. unfold convert_old.
  destruct (existsb (fun x => x <? 0) xs) eqn:E.
  - apply map_ext_in. intros x Hx. unfold pos. destruct (x <? 0) eqn:Ex; [|reflexivity].
    rewrite Forall_forall in Hw. apply Hw; [assumption|lia].
  - symmetry. rewrite <- (map_id xs) at 2. apply map_ext_in. intros x Hx. unfold pos.
    destruct (x <? 0) eqn:Ex; [|reflexivity]. exfalso.
    assert (existsb (fun x => x <? 0) xs = true) by (apply existsb_exists; eauto). congruence.
Qed.

Lemma C20_old_ok_when_fits_l c dt xs :
  wf_coll c = true ->
  Forall (fun x => x < 0 -> wrap dt (x + zlen (content c)) = x + zlen (content c)) xs ->
  getitem false c (PInts dt xs) = getitem true c (PInts dt xs).
Proof.
  intros Hwf Hw. unfold getitem. cbn [resolve]. rewrite (coll_len_content c Hwf).
  pose proof (zlen_nonneg (content c)) as Hn. rewrite all_checked_spec by assumption.
  destruct (forallb (in_range (zlen (content c))) xs) eqn:E; [|reflexivity].
  now rewrite convert_old_ok.
Qed.

(** non-vacuity: a well-formed collection that is not in the image of the constructor's layout
    (a view produced by the fast path) and a negative-step slice through it *)
Example ex_view : let sa := mk_sigarr [7; 8; 9; 10] [0; 1; 1; 4] 6 16 in
  wf_arr sa = true /\ arr_content sa = [[7]; []; [8; 9; 10]] /\
  observe true (getitem true (CArr sa) (PSlice SNone (SInt (-5)) (SInt (-2)))) = RColl [[8; 9; 10]; [7]].
Proof. vm_compute. auto. Qed.

Example ex_history :
  spec_history [[1]; [2]] [MIns (-5) [0]; MDel 7; MPop (-1); MSet 1 [9]; MApp []] =
  ([[0]; [9]; []], [RColl []; RErr IndexError; RSig [2]; RColl []; RColl []]).
Proof. vm_compute. reflexivity. Qed.
