(** C05 -- ADVISORY syntactic ties (not part of the property's obligations).

    The property theorems (Props/C05.v) are about hand models tied to the code by the behavioural
    correspondence run.  For a few integer-only helper functions the Python TEXT is additionally
    translated on every run (tools/py2v.py -> Gen/PyC05.v) and proved equal to the hand model here.
    A harmless rewrite of such a helper can leave the translated subset or change the generated
    term although the behaviour (and the property) is unchanged; the check therefore reports a
    tie that no longer checks as a NOTE in its output and in the evidence file, never as a
    violation -- the correspondence run decides. *)
From Coq Require Import ZArith List Bool.
From GV Require Import Base.CSem.
From GV Require Import Model.C05.
From GV Require Import Gen.PyC05 Proofs.PyTieC05.
Import ListNotations.
Open Scope Z_scope.

(** syntactic tie: gambit.util.misc.chunk_slices and gambit.metric.num_pairs as translated from the Python
    text by tools/py2v.py are the model's [chunk_slices_from] / [num_pairs] *)
Theorem C05_tie_chunk_slices : forall fuel n size start,
  py_chunk_slices_loop fuel n size start =
    match Model.C05.chunk_slices_from fuel n size start with
    | POk l => Ok l
    | PErr (PKernel e) => Error e
    | PErr _ => Error ValueError
    end.
Proof. exact tie_chunk_loop. Qed.
Print Assumptions C05_tie_chunk_slices.

Theorem C05_tie_num_pairs : forall n, py_num_pairs n = Ok (Model.C05.num_pairs n).
Proof. exact tie_num_pairs. Qed.
Print Assumptions C05_tie_num_pairs.
