(** C20 -- ADVISORY syntactic ties (not part of the property's obligations).

    The property theorems (Props/C20.v) are about hand models tied to the code by the behavioural
    correspondence run.  For a few integer-only helper functions the Python TEXT is additionally
    translated on every run (tools/py2v.py -> Gen/PyC20.v) and proved equal to the hand model here.
    A harmless rewrite of such a helper can leave the translated subset or change the generated
    term although the behaviour (and the property) is unchanged; the check therefore reports a
    tie that no longer checks as a NOTE in its output and in the evidence file, never as a
    violation -- the correspondence run decides. *)
From Coq Require Import ZArith List Bool.
From GV Require Base.CSem Model.C20 Gen.PyC20 Proofs.PyTieC20.
Open Scope Z_scope.

(** syntactic tie: AdvancedIndexingMixin._check_index as translated from the Python text by tools/py2v.py is
    the model's [check_index] (None = IndexError) *)
Theorem C20_tie_check_index : forall i n,
  PyC20.py_check_index i n =
    match Model.C20.check_index n i with Some p => CSem.Ok p | None => CSem.Error CSem.IndexError end.
Proof. exact PyTieC20.tie_check_index. Qed.
Print Assumptions C20_tie_check_index.
