(** C01 -- ADVISORY syntactic ties (not part of the property's obligations).

    The property theorems (Props/C01.v) are about hand models tied to the code by the behavioural
    correspondence run.  For a few integer-only helper functions the Python TEXT is additionally
    translated on every run (tools/py2v.py -> Gen/PyC01.v) and proved equal to the hand model here.
    A harmless rewrite of such a helper can leave the translated subset or change the generated
    term although the behaviour (and the property) is unchanged; the check therefore reports a
    tie that no longer checks as a NOTE in its output and in the evidence file, never as a
    violation -- the correspondence run decides. *)
From Coq Require Import ZArith List Bool.
From GV Require Import Base.CSem.
From GV Require Model.C01.
From GV Require Import Gen.PyC01 Proofs.PyTieC01.
Open Scope Z_scope.

(** syntactic tie: gambit.kmers.index_dtype / nkmers as translated from the Python text by tools/py2v.py
    are the model's [index_dtype] and the index range 4^k *)
Theorem C01_tie_index_dtype : forall k, py_index_dtype k = Ok (Model.C01.index_dtype k) /\ py_nkmers k = Ok (4 ^ k).
Proof. intros k. split; [apply tie_index_dtype | apply tie_nkmers]. Qed.
Print Assumptions C01_tie_index_dtype.
