(** C15 -- the genomic distance behaves as a metric on signatures.
    [jaccarddist] is generated from src/gambit/_cython/metric.pyx.  Where binary32 rounding matters
    the statements carry the size bound |A u B| <= 2^24, which holds for every k <= 12
    ([C15_small_k]); beyond it the statements are false of binary32 itself (known findings). *)
From Coq Require Import ZArith List Bool Reals.
From Flocq Require Import Core.Core IEEE754.BinarySingleNaN.
From GV Require Import Base.CSem Base.F32 Gen.MetricPyx Spec.Jaccard Spec.JaccardF Model.MetricPy
  Proofs.C02 Proofs.C15.
Import ListNotations.
Open Scope Z_scope.

Theorem C15_range : forall fuel A B d,
  sorted A -> sorted B -> (length A + length B <= fuel)%nat -> union_count A B <= 16777216 ->
  jaccarddist fuel A B = Ok d -> is_finite d = true /\ (0 <= B2R d <= 1)%R.
Proof. exact C15_range_l. Qed.
Print Assumptions C15_range.

Theorem C15_zero_iff_equal : forall fuel A B d,
  sorted A -> sorted B -> (length A + length B <= fuel)%nat -> union_count A B <= 16777216 ->
  jaccarddist fuel A B = Ok d -> (B2R d = 0%R <-> A = B).
Proof. exact C15_zero_iff_equal_l. Qed.
Print Assumptions C15_zero_iff_equal.

Theorem C15_one_iff_disjoint_nonempty : forall fuel A B d,
  sorted A -> sorted B -> (length A + length B <= fuel)%nat -> union_count A B <= 16777216 ->
  jaccarddist fuel A B = Ok d ->
  (B2R d = 1%R <-> (forall x, In x A -> ~ In x B) /\ ~ (A = [] /\ B = [])).
Proof. exact C15_one_iff_disjoint_l. Qed.
Print Assumptions C15_one_iff_disjoint_nonempty.

(** bit-for-bit symmetric, for all sizes *)
Theorem C15_symmetric : forall fuel A B,
  sorted A -> sorted B -> (length A + length B <= fuel)%nat ->
  jaccarddist fuel A B = jaccarddist fuel B A.
Proof. exact C15_symmetric_l. Qed.
Print Assumptions C15_symmetric.

(** integer width: the wrapper accepts each argument's width independently and the value does not
    depend on it (the model's elements are unbounded integers) *)
Theorem C15_width : forall k1 s1 A k2 s2 B,
  cast_sigs_array k1 s1 = Ok s1 -> cast_sigs_array k2 s2 = Ok s2 ->
  py_jaccarddist k1 s1 A k2 s2 B = jaccarddist (length A + length B) A B.
Proof. intros k1 s1 A k2 s2 B H1 H2. exact (proj1 (proj1 (proj2 (proj2 (C02_dtypes_l k1 s1 A k2 s2 B))) H1 H2)). Qed.
Print Assumptions C15_width.

Theorem C15_small_k : forall k A B,
  0 <= k <= 12 -> sorted A -> sorted B ->
  Forall (fun x => 0 <= x < 4 ^ k) A -> Forall (fun x => 0 <= x < 4 ^ k) B ->
  union_count A B <= 16777216.
Proof. exact C15_small_k_l. Qed.
Print Assumptions C15_small_k.
