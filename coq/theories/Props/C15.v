(** C15 -- the genomic distance behaves as a metric on signatures.
    [jaccarddist] is generated from src/gambit/_cython/metric.pyx.  Where binary32 rounding matters
    the statements carry the size bound |A u B| <= 2^24, which holds for every k <= 12
    ([C15_small_k]); beyond it the statements are false of binary32 itself (known findings). *)
From Coq Require Import ZArith List Bool Reals.
From Flocq Require Import Core.Core IEEE754.BinarySingleNaN.
From GV Require Import Base.CSem Base.F32 Gen.MetricPyx Spec.Jaccard Spec.JaccardF Model.MetricPy
  Proofs.C02 Proofs.MetricTriangle Proofs.MetricStrict Proofs.C15.
Import ListNotations.
Open Scope Z_scope.

Theorem C15_range : forall fuel A B d,
  sorted A -> sorted B -> (length A + length B <= fuel)%nat -> union_count A B <= 16777216 ->
  jaccarddist fuel A B = Ok d -> is_finite d = true /\ (0 <= B2R d <= 1)%R.
Proof. exact C15_range_l. Qed.
Print Assumptions C15_range.

Theorem C15_zero_iff_equal : forall fuel A B d,
  sorted A -> sorted B -> (length A + length B <= fuel)%nat -> union_count A B <= 16777216 ->
  jaccarddist fuel A B = Ok d -> (B2R d = 0%R <-> A = B).
Proof. exact C15_zero_iff_equal_l. Qed.
Print Assumptions C15_zero_iff_equal.

Theorem C15_one_iff_disjoint_nonempty : forall fuel A B d,
  sorted A -> sorted B -> (length A + length B <= fuel)%nat -> union_count A B <= 16777216 ->
  jaccarddist fuel A B = Ok d ->
  (B2R d = 1%R <-> (forall x, In x A -> ~ In x B) /\ ~ (A = [] /\ B = [])).
Proof. exact C15_one_iff_disjoint_l. Qed.
Print Assumptions C15_one_iff_disjoint_nonempty.

(** bit-for-bit symmetric, for all sizes *)
Theorem C15_symmetric : forall fuel A B,
  sorted A -> sorted B -> (length A + length B <= fuel)%nat ->
  jaccarddist fuel A B = jaccarddist fuel B A.
Proof. exact C15_symmetric_l. Qed.
Print Assumptions C15_symmetric.

(** integer width: the wrapper accepts each argument's width independently and the value does not
    depend on it (the model's elements are unbounded integers) *)
Theorem C15_width : forall k1 s1 A k2 s2 B,
  cast_sigs_array k1 s1 = Ok s1 -> cast_sigs_array k2 s2 = Ok s2 ->
  py_jaccarddist k1 s1 A k2 s2 B = jaccarddist (length A + length B) A B.
Proof. intros k1 s1 A k2 s2 B H1 H2. exact (proj1 (proj1 (proj2 (proj2 (C02_dtypes_l k1 s1 A k2 s2 B))) H1 H2)). Qed.
Print Assumptions C15_width.

Theorem C15_small_k : forall k A B,
  0 <= k <= 12 -> sorted A -> sorted B ->
  Forall (fun x => 0 <= x < 4 ^ k) A -> Forall (fun x => 0 <= x < 4 ^ k) B ->
  union_count A B <= 16777216.
Proof. exact C15_small_k_l. Qed.
Print Assumptions C15_small_k.

(** triangle inequality up to single-precision rounding (three roundings, each <= 2^-24) *)
Theorem C15_triangle : forall fuel A B C dAB dBC dAC,
  sorted A -> sorted B -> sorted C ->
  (length A + length B <= fuel)%nat -> (length B + length C <= fuel)%nat -> (length A + length C <= fuel)%nat ->
  union_count A B <= 16777216 -> union_count B C <= 16777216 -> union_count A C <= 16777216 ->
  jaccarddist fuel A B = Ok dAB -> jaccarddist fuel B C = Ok dBC -> jaccarddist fuel A C = Ok dAC ->
  (B2R dAC <= B2R dAB + B2R dBC + bpow radix2 (-22))%R.
Proof. exact C15_triangle_l. Qed.
Print Assumptions C15_triangle.

(** the exact (unrounded) distances satisfy the triangle inequality with no slack, for all sizes *)
Theorem C15_triangle_exact : forall A B C, sorted A -> sorted B -> sorted C ->
  (IZR (symdiff_count A C) / IZR (union_count A C) <=
   IZR (symdiff_count A B) / IZR (union_count A B) + IZR (symdiff_count B C) / IZR (union_count B C))%R.
Proof. exact triangle_ratio. Qed.
Print Assumptions C15_triangle_exact.

(** adding a k-mer absent from both (different) sets strictly decreases the reported binary32
    distance when |A u B| + 1 <= 2^23 (every k <= 11, the default included); near 2^24 strictness
    genuinely fails in binary32 (known finding C15-f1) *)
Theorem C15_add_common : forall fuel x A B d d',
  sorted A -> sorted B -> ~ In x A -> ~ In x B -> A <> B ->
  (length A + length B + 2 <= fuel)%nat -> union_count A B + 1 <= 8388608 ->
  jaccarddist fuel A B = Ok d ->
  jaccarddist fuel (insert_sorted x A) (insert_sorted x B) = Ok d' ->
  (B2R d' < B2R d)%R.
Proof. exact C15_add_common_l. Qed.
Print Assumptions C15_add_common.

(** between 2^23 and 2^24: the exact ratio strictly decreases and the binary32 value does not increase *)
Theorem C15_add_common_weak : forall fuel x A B d d',
  sorted A -> sorted B -> ~ In x A -> ~ In x B -> A <> B ->
  (length A + length B + 2 <= fuel)%nat -> union_count A B < 16777216 ->
  jaccarddist fuel A B = Ok d ->
  jaccarddist fuel (insert_sorted x A) (insert_sorted x B) = Ok d' ->
  sorted (insert_sorted x A) /\ sorted (insert_sorted x B) /\
  (forall y, In y (insert_sorted x A) <-> y = x \/ In y A) /\
  (forall y, In y (insert_sorted x B) <-> y = x \/ In y B) /\
  (IZR (symdiff_count (insert_sorted x A) (insert_sorted x B))
     / IZR (union_count (insert_sorted x A) (insert_sorted x B))
   < IZR (symdiff_count A B) / IZR (union_count A B))%R /\
  (B2R d' <= B2R d)%R.
Proof. exact C15_add_common_partial_l. Qed.
Print Assumptions C15_add_common_weak.
