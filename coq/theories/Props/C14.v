(** C14 -- signatures built with different k-mer parameters are never compared silently.

    Model/C14.v follows src/gambit/cli/{common,dist,query,tree,signatures}.py check by check; a
    run is (exit status, error, steps) with steps [Calc side s] (signatures computed from files
    with parameters s), [Compare q r] (a distance computation between signature collections
    built with q and r) and [Write] (the result is written).  Spec/C14.v: [compares_equal],
    [computed_consistently], [reported] (error, non-zero status, nothing compared, nothing
    written), [silent_mismatch], and the declarative reading [spec_dist]/[spec_query] (all present
    sources agree -> that parameter set, else refuse).  All statements quantify over every option
    combination and every parameter value (k any integer, prefixes any byte lists); the only
    hypotheses are the boolean well-formedness predicates [dist_wf]/[query_wf] where the exact
    error class is claimed. *)
From Coq Require Import ZArith List Bool.
From GV Require Import Model.C14 Spec.C14 Proofs.C14.
Import ListNotations.
Open Scope Z_scope.

(** -k/--prefix: both or neither; k >= 5; prefix length >= 2; prefix upper-cased, only ACGT. *)
Theorem C14_kspec_from_params : forall k p d,
  match kspec_from_params k p d with
  | Ok None => k = None /\ p = None /\ d = false
  | Ok (Some s) =>
      (k = None /\ p = None /\ d = true /\ s = default_kspec) \/
      (exists kv pv, k = Some kv /\ p = Some pv /\ 5 <= kv /\ (2 <= length pv)%nat /\
                     s = KS kv (map upper_byte pv) /\ forallb is_nuc (ks_prefix s) = true)
  | Failed e =>
      (e = ENeedBoth /\ (is_some k = negb (is_some p))) \/
      (exists kv pv, k = Some kv /\ p = Some pv /\
         ((e = EMinK /\ kv < 5) \/ (e = EMinPrefix /\ 5 <= kv /\ (length pv < 2)%nat) \/
          (e = EBadNuc /\ 5 <= kv /\ (2 <= length pv)%nat /\ forallb is_nuc (map upper_byte pv) = false)))
  end.
Proof. exact kspec_from_params_char_l. Qed.
Print Assumptions C14_kspec_from_params.

(** Every run of the distance command, for every option combination: the two sides of the
    comparison carry the same parameters, every computation from files uses them, and the run
    either ends with status 0 and a written result or is a reported error (non-zero status,
    nothing compared, nothing written). *)
Theorem C14_dist : forall o,
  let r := dist_cmd o in
  compares_equal r /\ computed_consistently r /\
  (exit_status r = 0 /\ In Write (steps r) /\ error r = None \/ reported r) /\ run_ok r = true.
Proof. exact dist_no_silent_l. Qed.
Print Assumptions C14_dist.

(** Result "use s": every present source -- explicit options, pre-computed query signatures,
    pre-computed reference signatures or the database -- has parameters s, and the steps are
    exactly: compute what is not pre-computed with s, compare s with s, write. *)
Theorem C14_dist_use : forall o, exit_status (dist_cmd o) = 0 ->
  exists s, spec_dist o = Some s /\ dist_cmd o = finished (dist_steps_with o s) /\
            (forall x, In x (dist_params o) -> x = s).
Proof. exact dist_finished_l. Qed.
Print Assumptions C14_dist_use.

(** Two present sources that differ (options vs a pre-computed source, or the two pre-computed
    sources) => error, non-zero status, no comparison, no output -- whatever else is given. *)
Theorem C14_dist_mismatch_reported : forall o a b,
  In a (dist_params o) -> In b (dist_params o) -> a <> b -> reported (dist_cmd o).
Proof. exact dist_mismatch_reported_l. Qed.
Print Assumptions C14_dist_mismatch_reported.

(** On a well-formed command line the command does exactly what the declarative reading says,
    and a refusal is one of the parameter-mismatch errors. *)
Theorem C14_dist_spec : forall o, dist_wf o = true ->
  match spec_dist o with
  | Some s => dist_cmd o = finished (dist_steps_with o s)
  | None => exists e, dist_cmd o = failed e /\ is_mismatch_err e = true
  end.
Proof. exact dist_spec_l. Qed.
Print Assumptions C14_dist_spec.

(** Parameters not given explicitly are taken from the pre-computed signatures or the database. *)
Theorem C14_dist_defaults : forall o, d_k o = None -> d_prefix o = None ->
  exit_status (dist_cmd o) = 0 ->
  dist_cmd o = finished (dist_steps_with o
    match d_qs o with
    | Some q => q
    | None => match dist_ref_source o with Some r => r | None => default_kspec end
    end).
Proof. exact dist_defaults_l. Qed.
Print Assumptions C14_dist_defaults.

(** File queries are computed with the database's parameters (as found and repaired). *)
Theorem C14_query_files : forall fixed o, q_sigfile o = None ->
  compares_equal (query_cmd fixed o) /\ computed_consistently (query_cmd fixed o) /\
  (query_wf o = true -> exists db, q_db o = Some db /\
     query_cmd fixed o = finished [Calc Query db; Compare db db; Write]).
Proof. exact query_files_l. Qed.
Print Assumptions C14_query_files.

(** The query command AS FOUND: `-s` with a (7,"AC") signature file against a (6,"AT")
    database finishes with status 0, having compared the two and written a result. *)
Theorem C14_query_sigfile_refuted :
  exists o, query_wf o = true /\ spec_query o = None /\
            query_cmd false o = finished [Compare (KS 7 [65; 67]) (KS 6 [65; 84]); Write] /\
            silent_mismatch (query_cmd false o).
Proof. exact query_sigfile_refuted_l. Qed.
Print Assumptions C14_query_sigfile_refuted.

(** The REPAIRED query command (repo_fixes/C14.diff): no silent mismatch; well-formed command
    lines do exactly what the declarative reading says; a differing signature file is reported. *)
Theorem C14_query_sigfile_fixed : forall o,
  let r := query_cmd true o in
  compares_equal r /\ computed_consistently r /\
  (exit_status r = 0 /\ In Write (steps r) /\ error r = None \/ reported r) /\
  (query_wf o = true ->
     match spec_query o with
     | Some s => r = finished ((if is_some (q_sigfile o) then [] else [Calc Query s]) ++ [Compare s s; Write])
     | None => r = failed ESigDb
     end) /\
  (forall s db, q_sigfile o = Some s -> q_db o = Some db -> s <> db -> reported r).
Proof. exact query_fixed_l. Qed.
Print Assumptions C14_query_sigfile_fixed.

(** tree: one source only -- the signature file's parameters, or the options / the default. *)
Theorem C14_tree : forall o,
  let r := tree_cmd o in
  compares_equal r /\ computed_consistently r /\
  (exit_status r = 0 /\ In Write (steps r) /\ error r = None \/ reported r) /\
  (forall s, t_sigfile o = Some s -> exit_status r = 0 -> r = finished [Compare s s; Write]) /\
  (t_sigfile o = None -> exit_status r = 0 ->
     exists s, r = finished [Calc Query s; Compare s s; Write] /\
               (explicit_params (t_k o) (t_prefix o) = [s] \/
                t_k o = None /\ t_prefix o = None /\ s = default_kspec)).
Proof. exact tree_l. Qed.
Print Assumptions C14_tree.

(** signatures create: --db-params takes the database's parameters and excludes -k/--prefix. *)
Theorem C14_create : forall o s, create_kspec o = Ok s ->
  (c_db_params o = true -> c_db o = Some s /\ c_k o = None /\ c_prefix o = None) /\
  (c_db_params o = false ->
     explicit_params (c_k o) (c_prefix o) = [s] \/
     c_k o = None /\ c_prefix o = None /\ s = default_kspec).
Proof. exact create_l. Qed.
Print Assumptions C14_create.

Theorem C14_create_db_params_exclusive : forall o s,
  check_group 5 [c_list o; c_files o] = None -> c_db_params o = true ->
  explicit_params (c_k o) (c_prefix o) = [s] -> create_cmd o = failed EDbParamsExcl.
Proof. exact create_db_params_exclusive_l. Qed.
Print Assumptions C14_create_db_params_exclusive.

(** All four commands, repaired query command: never a silent mismatch ... *)
Theorem C14_no_silent_mismatch : forall c,
  let r := run_command true c in
  (compares_equal r /\ computed_consistently r /\
   (exit_status r = 0 /\ In Write (steps r) /\ error r = None \/ reported r)) /\
  ~ silent_mismatch r.
Proof. exact no_silent_all_l. Qed.
Print Assumptions C14_no_silent_mismatch.

(** ... which is false of the commands as found. *)
Theorem C14_no_silent_mismatch_as_found_refuted : exists c, silent_mismatch (run_command false c).
Proof. exact silent_mismatch_as_found_l. Qed.
Print Assumptions C14_no_silent_mismatch_as_found_refuted.
