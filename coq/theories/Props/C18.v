(** C18 -- using a reference database never modifies it.

    Vocabulary (Model/C18.v): a session class is the pair of overrides [flush_noop] /
    [commit_raises]; [ReadOnlySession] (sqla.py:12-20) sets both, [file_sessionmaker] (sqla.py:40-58)
    and the CLI context (cli/common.py:123-128) choose it by default.  [run_session cls af s ops]
    runs ANY list of add | modify | delete | query (autoflush [af]) | flush | commit | rollback |
    close | transaction-commit | raw-DML operations on a session state [s] = (file, open
    transaction, pending new/dirty/deleted, log of write statements).  [orm_only] excludes only
    the raw-DML operation (which is not a "pending change").  [run_store] runs any list of
    open/read/write/delete/flush/close on the signature file; [read_opens] = every open uses the
    library default or mode r.  [run_world] runs micro operations over the directory (genome file,
    signature file, listing, journal) and [history_ops h] is a history of invocations
    (command, failure point) of query / dist --use-db / signatures info / tree -s / load_from_dir /
    arbitrary session edits / arbitrary handle operations.  Spec/C18.v: [commit_refused],
    [query_reads_file], [write_rejected], [directory_untouched].  No hypothesis other than the
    boolean well-formedness predicates [orm_only], [read_opens], [history_ok], [quiet], and
    "no transaction with writes is open at the start". *)
From Coq Require Import ZArith List Bool.
From GV Require Import Model.C18 Spec.C18 Proofs.C18.
Import ListNotations.
Open Scope Z_scope.

(** For EVERY list of session operations (any length, any order, failing commits interleaved),
    with or without autoflush: the file is unchanged, no transaction is ever written to (no journal),
    no INSERT/UPDATE/DELETE is emitted, every commit() raises, and every query returns exactly the
    rows of the file on disk. *)
Theorem C18_session_invariant : forall af ops s s' rs,
  orm_only ops = true -> s_txn s = [] ->
  run_session ReadOnlySession af s ops = (s', rs) ->
  s_file s' = s_file s /\ s_txn s' = [] /\ s_log s' = s_log s /\ journal_present s' = false /\
  length rs = length ops /\
  Forall2 commit_refused ops rs /\
  Forall2 (query_reads_file (s_file s)) ops rs.
Proof. exact session_invariant_l. Qed.
Print Assumptions C18_session_invariant.

(** flush() and commit() leave the session exactly as it was: pending changes stay pending *)
Theorem C18_flush_commit_keep_state : forall af s,
  step ReadOnlySession af s Flush = (s, ROk) /\ step ReadOnlySession af s Commit = (s, RTypeError).
Proof. exact flush_commit_keep_state_l. Qed.
Print Assumptions C18_flush_commit_keep_state.

(** which override protects what: the no-op flush alone keeps every statement away from the data
    base (even through SessionTransaction.commit, which ReadOnlySession does not override) ... *)
Theorem C18_noop_flush_protects : forall cls af ops s s' rs,
  flush_noop cls = true -> orm_only ops = true -> s_txn s = [] ->
  run_session cls af s ops = (s', rs) ->
  s_file s' = s_file s /\ s_txn s' = [] /\ s_log s' = s_log s /\
  journal_present s' = false /\
  Forall2 (query_reads_file (s_file s)) ops rs.
Proof. exact noop_flush_protects_l. Qed.
Print Assumptions C18_noop_flush_protects.

(** ... the raising commit alone makes every commit() fail, for any operations whatsoever ... *)
Theorem C18_commit_always_raises : forall cls af ops s s' rs,
  commit_raises cls = true -> run_session cls af s ops = (s', rs) -> Forall2 commit_refused ops rs.
Proof. exact commit_always_raises_l. Qed.
Print Assumptions C18_commit_always_raises.

(** ... and keeps the FILE intact even under a real flush and raw DML, from any state, as long as
    the transaction object is not committed behind the session's back. *)
Theorem C18_file_safe_without_txcommit : forall cls af ops s s' rs,
  commit_raises cls = true -> no_txcommit ops = true ->
  run_session cls af s ops = (s', rs) -> s_file s' = s_file s.
Proof. exact file_safe_without_txcommit_l. Qed.
Print Assumptions C18_file_safe_without_txcommit.

(** the read-only class is what the library and the CLI use when nothing is said *)
Theorem C18_default_is_readonly :
  library_default_class = ReadOnlySession /\ cli_class = ReadOnlySession /\
  file_sessionmaker true None = ReadOnlySession /\ file_sessionmaker false None = PlainSession.
Proof. exact default_classes_l. Qed.
Print Assumptions C18_default_is_readonly.

(** Signature file: for every operation list whose opens use the default / mode r, the file is
    unchanged and every write or delete through the handle is rejected. *)
Theorem C18_store_read_mode : forall ops st st' rs,
  read_opens ops = true -> handle_read_only st = true -> run_store st ops = (st', rs) ->
  st_file st' = st_file st /\ handle_read_only st' = true /\ Forall2 write_rejected ops rs.
Proof. exact store_read_mode_l. Qed.
Print Assumptions C18_store_read_mode.

(** Every history of read-side invocations -- each cut off at an arbitrary point (a failing
    command) -- leaves genome file, signature file, directory listing and journal as they were,
    emits no write statement, opens only ReadOnlySession sessions and only mode-r handles ... *)
Theorem C18_commands : forall h w w' rs,
  history_ok h = true -> quiet w = true -> run_world w (history_ops h) = (w', rs) ->
  directory_untouched w w' /\ quiet w' = true.
Proof. exact commands_l. Qed.
Print Assumptions C18_commands.

(** ... at every intermediate point of the history, not only at its end ... *)
Theorem C18_commands_every_step : forall h w n,
  history_ok h = true -> quiet w = true ->
  directory_untouched w (fst (run_world w (firstn n (history_ops h)))).
Proof. exact commands_every_step_l. Qed.
Print Assumptions C18_commands_every_step.

(** ... and so does any other interleaving of read-side micro operations. *)
Theorem C18_any_read_side_ops : forall ops w w' rs,
  read_side ops = true -> quiet w = true -> run_world w ops = (w', rs) ->
  directory_untouched w w' /\ quiet w' = true.
Proof. exact world_read_side_l. Qed.
Print Assumptions C18_any_read_side_ops.

(** Contrast 1: the standard read-write session -- add + commit rewrites the file. *)
Theorem C18_plain_session_refuted :
  exists ops, orm_only ops = true /\
    let '(s', rs) := run_session PlainSession true s0 ops in
    s_file s' <> s_file s0 /\ s_log s' <> s_log s0 /\ rs = [ROk; ROk].
Proof. exact plain_session_refuted_l. Qed.
Print Assumptions C18_plain_session_refuted.

(** Contrast 2: a class that only makes commit() raise (real flush inherited): a query after an
    edit emits a statement and creates the journal; committing the transaction object writes. *)
Theorem C18_real_flush_refuted :
  let cls := {| flush_noop := false; commit_raises := true |} in
  (exists ops, orm_only ops = true /\ no_txcommit ops = true /\
     let s' := fst (run_session cls true s0 ops) in
     s_log s' <> [] /\ journal_present s' = true /\ s_file s' = s_file s0) /\
  (exists ops, orm_only ops = true /\
     let '(s', rs) := run_session cls true s0 ops in
     s_file s' <> s_file s0 /\ rs = [ROk; RTypeError; ROk]).
Proof. exact real_flush_refuted_l. Qed.
Print Assumptions C18_real_flush_refuted.

(** Contrast 3: a class that only makes flush a no-op: commit() no longer refuses. *)
Theorem C18_commit_allowed_refuted :
  let cls := {| flush_noop := true; commit_raises := false |} in
  exists ops, orm_only ops = true /\ ~ Forall2 commit_refused ops (snd (run_session cls true s0 ops)).
Proof. exact commit_allowed_refuted_l. Qed.
Print Assumptions C18_commit_allowed_refuted.

(** Boundary of the property (NOT a read-side use): a raw DML statement is no pending change;
    ReadOnlySession does not stop it, and committing the transaction object writes it. *)
Theorem C18_raw_dml_boundary_refuted :
  exists ops, orm_only ops = false /\
    let '(s', rs) := run_session ReadOnlySession true s0 ops in
    s_file s' <> s_file s0 /\ rs = [ROk; RTypeError; ROk].
Proof. exact raw_dml_boundary_refuted_l. Qed.
Print Assumptions C18_raw_dml_boundary_refuted.

(** Contrast 4: a write-capable open mode changes the signature file -- r+ by merely being open,
    r+ with one write for good, w by truncation. *)
Theorem C18_write_mode_store_refuted :
  (exists ops, read_opens ops = false /\ st_file (fst (run_store st0 ops)) <> gs0 /\ ops = [SOpen (Some MRplus)]) /\
  (exists ops, st_file (fst (run_store st0 ops)) <> gs0 /\ ops = [SOpen (Some MRplus); SWrite 0 6; SClose]) /\
  (exists ops, st_file (fst (run_store st0 ops)) <> gs0 /\ ops = [SOpen (Some MW); SClose]).
Proof. exact write_mode_store_refuted_l. Qed.
Print Assumptions C18_write_mode_store_refuted.
