(** C16 -- the distance-matrix command labels and fills every cell correctly.
    [dist_cmd], [jaccarddist_pairwise], [fmt4] are the hand-written model of
    src/gambit/cli/dist.py, src/gambit/metric.py and src/gambit/cluster.py (Model/C16.v);
    [supplied_q], [supplied_r], [spec_table], [spec_square_table], [nearest4], [tie4],
    [parse_fixed4] are the specification (Spec/C16.v).  The distance kernel is an arbitrary
    oracle [d] returning 32-bit patterns. *)
From Coq Require Import ZArith List Bool.
From GV Require Import Model.C16 Spec.C16 Proofs.C16Pairwise Proofs.C16Fmt Proofs.C16Label Proofs.C16.
Import ListNotations.

(** for every way of supplying either side (3 x 4 without --square) the command succeeds exactly
    when each side is supplied in exactly one way and every listed file exists, and then the
    table is: header = reference labels in input order, one row per query in input order, cell
    (i, j) = the four-decimal text of d(q_i, r_j) *)
Theorem C16_cells : forall d p t, in_range d -> p_square p = false ->
  (dist_cmd d p = DOk t <->
   exists Q R, supplied_q p = Some Q /\ supplied_r p = Some R /\
               t = spec_table (fun x y => fmt4_str (d x y)) Q R).
Proof. exact C16_cells_l. Qed.
Print Assumptions C16_cells.

(** the text of a cell: never fails on a finite 32-bit pattern, reads back to the sign and the
    integer N with |N/10^4 - m*2^e| <= 5*10^-5 (denominators cleared), N nearest, even on a tie,
    exact when the value is an integer *)
Theorem C16_fmt4 : forall b s m e, (0 <= b < 4294967296)%Z -> f32_dyadic_of_bits b = Some (s, m, e) ->
  fmt4 b = DOk (fmt4_str b) /\
  parse_fixed4 (fmt4_str b) = Some (s, scaled4 m e) /\
  ((e < 0)%Z -> (2 * Z.abs (scaled4 m e * 2 ^ (- e) - m * 10000) <= 2 ^ (- e))%Z /\
                nearest4 m e (scaled4 m e) /\
                (tie4 m e (scaled4 m e) -> Z.even (scaled4 m e) = true)) /\
  ((0 <= e)%Z -> scaled4 m e = (m * 2 ^ e * 10000)%Z).
Proof. exact C16_fmt4_l. Qed.
Print Assumptions C16_fmt4.

(** the array-filling loop of jaccarddist_pairwise: no slice assignment fails, no cell stays
    uninitialised, cell (a, b) holds 0 on the diagonal and otherwise the value computed for
    (smaller position, larger position) -- for every list of signatures *)
Theorem C16_pairwise_fills : forall d sigs, jaccarddist_pairwise d sigs = DOk (sq_matrix d sigs).
Proof. exact pairwise_correct. Qed.
Print Assumptions C16_pairwise_fills.

(** --square (3 ways of supplying the queries): the table of the queries against themselves;
    it is symmetric with 0.0000 on the diagonal whatever the oracle *)
Theorem C16_square : forall d p t, in_range d -> p_square p = true ->
  (dist_cmd d p = DOk t <->
   exists Q, supplied_q p = Some Q /\ supplied_r p = Some Q /\ t = spec_square_table fmt4_str d Q).
Proof. exact C16_square_l. Qed.
Print Assumptions C16_square.

Theorem C16_square_shape : forall d sigs a b,
  sq_dist d sigs a b = sq_dist d sigs b a /\
  fmt4_str (sq_dist d sigs a a) = [48; 46; 48; 48; 48; 48]%Z.
Proof. exact C16_square_shape_l. Qed.
Print Assumptions C16_square_shape.

(** ... and for an oracle that is symmetric with zero self-distance on the query genomes (C15's
    subject; checked by the harness on the kernel's values) it is what supplying the same
    genomes as both queries and references gives *)
Theorem C16_square_both_sides : forall d p Q, in_range d -> p_square p = true ->
  supplied_q p = Some Q -> supplied_r p = Some Q -> symmetric_on d (map snd Q) ->
  dist_cmd d p = dist_cmd d (both_sides p).
Proof. exact square_equals_both_sides. Qed.
Print Assumptions C16_square_both_sides.

(** labels of genome files: for [dir/]stem.ext[.gz] with a FASTA extension the label is the stem
    (whatever the stem contains, other than '/'); a name without recognised extension is its own label *)
Theorem C16_label : forall pre stem ext gz, dir_prefix pre -> ~ In 47%Z stem ->
  In ext FASTA_EXTENSIONS -> In gz [[]; [46; 103; 122]]%Z ->
  get_file_id (pre ++ stem ++ ext ++ gz) = stem.
Proof. exact C16_label_l. Qed.
Print Assumptions C16_label.

Theorem C16_label_plain : forall pre name, dir_prefix pre -> ~ In 47%Z name ->
  (forall e, In e (GZIP_EXTENSIONS ++ FASTA_EXTENSIONS) -> ends_with name e = false) ->
  get_file_id (pre ++ name) = name.
Proof. exact C16_label_plain_l. Qed.
Print Assumptions C16_label_plain.
