(** C03 -- default classification follows the closest genome's lineage and thresholds.

    Vocabulary (Model/C03Classify.v, Spec/C03Spec.v): a taxon object is the list "itself,
    parent, ..., root" ([lineage]; [[]] = None); a reference genome is the lineage of its
    taxon; distances / thresholds are the exact values scaled by a common 2^k (integers; see the
    last three theorems).
    [classify] models classify(strict=False) + get_result_item with the repaired
    [GenomeMatch.next_taxon] (repo_fixes/C03.diff), [classify_orig] the code as found.
    A result [r] records index and distance of the closest match, the predicted taxon, the
    index of the primary match, the next taxon and the report taxon.
    All theorems hold for every list of lineages (any depth, thresholds absent or not
    monotone, any report flags, genomes on internal nodes = any lineage) and every
    distance vector. *)
From Coq Require Import ZArith List Bool.
From Coq Require Import Reals.
From Flocq Require Import Core.Core IEEE754.BinarySingleNaN.
From GV Require Import Base.F32 Model.C03Classify Spec.C03Spec Spec.C03Float Proofs.C03 Proofs.C03Float.
Import ListNotations.
Open Scope Z_scope.

(** a non-empty distance vector, at least as many genomes, every genome has a taxon:
    a result is produced (in particular the loop fuel of the model never runs out) *)
Theorem C03_total : forall (gs : list lineage) ds, ds <> [] -> (length ds <= length gs)%nat ->
  (forall g : lineage, In g gs -> g <> []) -> exists r, classify gs ds = COk r.
Proof. exact C03_total_l. Qed.
Print Assumptions C03_total.

(** the closest match is a reference genome at the minimum distance (the first such) *)
Theorem C03_closest_is_min : forall (gs : list lineage) ds r, classify gs ds = COk r ->
  nth_error ds (r_closest r) = Some (r_dist r) /\
  (exists g, nth_error gs (r_closest r) = Some g /\ g <> []) /\
  (forall x, In x ds -> r_dist r <= x) /\
  (forall j x, (j < r_closest r)%nat -> nth_error ds j = Some x -> r_dist r < x).
Proof. exact C03_closest_is_min_l. Qed.
Print Assumptions C03_closest_is_min.

(** the lineage [g] of the closest genome splits as [b ++ predicted-with-its-ancestors]: no
    taxon of [b] carries a threshold >= the distance, the predicted taxon does; nothing is
    predicted exactly when no taxon of [g] does ([r_predicted r = []] forces [b = g]) *)
Theorem C03_predicted : forall (gs : list lineage) ds r (g : lineage), classify gs ds = COk r ->
  nth_error gs (r_closest r) = Some g ->
  exists b, g = b ++ r_predicted r /\ none_within (r_dist r) b /\
            match r_predicted r with [] => True | p :: _ => within (r_dist r) p = true end.
Proof. exact C03_predicted_l. Qed.
Print Assumptions C03_predicted.

(** ... and that split is the only one with these two properties *)
Theorem C03_prediction_unique : forall d (g b s : lineage),
  g = b ++ s -> none_within d b ->
  match s with [] => True | p :: _ => within d p = true end ->
  b = below d g /\ s = matching_taxon d g.
Proof. exact C03_prediction_unique_l. Qed.
Print Assumptions C03_prediction_unique.

(** the primary match is the closest match exactly when a prediction is made *)
Theorem C03_primary_iff_predicted : forall (gs : list lineage) ds r, classify gs ds = COk r ->
  (r_predicted r = [] -> r_primary r = None) /\
  (r_predicted r <> [] -> r_primary r = Some (r_closest r)).
Proof. exact C03_primary_l. Qed.
Print Assumptions C03_primary_iff_predicted.

(** the next taxon (repaired walk): see [next_rule] in Spec/C03Spec.v.  Consequences of the
    shape of the statement: [b = []] (prediction = the genome's own taxon) forces
    [r_next r = []]; [r_predicted r = []] forces [b = g], i.e. the topmost threshold-bearing
    taxon of the lineage; the next taxon always carries a threshold *)
Theorem C03_next : next_rule classify.
Proof. exact C03_next_l. Qed.
Print Assumptions C03_next.

(** the walk as found in the repository does not satisfy the rule ... *)
Theorem C03_next_orig_refuted : ~ next_rule classify_orig.
Proof. exact C03_next_orig_refuted_l. Qed.
Print Assumptions C03_next_orig_refuted.

(** ... witness (DESIGN.md 6-a): lineage [L (no threshold); P (threshold 5)], distance 3:
    the reported next taxon is L, which carries no threshold and lies directly below the
    prediction P *)
Theorem C03_next_orig_witness_refuted : exists gs ds r n up,
  classify_orig gs ds = COk r /\ r_next r = n :: up /\ has_thr n = false /\ r_predicted r = up.
Proof. exact C03_next_orig_witness_l. Qed.
Print Assumptions C03_next_orig_witness_refuted.

(** ... and coincides with the repaired one whenever every genome's own taxon has a threshold
    (the situation the code comment "Leaf should always have threshold" assumes) *)
Theorem C03_next_orig_agrees : forall (gs : list lineage) ds,
  (forall t up, In (t :: up) gs -> has_thr t = true) ->
  classify_orig gs ds = classify gs ds.
Proof. exact C03_next_orig_agrees_l. Qed.
Print Assumptions C03_next_orig_agrees.

(** the user-facing taxon is the first taxon at or above the prediction flagged reportable
    (none when nothing is predicted or no such taxon exists) *)
Theorem C03_report : forall (gs : list lineage) ds r, classify gs ds = COk r ->
  exists a, r_predicted r = a ++ r_report r /\ none_report a /\
            match r_report r with [] => True | q :: _ => t_report q = true end.
Proof. exact C03_report_l. Qed.
Print Assumptions C03_report.

(** for a fixed genome, a larger distance keeps the prediction, replaces it by one of its
    ancestors, or removes it ([r_predicted r'] is a suffix of [r_predicted r]); likewise
    for the user-facing taxon *)
Theorem C03_monotone : forall i (g : lineage) d d' r r', d <= d' ->
  result_from next_taxon i g d = COk r -> result_from next_taxon i g d' = COk r' ->
  (exists pre, r_predicted r = pre ++ r_predicted r') /\
  (exists pre, r_report r = pre ++ r_report r').
Proof. exact C03_monotone_l. Qed.
Print Assumptions C03_monotone.

(** the executable oracle [check] used by the harness accepts an observation exactly when
    its closest genome is at the minimum distance and everything else is what the model
    derives from that genome and distance *)
Theorem C03_check_iff : forall (gs : list lineage) ds o,
  check gs ds o = true <->
  exists g d r, nth_error gs (o_closest o) = Some g /\ nth_error ds (o_closest o) = Some d /\
                (forall x, In x ds -> d <= x) /\
                result_from next_taxon (o_closest o) g d = COk r /\ o = observe r.
Proof. exact C03_check_iff_l. Qed.
Print Assumptions C03_check_iff.

Theorem C03_model_checks : forall (gs : list lineage) ds r,
  classify gs ds = COk r -> check gs ds (observe r) = true.
Proof. exact C03_model_checks_l. Qed.
Print Assumptions C03_model_checks.

(** Numbers.  The code compares a NumPy float32 distance with a Python float threshold; NumPy 1.x
    widens the float32 (exactly) and compares in binary64.  That comparison, on the Flocq
    decoding of the two bit patterns (what op 4 of Entry/E03.v computes), is the comparison of
    the two real values ... *)
Theorem C03_float_compare_exact : forall (d : f32) (t : f64),
  is_finite d = true -> is_finite t = true ->
  f64_le (f64_of_f32 d) t = Rle_bool (B2R d) (B2R t).
Proof. exact C03_float_compare_exact_l. Qed.
Print Assumptions C03_float_compare_exact.

(** ... and therefore the integer comparison [<=?] the model performs on the values scaled by
    any 2^k under which both are integers; likewise [<] between two float32 distances (argmin) *)
Theorem C03_threshold_compare_scaled : forall k (d : f32) (t : f64),
  is_finite d = true -> is_finite t = true -> fits k d -> fits k t ->
  f64_le (f64_of_f32 d) t = (scaled k d <=? scaled k t).
Proof. exact C03_threshold_compare_scaled_l. Qed.
Print Assumptions C03_threshold_compare_scaled.

Theorem C03_distance_compare_scaled : forall k (x y : f32),
  is_finite x = true -> is_finite y = true -> fits k x -> fits k y ->
  f32_lt x y = (scaled k x <? scaled k y).
Proof. exact C03_distance_compare_scaled_l. Qed.
Print Assumptions C03_distance_compare_scaled.
