(** C06 -- a genome's signature depends only on its biological content.
    [signature_spec] is C01's specification set (Spec/C01.v); [calc_signature] the model of
    src/gambit/sigs/calc.py (Model/C01.v, proved equal to the specification in Props/C01.v);
    [parse_fasta], [render_fasta] model TextIOWrapper's universal newlines + Biopython's
    FastaIterator and a FASTA writer (Model/C06Fasta.v); [open_auto] is gambit.util.io._open_auto
    with the decompressor abstract (Model/C06Gzip.v); [file_signature] is calc_file_signature
    (Model/C06.v). *)
From Coq Require Import ZArith List Bool Permutation.
From GV Require Import Base.CSem Spec.Kmers Spec.C01 Model.C01 Model.C06Fasta Model.C06Gzip Model.C06
  Proofs.C01Strand Proofs.C06Sets Proofs.C06Fasta Proofs.C06Gzip Proofs.C06.
Import ListNotations.
Open Scope Z_scope.

(** reverse-complementing any contig does not change the signature *)
Theorem C06_revcomp_contig : forall k p s r,
  signature_spec k p (spec_revcomp s :: r) = signature_spec k p (s :: r).
Proof. exact C06_revcomp_contig_l. Qed.
Print Assumptions C06_revcomp_contig.

(** reordering the contigs does not change it *)
Theorem C06_permutation : forall k p seqs seqs',
  Permutation seqs seqs' -> signature_spec k p seqs' = signature_spec k p seqs.
Proof. exact C06_permutation_l. Qed.
Print Assumptions C06_permutation.

(** letter case does not change it *)
Theorem C06_case : forall k p seqs seqs',
  map (map upper) seqs' = map (map upper) seqs -> signature_spec k p seqs' = signature_spec k p seqs.
Proof. exact C06_case_l. Qed.
Print Assumptions C06_case.

(** it is the union of the signatures of the individual contigs ... *)
Theorem C06_union : forall k p seqs v,
  In v (signature_spec k p seqs) <-> exists s, In s seqs /\ In v (signature_spec k p [s]).
Proof. exact C06_union_l. Qed.
Print Assumptions C06_union.

(** ... in array form: the signature of a concatenation of contig lists is the merge of the parts *)
Theorem C06_union_app : forall k p a b,
  signature_spec k p (a ++ b) = sort_dedup (signature_spec k p a ++ signature_spec k p b).
Proof. exact C06_union_app_l. Qed.
Print Assumptions C06_union_app.

(** ... so every k-mer (with its prefix) lies inside one contig or its reverse complement: no k-mer
    is formed across a contig boundary *)
Theorem C06_no_spanning : forall k p seqs v,
  In v (signature_spec k p seqs) <->
  exists s t q, In s seqs /\ (t = s \/ t = spec_revcomp s) /\
    (q + length p + k <= length t)%nat /\
    map upper (slice t q (length p)) = p /\
    spec_encode (slice t (q + length p) k) = Some v.
Proof. exact C06_no_spanning_l. Qed.
Print Assumptions C06_no_spanning.

(** all orientation choices x case patterns x permutations at once, for the model of calc_signature
    with either accumulator: same result, and it is the specification set *)
Theorem C06_calc_signature : forall dense dense' k p seqs seqs',
  (1 <= k)%nat -> p <> [] -> acgt p -> Forall bytes seqs -> Forall bytes seqs' ->
  same_content seqs seqs' ->
  calc_signature dense' (Z.of_nat k) p seqs' = calc_signature dense (Z.of_nat k) p seqs /\
  calc_signature dense (Z.of_nat k) p seqs = Ok (signature_spec k p seqs, dtype_spec k).
Proof. exact C06_calc_signature_l. Qed.
Print Assumptions C06_calc_signature.

(** a FASTA file written at any width >= 1, LF or CRLF, with or without final newline parses back
    to the contigs written (titles up to trailing white space, as FastaIterator strips them) *)
Theorem C06_wrapping : forall w crlf fnl contigs,
  (1 <= w)%nat -> forallb wf_contig contigs = true ->
  parse_fasta (render_fasta w crlf fnl contigs) = Ok (map (fun c => (rstrip (fst c), snd c)) contigs).
Proof. exact C06_wrapping_l. Qed.
Print Assumptions C06_wrapping.

(** compression is recognised from the content (the model function has no name argument) *)
Theorem C06_gzip : forall (gzip : list Z -> list Z) (gunzip : list Z -> option (list Z)),
  (forall x, gunzip (gzip x) = Some x) -> (forall x, is_gzip_magic (gzip x) = true) ->
  forall x, open_auto gunzip (gzip x) = Some x.
Proof. exact C06_gzip_l. Qed.
Print Assumptions C06_gzip.

Theorem C06_plain : forall (gunzip : list Z -> option (list Z)) x,
  is_gzip_magic x = false -> open_auto gunzip x = Some x.
Proof. exact C06_plain_l. Qed.
Print Assumptions C06_plain.

(** end to end: whatever way the genome [contigs] is written to a file -- as [contigs'] with the same
    content (per-contig orientation, case, order), any width, line ending, final newline, gzip or
    not -- the model of calc_file_signature returns the specification set of [contigs] *)
Theorem C06_file : forall (gzip : list Z -> list Z) (gunzip : list Z -> option (list Z)),
  (forall x, gunzip (gzip x) = Some x) -> (forall x, is_gzip_magic (gzip x) = true) ->
  forall dense k p (contigs contigs' : list record) w crlf fnl gz,
  (1 <= k)%nat -> p <> [] -> acgt p -> (1 <= w)%nat ->
  forallb wf_contig contigs' = true ->
  Forall bytes (map snd contigs) -> Forall bytes (map snd contigs') ->
  same_content (map snd contigs) (map snd contigs') ->
  file_signature gunzip dense (Z.of_nat k) p (pack gzip gz (render_fasta w crlf fnl contigs')) =
    FOk (signature_spec k p (map snd contigs), dtype_spec k).
Proof. exact C06_file_l. Qed.
Print Assumptions C06_file.
