(** C12 -- signature files round-trip exactly and foreign files are refused.
    Model/Store.v is the store protocol src/gambit/sigs/hdf5.py speaks to h5py ([create] = the calls of
    HDF5Signatures.create in the order of repo_fixes/C19-marker-last.diff: the format marker is written LAST,
    [create_v0] = the order before that fix: marker first; [load] = HDF5Signatures.__init__, [load_file] =
    load_signatures_hdf5 with repo_fixes/C12.diff applied, [load_file_cur] = the function before that fix);
    [wf_coll], [loaded_of], [foreign], [sub_sigs] are defined in Proofs/C12.v. *)
From Coq Require Import ZArith List Bool.
From GV Require Import Model.Store Proofs.C12.
Import ListNotations.
Open Scope Z_scope.

(** any k >= 1, ACGT prefix, any integer type, any signatures (empty ones, all empty, none), int or
    string ids, any storable metadata, either write path: the write succeeds and the file loads as
    exactly the parameters, metadata, ids, type, and -- by indexing -- signatures that were written *)
Theorem C12_roundtrip : forall p c, wf_coll c = true ->
  exists st, create p c = SOk st /\ load_file (DHdf st) = SOk (loaded_of c) /\
             load_file_cur (DHdf st) = SOk (loaded_of c) /\ decode (loaded_of c) = SOk c.(c_sigs).
Proof. exact C12_roundtrip_l. Qed.
Print Assumptions C12_roundtrip.

(** the call order before repo_fixes/C19-marker-last.diff (marker first) round-trips too and loads identically:
    the two orders differ only in what an INTERRUPTED write leaves behind (C19) *)
Theorem C12_roundtrip_v0 : forall p c, wf_coll c = true ->
  exists st, create_v0 p c = SOk st /\ load_file (DHdf st) = SOk (loaded_of c) /\
             load_file_cur (DHdf st) = SOk (loaded_of c) /\
             sbind (create_v0 p c) load = sbind (create p c) load.
Proof. exact C12_roundtrip_v0_l. Qed.
Print Assumptions C12_roundtrip_v0.

(** the whole-array and the per-signature write path produce files that load identically *)
Theorem C12_paths_agree : forall c, wf_coll c = true ->
  sbind (create Whole c) load = sbind (create PerSig c) load /\
  sbind (create Whole c) load = SOk (loaded_of c).
Proof. exact C12_paths_agree_l. Qed.
Print Assumptions C12_paths_agree.

(** every integer index and every index list of the loaded object returns the original signatures *)
Theorem C12_index : forall c i, (i < length c.(c_sigs))%nat ->
  getitem_int (loaded_of c) (Z.of_nat i) = SOk (nth i c.(c_sigs) []).
Proof. exact getitem_int_loaded. Qed.
Print Assumptions C12_index.

Theorem C12_index_list : forall c idx, Forall (fun i => (i < length c.(c_sigs))%nat) idx ->
  getitem_list (loaded_of c) (map Z.of_nat idx) = SOk (map (fun i => nth i c.(c_sigs) []) idx).
Proof. exact getitem_list_loaded. Qed.
Print Assumptions C12_index_list.

(** a contiguous slice of the loaded object (the values/bounds materialisation of base.py:106-113)
    is the loaded object of the corresponding sub-list, with the same parameters and integer type *)
Theorem C12_slice : forall c start stop, (start < stop <= length c.(c_sigs))%nat ->
  getitem_slice (loaded_of c) (Z.of_nat start) (Z.of_nat stop) =
  SOk (loaded_of {| c_k := c.(c_k); c_prefix := c.(c_prefix); c_ty := c.(c_ty);
                    c_sigs := sub_sigs c.(c_sigs) start stop; c_ids := c.(c_ids); c_meta := c.(c_meta) |}).
Proof. exact getitem_slice_loaded. Qed.
Print Assumptions C12_slice.

(** [extra] goes through json.dumps / json.loads, which enter as parameters with their round-trip law *)
Theorem C12_extra : forall (J : Type) (dumps : J -> str) (loads : str -> option J),
  (forall j, loads (dumps j) = Some j) ->
  forall p c e, wf_coll (with_extra J dumps c e) = true ->
  exists st, create p (with_extra J dumps c e) = SOk st /\
             sbind (load_file (DHdf st)) (read_extra J loads) = SOk e.
Proof. exact C12_extra_l. Qed.
Print Assumptions C12_extra.

(** refusal (repaired reader): whatever the bytes of an unparsable file, and whatever an HDF5 file
    without the format marker contains, the answer is SignaturesFileError *)
Theorem C12_refuse : forall d, foreign d = true -> load_file d = SErr ESigFile.
Proof. exact C12_refuse_l. Qed.
Print Assumptions C12_refuse.

(** only files carrying the marker with the current version are ever loaded *)
Theorem C12_accept : forall d l, load_file d = SOk l ->
  exists st, d = DHdf st /\ aget 0 st.(attrs) = Some (AInt 1) /\ load st = SOk l.
Proof. exact C12_accept_l. Qed.
Print Assumptions C12_accept.

(** the reader as it is in the repository: refuted (DESIGN.md 6-h) ... *)
Theorem C12_refuse_current_refuted :
  (exists d, foreign d = true /\ load_file_cur d = SErr EOS) /\
  (exists d, foreign d = true /\ load_file_cur d = SErr EKey).
Proof. exact C12_refuse_current_refuted_l. Qed.
Print Assumptions C12_refuse_current_refuted.

(** ... exactly on unparsable files that begin with the 8 magic bytes (OSError when the file cannot be
    opened, KeyError when it opens but its root group cannot be read) *)
Theorem C12_refuse_current : forall d, foreign d = true ->
  load_file_cur d = match d with
                    | DRaw b => if list_eqb (firstn 8 b) magic then SErr EOS else SErr ESigFile
                    | DBadRoot b => if list_eqb (firstn 8 b) magic then SErr EKey else SErr ESigFile
                    | DHdf _ => SErr ESigFile
                    end.
Proof. exact C12_refuse_current_l. Qed.
Print Assumptions C12_refuse_current.
