(** C17 -- the tree command outputs the UPGMA dendrogram of the pairwise distances.

    [zlinkage_to_tree] is the exact-arithmetic instance of the model of
    src/gambit/cluster.py [linkage_to_bio_tree] (Model/C17.v); [valid_linkage] is the shape of a
    SciPy linkage matrix (every row joins two different, existing, not yet joined clusters; sizes
    add; n - 1 rows); [merge_height] is defined on the clusters of the linkage alone, without any
    tree; [upgma_step_ok] is the per-row test of the run validator the harness applies to the
    matrix returned by [hclust].  All statements hold for linkages of any size. *)
From Coq Require Import ZArith List Bool Permutation.
From GV Require Import Model.C17 Model.C17Labels Proofs.C17 Proofs.C17Labels.
Import ListNotations.

(** rooted binary tree (binary by construction of [tree]: an internal node has exactly two
    children), n - 1 internal nodes, leaves = the n observations, each exactly once *)
Theorem C17_tree_shape : forall n (rows : list zrow), valid_linkage n rows = true ->
  exists t, zlinkage_to_tree n rows = TOk t /\ Permutation (leaves t) (seq 0 n) /\
            internal_nodes t = length rows.
Proof. exact C17_tree_shape_l. Qed.
Print Assumptions C17_tree_shape.

(** every leaf is at distance (height of the last row) from the root *)
Theorem C17_ultrametric : forall n (rows : list zrow) t r, valid_linkage n rows = true ->
  zlinkage_to_tree n rows = TOk t ->
  rows <> [] -> nth_error rows (length rows - 1) = Some r ->
  forall i, (i < n)%nat -> depth t i = Some (rh r).
Proof. exact C17_ultrametric_l. Qed.
Print Assumptions C17_ultrametric.

(** no negative branch length when no cluster is lower than a cluster it joins *)
Theorem C17_nonneg : forall n (rows : list zrow) t, valid_linkage n rows = true ->
  heights_monotone n rows = true -> zlinkage_to_tree n rows = TOk t ->
  Forall (fun b => (0 <= b)%Z) (branches t).
Proof. exact C17_nonneg_l. Qed.
Print Assumptions C17_nonneg.

(** rows sorted by height (what SciPy returns) have monotone heights *)
Theorem C17_sorted_monotone : forall n (rows : list zrow),
  valid_linkage n rows = true -> nondecreasing rows = true -> heights_monotone n rows = true.
Proof. exact C17_sorted_monotone_l. Qed.
Print Assumptions C17_sorted_monotone.

(** path length between two leaves = twice the height at which the linkage merges them *)
Theorem C17_path : forall n (rows : list zrow) t, valid_linkage n rows = true ->
  zlinkage_to_tree n rows = TOk t ->
  forall i j, (i < n)%nat -> (j < n)%nat -> i <> j ->
  exists h, merge_height n rows i j = Some h /\ path t i j = Some (2 * h)%Z.
Proof. exact C17_path_l. Qed.
Print Assumptions C17_path.

(** [merge_height] is the height of the first row whose cluster contains both observations *)
Theorem C17_merge_height_meaning : forall n (rows : list zrow) i j h,
  merge_height n rows i j = Some h ->
  exists k r, nth_error rows k = Some r /\ rh r = h /\
    (In i (members n rows (n + k)) /\ In j (members n rows (n + k))) /\
    forall k', (k' < k)%nat -> ~ (In i (members n rows (n + k')) /\ In j (members n rows (n + k'))).
Proof. exact C17_merge_height_meaning_l. Qed.
Print Assumptions C17_merge_height_meaning.

(** a row accepted by the run validator has the average distance of its two clusters as height
    and joins a pair of live clusters of minimum average distance (exactly for eps = 0) *)
Theorem C17_upgma_step_meaning : forall dmat eps tab used (r : zrow),
  upgma_step_ok dmat eps tab used r = true ->
  let A := nth (rl r) tab [] in
  let B := nth (rr r) tab [] in
  (Z.abs (rh r * (zlen A * zlen B) - sum_dist dmat A B) <= eps * (zlen A * zlen B))%Z /\
  forall c d, alive used c -> alive used d -> (c < d)%nat ->
    let C := nth c tab [] in
    let D := nth d tab [] in
    (sum_dist dmat A B * (zlen C * zlen D)
     <= sum_dist dmat C D * (zlen A * zlen B) + eps * (zlen A * zlen B * (zlen C * zlen D)))%Z.
Proof. exact C17_upgma_step_meaning_l. Qed.
Print Assumptions C17_upgma_step_meaning.

(** -- labels.  [write_label]: Biopython's rule for a leaf name, [read_label]: the harness reader's
    (standard Newick); 58 is the colon that follows every label.  A str label comes back from
    the text unchanged, whatever characters it contains. *)
Theorem C17_label_roundtrip : forall s r,
  exists w, write_label (IdStr s) = Some w /\ read_label (w ++ 58 :: r)%Z = Some (s, 58 :: r)%Z.
Proof. exact C17_label_roundtrip_l. Qed.
Print Assumptions C17_label_roundtrip.

(** the command as found ([labels = sigs.ids]) fails on a signature file with integer ids: the
    writer raises TypeError for 3 and writes the id 0 as the empty label (finding C17-a) *)
Theorem C17_labels_orig_refuted :
  exists ids, (exists x, In x (tree_labels_orig ids) /\ write_label x = None) /\
              (exists x, In x (tree_labels_orig ids) /\ x = IdInt 0 /\ write_label x = Some []).
Proof. exact C17_labels_orig_refuted_l. Qed.
Print Assumptions C17_labels_orig_refuted.

(** the repaired command ([labels = [str(id_) for id_ in sigs.ids]], repo_fixes/C17.diff): the
    labels are the str of the ids, in order, and each survives the text *)
Theorem C17_labels_fixed : forall (pystr : pyid -> list Z) ids,
  map (fun x => match x with IdStr s => Some s | IdInt _ => None end) (tree_labels_fixed pystr ids)
    = map (fun x => Some (pystr x)) ids /\
  forall x, In x (tree_labels_fixed pystr ids) ->
    exists s, x = IdStr s /\
      forall r, exists w, write_label x = Some w /\ read_label (w ++ 58 :: r)%Z = Some (s, 58 :: r)%Z.
Proof. exact C17_labels_fixed_l. Qed.
Print Assumptions C17_labels_fixed.
