(** C19 -- an interrupted signature-file write never yields a loadable wrong file.
    [dump_ops] (Model/Store.v) is the sequence of storage-library calls of one write in the repaired order
    (repo_fixes/C19-marker-last.diff: the format marker is the LAST call); [dump_ops_v0] is the order of the
    code as found (marker first).  The writer may die between any two calls, in two ways:
      killed  ([Crashed done]): what then is on disk is decided by libhdf5/the OS and enters as the [policy] of
              [crash_disk]: [AtClose] = what is on disk before close ([junk]) cannot be parsed (what the fault-enumeration
              harness observes for the repository's writer), [Eager] = every completed call is on the disk, [FlushedAt k] =
              the first k completed calls are (a flush after the k-th call and none later) -- every flush schedule;
      raised  ([Raised done]): KeyboardInterrupt, SystemExit, MemoryError, an I/O error of one call, an exception of
              the signature source -- the exception unwinds through [with h5.File(path, 'w')], h5py closes the file
              cleanly, the file is the well-formed HDF5 file holding exactly the calls done ([raised_disk]).
    [is_prefix], [strict_prefix], [outcome], [outcome_of], [all_calls_done], [disk_after], [disk_after_v0],
    [safe_part_v0] are defined in Proofs/C19.v, [disk_after_over] in Proofs/C19Over.v. *)
From Coq Require Import ZArith List Bool.
From GV Require Import Model.Store Model.StoreOver Proofs.C12 Proofs.C19 Proofs.C19Over.
Import ListNotations.
Open Scope Z_scope.

(** ---- the repaired order: safe whatever reaches the disk ------------------------------------------ *)

(** with the marker last, EVERY strict prefix of the calls of every write of every collection leaves a file
    that is refused, under EVERY durability policy ([forall pol]: AtClose, Eager, FlushedAt k for every k) -- in particular
    when every call was flushed
    (SignaturesFileError by the repaired reader; OSError, KeyError or SignaturesFileError by the reader as found) *)
Theorem C19_marker_last_any_policy : forall pol p c junk done, unparsable junk = true -> strict_prefix done (dump_ops p c) ->
  load_file (crash_disk pol junk done) = SErr ESigFile /\
  (load_file_cur (crash_disk pol junk done) = SErr EOS \/
   load_file_cur (crash_disk pol junk done) = SErr EKey \/
   load_file_cur (crash_disk pol junk done) = SErr ESigFile).
Proof. exact C19_marker_last_any_policy_l. Qed.
Print Assumptions C19_marker_last_any_policy.

(** the same in the weaker form "loading fails with an error", for both readers *)
Theorem C19_marker_last_any_policy_ex : forall pol p c junk done, unparsable junk = true -> strict_prefix done (dump_ops p c) ->
  (exists e, load_file (crash_disk pol junk done) = SErr e) /\
  (exists e, load_file_cur (crash_disk pol junk done) = SErr e).
Proof. exact C19_marker_last_any_policy_ex_l. Qed.
Print Assumptions C19_marker_last_any_policy_ex.

(** death by an exception at any point before the last call: the calls done so far ran, the file left behind IS a
    well-formed HDF5 file holding them (clean close), and both readers refuse it with SignaturesFileError *)
Theorem C19_exception_death : forall p c done, wf_coll c = true -> strict_prefix done (dump_ops p c) ->
  exists st, run done empty_store = SOk st /\
             disk_after Eager (DRaw []) p c (Raised done) = SOk (DHdf st) /\
             load_file (DHdf st) = SErr ESigFile /\ load_file_cur (DHdf st) = SErr ESigFile.
Proof. exact C19_exception_death_l. Qed.
Print Assumptions C19_exception_death.

(** ... for any collection (no well-formedness hypothesis): whenever the calls [done] ran at all *)
Theorem C19_exception_death_any : forall p c done d, strict_prefix done (dump_ops p c) ->
  raised_disk done = SOk d -> load_file d = SErr ESigFile /\ load_file_cur d = SErr ESigFile.
Proof. exact C19_exception_death_any_l. Qed.
Print Assumptions C19_exception_death_any.

(** a file that loads after ANY outcome (killed under any policy, raised, completed) comes from a write that got
    through all its calls and loads as exactly what was written *)
Theorem C19_complete_any_policy : forall pol p c junk o d l, wf_coll c = true -> unparsable junk = true ->
  outcome_of p c o -> disk_after pol junk p c o = SOk d ->
  (load_file d = SOk l \/ load_file_cur d = SOk l) ->
  all_calls_done p c o /\ l = loaded_of c /\ decode l = SOk c.(c_sigs).
Proof. exact C19_complete_any_policy_l. Qed.
Print Assumptions C19_complete_any_policy.

(** ---- policy AtClose (what the harness observes for a killed writer) --------------------------- *)

(** under AtClose every crash point (including after the last call, before close) leaves a file that is refused *)
Theorem C19_atclose : forall p c junk done, unparsable junk = true -> is_prefix done (dump_ops p c) ->
  load_file (crash_disk AtClose junk done) = SErr ESigFile /\
  (load_file_cur (crash_disk AtClose junk done) = SErr EOS \/
   load_file_cur (crash_disk AtClose junk done) = SErr EKey \/
   load_file_cur (crash_disk AtClose junk done) = SErr ESigFile).
Proof. exact C19_atclose_l. Qed.
Print Assumptions C19_atclose.

(** under AtClose a file that loads comes from a completed write (or from a writer that raised after its last
    call) and loads as what was written *)
Theorem C19_complete : forall p c junk o d l, wf_coll c = true -> unparsable junk = true -> outcome_of p c o ->
  disk_after AtClose junk p c o = SOk d ->
  (load_file d = SOk l \/ load_file_cur d = SOk l) ->
  (o = Completed \/ o = Raised (dump_ops p c)) /\ l = loaded_of c /\ decode l = SOk c.(c_sigs).
Proof. exact C19_complete_l. Qed.
Print Assumptions C19_complete.

(** ---- the order as found (marker first, [dump_ops_v0]) ----------------------------------------- *)

(** a KILLED writer under AtClose is refused whatever the order of the calls *)
Theorem C19_marker_first_atclose : forall p c junk done, unparsable junk = true -> is_prefix done (dump_ops_v0 p c) ->
  load_file (crash_disk AtClose junk done) = SErr ESigFile /\
  (load_file_cur (crash_disk AtClose junk done) = SErr EOS \/
   load_file_cur (crash_disk AtClose junk done) = SErr EKey \/
   load_file_cur (crash_disk AtClose junk done) = SErr ESigFile).
Proof. exact C19_marker_first_atclose_l. Qed.
Print Assumptions C19_marker_first_atclose.

(** THE DEFECT of the code as found: the writer raises before the last per-signature write, the context manager
    closes the file, and the file LOADS (both readers) as a collection with a zero-filled signature *)
Theorem C19_marker_first_raised_refuted :
  exists p c done d l,
    wf_coll c = true /\ strict_prefix done (dump_ops_v0 p c) /\
    disk_after_v0 AtClose (DRaw []) p c (Raised done) = SOk d /\
    load_file d = SOk l /\ load_file_cur d = SOk l /\
    decode l = SOk [[1; 5]; [0]] /\ decode l <> SOk c.(c_sigs).
Proof. exact C19_marker_first_raised_refuted_l. Qed.
Print Assumptions C19_marker_first_raised_refuted.

(** the same for a killed writer whose calls were all flushed *)
Theorem C19_marker_first_eager_refuted :
  exists p c junk done l,
    wf_coll c = true /\ strict_prefix done (dump_ops_v0 p c) /\
    load_file (crash_disk Eager junk done) = SOk l /\
    decode l = SOk [[1; 5]; [0]] /\ decode l <> SOk c.(c_sigs).
Proof. exact C19_marker_first_eager_refuted_l. Qed.
Print Assumptions C19_marker_first_eager_refuted.

(** the unsafe window of the order as found is exactly "after the values dataset was created" of the per-signature
    path: before it, and for every death point of the whole-array path, the file is refused even under Eager *)
Theorem C19_marker_first_eager_window : forall p c junk done, unparsable junk = true -> is_prefix done (safe_part_v0 p c) ->
  exists e, load_file (crash_disk Eager junk done) = SErr e.
Proof. exact C19_marker_first_eager_window_l. Qed.
Print Assumptions C19_marker_first_eager_window.

Theorem C19_marker_first_eager_whole : forall c junk done, unparsable junk = true -> strict_prefix done (dump_ops_v0 Whole c) ->
  exists e, load_file (crash_disk Eager junk done) = SErr e.
Proof. exact C19_marker_first_eager_whole_l. Qed.
Print Assumptions C19_marker_first_eager_whole.

(** ---- the output path already holds a file (Model/StoreOver.v) ---------------------------------- *)

(** the repository's writer opens the path with mode w (truncate): once it has opened the path, every
    crash point of every write leaves a file that is refused, WHATEVER the path held before ([old]: a
    complete signature file of another or of the same collection, a truncated one, any other file) *)
Theorem C19_overwrite_truncate : forall old p c junk done, unparsable junk = true -> is_prefix done (dump_ops p c) ->
  load_file (over_disk Truncate AtClose old junk true done) = SErr ESigFile /\
  (load_file_cur (over_disk Truncate AtClose old junk true done) = SErr EOS \/
   load_file_cur (over_disk Truncate AtClose old junk true done) = SErr EKey \/
   load_file_cur (over_disk Truncate AtClose old junk true done) = SErr ESigFile).
Proof. exact C19_overwrite_truncate_l. Qed.
Print Assumptions C19_overwrite_truncate.

(** ... under every durability policy at every point before the last call (marker last) *)
Theorem C19_overwrite_truncate_any_policy : forall pol old p c junk done, unparsable junk = true -> strict_prefix done (dump_ops p c) ->
  load_file (over_disk Truncate pol old junk true done) = SErr ESigFile /\
  (load_file_cur (over_disk Truncate pol old junk true done) = SErr EOS \/
   load_file_cur (over_disk Truncate pol old junk true done) = SErr EKey \/
   load_file_cur (over_disk Truncate pol old junk true done) = SErr ESigFile).
Proof. exact C19_overwrite_truncate_any_policy_l. Qed.
Print Assumptions C19_overwrite_truncate_any_policy.

(** ... and a file that loads after the writer opened the path (killed under any policy, raised, completed) comes from
    a write that got through all its calls and is the requested collection, never the old one *)
Theorem C19_overwrite_complete : forall pol old p c junk o d l, wf_coll c = true -> unparsable junk = true -> outcome_of p c o ->
  disk_after_over pol old junk p c o = SOk d ->
  (load_file d = SOk l \/ load_file_cur d = SOk l) ->
  all_calls_done p c o /\ l = loaded_of c /\ decode l = SOk c.(c_sigs).
Proof. exact C19_overwrite_complete_l. Qed.
Print Assumptions C19_overwrite_complete.

(** an in-place writer (open r+ and rewrite the datasets) is NOT safe even under AtClose: over the complete
    file of [old_coll], killed before the last per-signature write of [new_coll], it leaves a file that
    loads with the new ids, the old metadata and a mixture of new and old signatures *)
Theorem C19_overwrite_inplace_refuted :
  exists done l,
    wf_coll old_coll = true /\ wf_coll new_coll = true /\
    load_file old_disk = SOk (loaded_of old_coll) /\
    strict_prefix done (dump_ops PerSig new_coll) /\
    load_file (over_disk InPlace AtClose old_disk (DRaw []) true done) = SOk l /\
    l.(l_ids) = IdInts I64 [200; 201] /\ l.(l_meta) = old_coll.(c_meta) /\
    decode l = SOk [[2; 6]; [7]] /\
    l <> loaded_of new_coll /\ l <> loaded_of old_coll.
Proof. exact C19_overwrite_inplace_refuted_l. Qed.
Print Assumptions C19_overwrite_inplace_refuted.
