(** C19 -- an interrupted signature-file write never yields a loadable wrong file.
    [dump_ops] (Model/Store.v) is the sequence of storage-library calls of one write; the writer may
    die between any two of them.  What then is on disk is decided by libhdf5/the OS and enters as the
    [policy] of [crash_disk]: [AtClose] = what is on disk before close ([junk]) cannot be parsed (observed on
    every run by the fault-enumeration harness), [Eager] = every call is flushed.
    [is_prefix], [strict_prefix], [outcome_of], [disk_after], [safe_part] are defined in Proofs/C19.v. *)
From Coq Require Import ZArith List Bool.
From GV Require Import Model.Store Model.StoreOver Proofs.C12 Proofs.C19 Proofs.C19Over.
Import ListNotations.
Open Scope Z_scope.

(** under AtClose every crash point of every write of every collection leaves a file that is refused
    (SignaturesFileError by the repaired reader; OSError, KeyError or SignaturesFileError by the current one) *)
Theorem C19_atclose : forall p c junk done, unparsable junk = true -> is_prefix done (dump_ops p c) ->
  load_file (crash_disk AtClose junk done) = SErr ESigFile /\
  (load_file_cur (crash_disk AtClose junk done) = SErr EOS \/
   load_file_cur (crash_disk AtClose junk done) = SErr EKey \/
   load_file_cur (crash_disk AtClose junk done) = SErr ESigFile).
Proof. exact C19_atclose_l. Qed.
Print Assumptions C19_atclose.

(** under AtClose a file that loads comes from a completed write and loads as what was written *)
Theorem C19_complete : forall p c junk o d l, wf_coll c = true -> unparsable junk = true -> outcome_of p c o ->
  disk_after AtClose junk p c o = SOk d ->
  (load_file d = SOk l \/ load_file_cur d = SOk l) ->
  o = Completed /\ l = loaded_of c /\ decode l = SOk c.(c_sigs).
Proof. exact C19_complete_l. Qed.
Print Assumptions C19_complete.

(** without that buffering the marker-first write order is NOT safe: a crash before the last
    per-signature write loads as a collection with a zero-filled signature *)
Theorem C19_eager_refuted :
  exists p c junk done l,
    wf_coll c = true /\ strict_prefix done (dump_ops p c) /\
    load_file (crash_disk Eager junk done) = SOk l /\
    decode l = SOk [[1; 5]; [0]] /\ decode l <> SOk c.(c_sigs).
Proof. exact C19_eager_refuted_l. Qed.
Print Assumptions C19_eager_refuted.

(** the unsafe window is exactly "after the values dataset was created" of the per-signature path:
    before it, and for every crash point of the whole-array path, the file is refused even under Eager *)
Theorem C19_eager_window : forall p c junk done, unparsable junk = true -> is_prefix done (safe_part p c) ->
  exists e, load_file (crash_disk Eager junk done) = SErr e.
Proof. exact C19_eager_window_l. Qed.
Print Assumptions C19_eager_window.

Theorem C19_eager_whole : forall c junk done, unparsable junk = true -> strict_prefix done (dump_ops Whole c) ->
  exists e, load_file (crash_disk Eager junk done) = SErr e.
Proof. exact C19_eager_whole_l. Qed.
Print Assumptions C19_eager_whole.

(** ---- the output path already holds a file (Model/StoreOver.v) ---------------------------------- *)

(** the repository's writer opens the path with mode w (truncate): once it has opened the path, every
    crash point of every write leaves a file that is refused, WHATEVER the path held before ([old]: a
    complete signature file of another or of the same collection, a truncated one, any other file) *)
Theorem C19_overwrite_truncate : forall old p c junk done, unparsable junk = true -> is_prefix done (dump_ops p c) ->
  load_file (over_disk Truncate AtClose old junk true done) = SErr ESigFile /\
  (load_file_cur (over_disk Truncate AtClose old junk true done) = SErr EOS \/
   load_file_cur (over_disk Truncate AtClose old junk true done) = SErr EKey \/
   load_file_cur (over_disk Truncate AtClose old junk true done) = SErr ESigFile).
Proof. exact C19_overwrite_truncate_l. Qed.
Print Assumptions C19_overwrite_truncate.

(** ... and a file that loads after the writer opened the path comes from a completed write and is the
    requested collection, never the old one *)
Theorem C19_overwrite_complete : forall old p c junk o d l, wf_coll c = true -> unparsable junk = true -> outcome_of p c o ->
  disk_after_over Truncate AtClose old junk p c o = SOk d ->
  (load_file d = SOk l \/ load_file_cur d = SOk l) ->
  o = Completed /\ l = loaded_of c /\ decode l = SOk c.(c_sigs).
Proof. exact C19_overwrite_complete_l. Qed.
Print Assumptions C19_overwrite_complete.

(** an in-place writer (open r+ and rewrite the datasets) is NOT safe even under AtClose: over the complete
    file of [old_coll], killed before the last per-signature write of [new_coll], it leaves a file that
    loads with the new ids, the old metadata and a mixture of new and old signatures *)
Theorem C19_overwrite_inplace_refuted :
  exists done l,
    wf_coll old_coll = true /\ wf_coll new_coll = true /\
    load_file old_disk = SOk (loaded_of old_coll) /\
    strict_prefix done (dump_ops PerSig new_coll) /\
    load_file (over_disk InPlace AtClose old_disk (DRaw []) true done) = SOk l /\
    l.(l_ids) = IdInts I64 [200; 201] /\ l.(l_meta) = old_coll.(c_meta) /\
    decode l = SOk [[2; 6]; [7]] /\
    l <> loaded_of new_coll /\ l <> loaded_of old_coll.
Proof. exact C19_overwrite_inplace_refuted_l. Qed.
Print Assumptions C19_overwrite_inplace_refuted.
