(** C13 -- multi-file signature computation keeps file order under every completion order.

    [calc_file_signatures], [run_executor], [run_sequential], [run_append_as_completed],
    [pool_order] are the model of src/gambit/sigs/calc.py:240-276 in Model/C13.v; a task is
    (future returned by executor.submit, outcome of the file's job); [sigma] is the order in which
    [as_completed] yields the futures.  [spec_outcome], [in_file_order], [values], [err_codes],
    [all_ok] are the specification vocabulary of Spec/C13.v.  The only hypotheses are that the
    executor hands out distinct futures ([NoDup]) and that [as_completed] yields each of them once
    ([Permutation]) -- both are what concurrent.futures guarantees, and the harness's executor
    checks them on every case. *)
From Coq Require Import ZArith List Bool Permutation.
From GV Require Import Spec.C13 Model.C13 Proofs.C13.
Import ListNotations.
Open Scope Z_scope.

(** For EVERY completion order (no bound on the number of files): if all files are readable the
    result is exactly the list of single-file signatures in file order; otherwise the call raises
    the exception of a file -- precisely the first failing one in completion order. *)
Theorem C13_any_order : forall A (ts : list (task A)) sigma,
  NoDup (map fst ts) -> Permutation sigma (map fst ts) ->
  (all_ok (map snd ts) = true -> run_executor ts sigma = Done (values (map snd ts))) /\
  (all_ok (map snd ts) = false ->
     exists c, run_executor ts sigma = Raised c /\ first_err ts sigma = Some c /\ In c (err_codes (map snd ts))).
Proof. exact C13_any_order_l. Qed.
Print Assumptions C13_any_order.

(** Two completion orders are indistinguishable through the result. *)
Theorem C13_order_irrelevant : forall A (ts : list (task A)) s1 s2,
  NoDup (map fst ts) -> Permutation s1 (map fst ts) -> Permutation s2 (map fst ts) ->
  all_ok (map snd ts) = true -> run_executor ts s1 = run_executor ts s2.
Proof. exact C13_order_irrelevant_l. Qed.
Print Assumptions C13_order_irrelevant.

(** Safety without any assumption on [as_completed]: whatever futures it yields (dropped, repeated,
    foreign), a list is returned only if it has exactly one signature per file, in file order, each
    the single-file result -- never a missing, duplicated or misplaced entry. *)
Theorem C13_never_wrong_list : forall A (ts : list (task A)) sigma out,
  NoDup (map fst ts) -> run_executor ts sigma = Done out -> in_file_order (map snd ts) out.
Proof. exact C13_never_wrong_list_l. Qed.
Print Assumptions C13_never_wrong_list.

(** The no-executor path: in-order list, or the exception of the first unreadable file. *)
Theorem C13_sequential : forall A (rs : list (fres A)),
  run_sequential rs = match first_err_seq rs with Some c => Raised c | None => Done (values rs) end /\
  spec_outcome rs (run_sequential rs).
Proof. exact C13_sequential_l. Qed.
Print Assumptions C13_sequential.

(** Sequential, thread-based, process-based execution and a caller-supplied executor all satisfy
    the specification, for every completion order. *)
Theorem C13_all_modes : forall A c supplied (ts : list (task A)) sigma,
  NoDup (map fst ts) -> Permutation sigma (map fst ts) -> (supplied = true \/ c <> COther) ->
  let o := calc_file_signatures c supplied ts sigma in
  spec_outcome (map snd ts) o /\
  (all_ok (map snd ts) = true -> o = Done (values (map snd ts))) /\
  (all_ok (map snd ts) = false -> exists e, o = Raised e /\ In e (err_codes (map snd ts))).
Proof. exact C13_all_modes_l. Qed.
Print Assumptions C13_all_modes.

(** Any worker count and any job durations (file-size skews): the completion order a
    first-come-first-served pool of [w] workers produces is one of the orders covered above. *)
Theorem C13_worker_pool : forall A c supplied (ts : list (task A)) w durs,
  NoDup (map fst ts) -> (supplied = true \/ c <> COther) ->
  let o := calc_file_signatures c supplied ts (pool_order w durs (map fst ts)) in
  (all_ok (map snd ts) = true -> o = Done (values (map snd ts))) /\
  (all_ok (map snd ts) = false -> exists e, o = Raised e /\ In e (err_codes (map snd ts))).
Proof. exact C13_worker_pool_l. Qed.
Print Assumptions C13_worker_pool.

(** What the theorems exclude: collecting results as they complete is wrong already for two files
    on two workers when the first file takes longer. *)
Theorem C13_completion_order_collector_refuted :
  exists (ts : list (task Z)) (sigma : list handle),
    NoDup (map fst ts) /\ Permutation sigma (map fst ts) /\ all_ok (map snd ts) = true /\
    sigma = pool_order 2 [5%nat; 1%nat] (map fst ts) /\
    run_append_as_completed ts sigma = Done [20; 10] /\
    run_executor ts sigma = Done [10; 20] /\
    ~ spec_outcome (map snd ts) (run_append_as_completed ts sigma).
Proof. exact C13_completion_order_collector_refuted_l. Qed.
Print Assumptions C13_completion_order_collector_refuted.
