(** C08 -- query output rows: one per input, in order, correctly labelled, context-free.

    Model/C08.v follows src/gambit/cli/common.py:267-348 (labels and files from positional / list-file
    arguments), src/gambit/util/io.py:210-231, src/gambit/metric.py:242-269 (the np.empty distance
    matrix filled chunk by chunk, row by row), src/gambit/query.py:155-253 (query, query_parse) and
    src/gambit/cli/query.py:70-95 (the three input channels).  All theorems are polymorphic in
      Q (signatures), R (references), D (distances), C (what a result item holds besides its input),
      dist : Q -> R -> D, content : list D -> C, refs : list R, sig_of_file : str -> Q
    i.e. they hold whatever the distance, the classification and the parsing of a file compute
    (properties C01-C06, C09, C10, C13 say what those are).  [chunk_ok cs]: the reference chunk size is
    None or positive.  The number of cores and the progress display do not occur in the model: in the
    code they configure OpenMP, the worker pool and the meter only; that they do not leak into the
    rows is what the correspondence run checks. *)
From Coq Require Import ZArith List Bool Permutation.
From GV Require Import Model.C08 Spec.C08 Proofs.C08Rows Proofs.C08Labels Proofs.C08.
Import ListNotations.
Open Scope Z_scope.

(** [query] for ALL arguments: either one of its three errors, or exactly the rows of the
    specification -- for every number of queries and references and every chunk size; in
    particular the matrix is completely written (no [Uninit]), no index leaves it (no [IndexErr],
    no [ShapeMismatch]) and the chunk loop terminates (no [OutOfFuel]). *)
Theorem C08_query_total : forall Q R D C (dist : Q -> R -> D) (content : list D -> C) (refs : list R)
    I cs (queries : list Q) (inputs : list I),
  query Q R D C dist content refs cs queries inputs =
    if is_empty queries then QErr NoQueries
    else if negb (length inputs =? length queries)%nat then QErr InputsMismatch
    else if chunk_ok cs then QOk (rows_spec Q R D C I dist content refs inputs queries)
    else QErr BadChunkSize.
Proof. exact query_total_l. Qed.
Print Assumptions C08_query_total.

(** one row per input, in input order; row i = (input i, content of the distances of query i) *)
Theorem C08_rows : forall Q R D C (dist : Q -> R -> D) (content : list D -> C) (refs : list R)
    I cs (queries : list Q) (inputs : list I),
  chunk_ok cs = true -> queries <> [] -> length inputs = length queries ->
  query Q R D C dist content refs cs queries inputs
    = QOk (map (row_of Q R D C I dist content refs) (combine inputs queries)).
Proof. exact query_rows_l. Qed.
Print Assumptions C08_rows.

(** context-freeness: the row of a genome at any position of any batch is its row when queried alone
    (also across different chunk sizes: [cs] and [cs'] are unrelated) *)
Theorem C08_context_free : forall Q R D C (dist : Q -> R -> D) (content : list D -> C) (refs : list R)
    I cs (qp : list Q) q qq (ip : list I) i iq,
  chunk_ok cs = true -> length ip = length qp -> length iq = length qq ->
  exists rp r rq,
    query Q R D C dist content refs cs (qp ++ q :: qq) (ip ++ i :: iq) = QOk (rp ++ r :: rq) /\
    length rp = length qp /\ length rq = length qq /\
    query Q R D C dist content refs cs [q] [i] = QOk [r].
Proof. exact context_free_query_l. Qed.
Print Assumptions C08_context_free.

(** positional arguments: row k belongs to argument k, is labelled from its normalised path and
    computed from the signature of that file *)
Theorem C08_cli_positional : forall Q R D C (dist : Q -> R -> D) (content : list D -> C) (refs : list R)
    (sig_of_file : str -> Q) cs files ldir,
  chunk_ok cs = true -> files <> [] ->
  query_cmd Q R D C dist content refs sig_of_file cs files None ldir None
    = QOk (map (positional_row Q R D C dist content refs sig_of_file) files).
Proof. exact cli_positional_l. Qed.
Print Assumptions C08_cli_positional.

(** list file: one row per non-blank line, in line order; the file is looked for at ldir/line, the
    label comes from the line itself *)
Theorem C08_cli_listfile : forall Q R D C (dist : Q -> R -> D) (content : list D -> C) (refs : list R)
    (sig_of_file : str -> Q) cs text ldir,
  chunk_ok cs = true -> read_lines text <> [] ->
  query_cmd Q R D C dist content refs sig_of_file cs [] (Some text) ldir None
    = QOk (map (listfile_row Q R D C dist content refs sig_of_file ldir) (read_lines text)).
Proof. exact cli_listfile_l. Qed.
Print Assumptions C08_cli_listfile.

(** signature file: row k is labelled with stored id k and computed from stored signature k *)
Theorem C08_cli_sigfile : forall Q R D C (dist : Q -> R -> D) (content : list D -> C) (refs : list R)
    (sig_of_file : str -> Q) cs ids sigs ldir,
  chunk_ok cs = true -> sigs <> [] -> length ids = length sigs ->
  query_cmd Q R D C dist content refs sig_of_file cs [] None ldir (Some (ids, sigs))
    = QOk (map (sig_row Q R D C dist content refs) (combine ids sigs)).
Proof. exact cli_sigfile_l. Qed.
Print Assumptions C08_cli_sigfile.

(** a genome given positionally inside any batch has the row it has alone *)
Theorem C08_cli_context_free : forall Q R D C (dist : Q -> R -> D) (content : list D -> C) (refs : list R)
    (sig_of_file : str -> Q) cs ldir pre g post,
  chunk_ok cs = true ->
  exists rp r rq,
    query_cmd Q R D C dist content refs sig_of_file cs (pre ++ g :: post) None ldir None = QOk (rp ++ r :: rq) /\
    length rp = length pre /\ length rq = length post /\
    query_cmd Q R D C dist content refs sig_of_file cs [g] None ldir None = QOk [r].
Proof. exact context_free_positional_l. Qed.
Print Assumptions C08_cli_context_free.

(** any reordering of the batch reorders the rows accordingly and changes nothing else *)
Theorem C08_permutation : forall Q R D C (dist : Q -> R -> D) (content : list D -> C) (refs : list R)
    (sig_of_file : str -> Q) cs ldir b1 b2,
  chunk_ok cs = true -> b1 <> [] -> Permutation b1 b2 ->
  exists r1 r2,
    query_cmd Q R D C dist content refs sig_of_file cs b1 None ldir None = QOk r1 /\
    query_cmd Q R D C dist content refs sig_of_file cs b2 None ldir None = QOk r2 /\
    Permutation r1 r2 /\
    (forall k, nth_error r2 k = option_map (positional_row Q R D C dist content refs sig_of_file) (nth_error b2 k)).
Proof. exact permutation_positional_l. Qed.
Print Assumptions C08_permutation.

(** the same genome as positional argument, as list-file line (any base directory) and as stored
    signature: identical content; only the input description differs, and the stored id is the
    label in the third case *)
Theorem C08_channels : forall Q R D C (dist : Q -> R -> D) (content : list D -> C) (refs : list R)
    (sig_of_file : str -> Q) cs ldir ldir2 p line id s,
  chunk_ok cs = true -> wf_line line = true ->
  sig_of_file (path_str p) = s -> sig_of_file (path_str (posix_join ldir2 line)) = s ->
  exists i1 i2 i3 c,
    query_cmd Q R D C dist content refs sig_of_file cs [p] None ldir None = QOk [(i1, c)] /\
    query_cmd Q R D C dist content refs sig_of_file cs [] (Some (lines_text [line])) ldir2 None = QOk [(i2, c)] /\
    query_cmd Q R D C dist content refs sig_of_file cs [] None ldir (Some ([id], [s])) = QOk [(i3, c)] /\
    c = content (map (dist s) refs) /\ qi_label i3 = id /\ qi_label i2 = get_file_id line true true.
Proof. exact channels_l. Qed.
Print Assumptions C08_channels.

(** neither none nor two of GENOMES / -l / -s *)
Theorem C08_cli_usage : forall Q R D C (dist : Q -> R -> D) (content : list D -> C) (refs : list R)
    (sig_of_file : str -> Q) cs files listfile ldir sigfile,
  let given := ((if is_empty files then 0 else 1) + (match listfile with Some _ => 1 | None => 0 end)
                + (match sigfile with Some _ => 1 | None => 0 end))%nat in
  (given = 0%nat -> query_cmd Q R D C dist content refs sig_of_file cs files listfile ldir sigfile = QErr UsageRequired) /\
  ((1 < given)%nat -> query_cmd Q R D C dist content refs sig_of_file cs files listfile ldir sigfile = QErr UsageExclusive).
Proof. exact cli_usage_l. Qed.
Print Assumptions C08_cli_usage.

(** a number of labels different from the number of files is an error, never a shifted labelling *)
Theorem C08_label_count : forall Q R D C (dist : Q -> R -> D) (content : list D -> C) (refs : list R)
    (sig_of_file : str -> Q) cs labels files,
  length labels <> length files ->
  query_parse Q R D C dist content refs sig_of_file cs files (Some labels) = QErr ZipStrict.
Proof. exact query_parse_mismatch. Qed.
Print Assumptions C08_label_count.

(** label(dir/stem.ext.gz) = stem: [ext] a FASTA extension or nothing, [gz] ".gz" or nothing; if
    there is no FASTA extension the stem must not itself end in one of the extensions *)
Theorem C08_label : forall p stem ext gz,
  fasta_ext ext -> gzip_ext gz -> (ext = [] -> no_seq_ext stem = true) ->
  no_slash (stem ++ ext ++ gz) = true ->
  (p = stem ++ ext ++ gz \/ exists d, p = d ++ SLASH :: stem ++ ext ++ gz) ->
  get_file_id p true true = stem.
Proof. exact get_file_id_stem. Qed.
Print Assumptions C08_label.

(** the same for a positional argument, whose path passes through pathlib first ("./", "//",
    "dir/./" are normalised away, the file's own name is not touched) *)
Theorem C08_label_positional : forall p stem ext gz,
  fasta_ext ext -> gzip_ext gz -> (ext = [] -> no_seq_ext stem = true) ->
  file_name (stem ++ ext ++ gz) = true ->
  (p = stem ++ ext ++ gz \/ exists d, p = d ++ SLASH :: stem ++ ext ++ gz) ->
  get_file_id (path_str p) true true = stem.
Proof. exact positional_label_stem. Qed.
Print Assumptions C08_label_positional.

(** a list file holding one well-formed name per line yields exactly those names, in order *)
Theorem C08_read_lines : forall ls, forallb wf_line ls = true -> read_lines (lines_text ls) = ls.
Proof. exact read_lines_text. Qed.
Print Assumptions C08_read_lines.

(** a relative line is looked for below the base directory, an absolute one where it says *)
Theorem C08_listfile_path : forall ldir line,
  (prefixb [SLASH] line = false -> ldir <> [] -> endswith ldir [SLASH] = false ->
     posix_join ldir line = ldir ++ SLASH :: line) /\
  posix_join ldir (SLASH :: line) = SLASH :: line.
Proof. exact listfile_path_l. Qed.
Print Assumptions C08_listfile_path.
