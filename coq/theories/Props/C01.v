(** C01 -- a signature is exactly the set of prefix-anchored k-mers on both strands.
    [calc_signature], [find_kmers] are the hand model (Model/C01.v) of src/gambit/kmers.py and
    src/gambit/sigs/calc.py calling the encoders generated from kmers.pyx; [signature_spec],
    [all_kmers] (Spec/C01.v) say "the k bytes after an occurrence of the prefix, either strand". *)
From Coq Require Import ZArith List Bool Sorting.Sorted.
From GV Require Import Base.CSem Spec.Kmers Spec.C01 Model.C01 Proofs.C01Defs Proofs.C01Strand
  Proofs.C01Acc Proofs.C01.
Import ListNotations.
Open Scope Z_scope.

(** for every k >= 1, every non-empty upper-case ACGT prefix, every collection of byte strings and
    either accumulator: no loop runs out of fuel, no slice leaves its sequence, and the result is the
    strictly increasing enumeration of the specification set together with the dtype of C01_dtype *)
Theorem C01_signature : forall dense k p seqs,
  (1 <= k)%nat -> p <> [] -> acgt p -> Forall bytes seqs ->
  calc_signature dense (Z.of_nat k) p seqs = Ok (signature_spec k p seqs, dtype_spec k).
Proof. exact C01_signature_l. Qed.
Print Assumptions C01_signature.

(** the two accumulation strategies agree (consequence, stated separately) *)
Theorem C01_dense_eq_set : forall k p seqs,
  (1 <= k)%nat -> p <> [] -> acgt p -> Forall bytes seqs ->
  calc_signature true (Z.of_nat k) p seqs = calc_signature false (Z.of_nat k) p seqs.
Proof. intros k p seqs H1 H2 H3 H4. now rewrite !C01_signature_l. Qed.
Print Assumptions C01_dense_eq_set.

(** the array is strictly increasing, holds exactly the specification set, all values < 4^k *)
Theorem C01_sorted : forall k p seqs,
  StronglySorted Z.lt (signature_spec k p seqs) /\
  (forall v, In v (signature_spec k p seqs) <-> In v (all_kmers k p seqs)) /\
  (forall v, In v (signature_spec k p seqs) -> 0 <= v < 4 ^ Z.of_nat k).
Proof. exact C01_sorted_l. Qed.
Print Assumptions C01_sorted.

(** what "the specification set" means, with no reference to the search algorithm *)
Theorem C01_membership : forall k p seqs v,
  In v (all_kmers k p seqs) <->
  exists s t q, In s seqs /\ (t = s \/ t = spec_revcomp s) /\
    (q + length p + k <= length t)%nat /\
    map upper (slice t q (length p)) = p /\
    spec_encode (slice t (q + length p) k) = Some v.
Proof. exact C01_membership_l. Qed.
Print Assumptions C01_membership.

(** the matches [find_kmers] yields: every qualifying forward position, then every qualifying
    occurrence of the reverse-complemented prefix at offset >= k, reported at loc + plen - 1 *)
Theorem C01_matches : forall k p s,
  (1 <= k)%nat -> p <> [] -> acgt p ->
  find_kmers (Z.of_nat k) p s =
    Ok (map (fun q => (Z.of_nat q, false)) (filter (fwd_ok (haystack s) p k) (seq 0 (S (length s)))) ++
        map (fun loc => (Z.of_nat loc + mv_len p - 1, true))
            (filter (rev_ok (haystack s) (spec_revcomp p) k) (seq 0 (S (length s))))).
Proof. exact find_kmers_spec. Qed.
Print Assumptions C01_matches.

(** smallest unsigned integer type able to hold 4^k - 1 *)
Theorem C01_dtype : forall k w, (1 <= k <= 32)%nat -> dtype_spec k = Some w ->
  In w [1; 2; 4; 8] /\ 4 ^ Z.of_nat k <= 256 ^ w /\
  (forall w', In w' [1; 2; 4; 8] -> 4 ^ Z.of_nat k <= 256 ^ w' -> w <= w').
Proof. exact dtype_smallest. Qed.
Print Assumptions C01_dtype.
