(** C10 -- strict classification reports an order-independent consensus of all matches.

    Taxa are root paths (Spec/C10.v): [prefixb a t] = "a is t or an ancestor of t", [strictb c t] =
    "t lies strictly below c", [lcp] = lowest common ancestor.  [consensus] is the model of
    gambit.classify.consensus_taxon with the repair of repo_fixes/C10.diff (the trunk remembers that
    it has forked), [consensus_v0] the algorithm as found; [consensus_spec l] = LCA of the most
    specific elements of [l].  [wf_taxa] : root paths are non-empty. *)
From Coq Require Import List Bool Arith Permutation.
From GV Require Import Base.CSem Spec.C10 Model.C10 Proofs.C10 Proofs.C10Classify.
Import ListNotations.
Local Open Scope nat_scope.

(** The algorithm as found: the same three matched taxa {species, sibling species, subspecies} give
    the subspecies in one order and the genus in the other (the specification says: the genus). *)
Theorem C10_v0_order_dependent_refuted : exists l l', wf_taxa l = true /\ Permutation l l' /\
  consensus_v0 l = Ok (Some [0; 1; 3], [[0; 2]]) /\
  consensus_v0 l' = Ok (Some [0], [[0; 1]; [0; 1; 3]; [0; 2]]) /\
  consensus_spec l = Some [0].
Proof. exact v0_order_dependent. Qed.
Print Assumptions C10_v0_order_dependent_refuted.

(** ... and its prediction can be neither an ancestor nor a descendant of a matched taxon. *)
Theorem C10_v0_comparable_refuted : exists l c o t, wf_taxa l = true /\
  consensus_v0 l = Ok (Some c, o) /\ In t l /\ prefixb t c = false /\ prefixb c t = false.
Proof. exact v0_incomparable. Qed.
Print Assumptions C10_v0_comparable_refuted.

(** (found by the correspondence run) three matched sibling species: the algorithm as found
    reports the last one, the specification and the repaired algorithm their common parent *)
Theorem C10_v0_three_siblings_refuted : exists l, wf_taxa l = true /\
  consensus_v0 l = Ok (Some [0; 3], [[0; 1]; [0; 2]]) /\ consensus_spec l = Some [0] /\
  consensus l = Ok (Some [0], l).
Proof. exact v0_three_siblings. Qed.
Print Assumptions C10_v0_three_siblings_refuted.

(** The repaired algorithm: for every list of matched taxa, in every order, with or without
    repetitions, the result is the specified consensus together with exactly the matched taxa
    strictly below it (all of them when there is no common ancestor); no IndexError. *)
Theorem C10_consensus_spec : forall l, wf_taxa l = true ->
  consensus l = Ok (consensus_spec l, below_spec (consensus_spec l) l).
Proof. exact consensus_correct. Qed.
Print Assumptions C10_consensus_spec.

(** all matched taxa on one lineage: the most specific one *)
Theorem C10_single_lineage : forall l c, c <> [] -> In c l ->
  (forall s, In s l -> prefixb s c = true) -> consensus_spec l = Some c.
Proof. exact single_lineage_l. Qed.
Print Assumptions C10_single_lineage.

(** otherwise at or above the lowest common ancestor of any two most specific ones *)
Theorem C10_above_lca : forall l c x y, consensus_spec l = Some c ->
  In x (maximal l) -> In y (maximal l) -> prefixb c (lcp x y) = true.
Proof. exact above_lca_l. Qed.
Print Assumptions C10_above_lca.

(** the outcome does not depend on the order in which the matches are encountered *)
Theorem C10_order_independent : forall l l', wf_taxa l = true -> Permutation l l' ->
  exists c o o', consensus l = Ok (c, o) /\ consensus l' = Ok (c, o') /\ Permutation o o'.
Proof. exact order_independent_l. Qed.
Print Assumptions C10_order_independent.

(** nor on repetitions: it is a function of the set of matched taxa *)
Theorem C10_set_independent : forall l l', wf_taxa l = true -> wf_taxa l' = true ->
  (forall t, In t l <-> In t l') ->
  exists c o o', consensus l = Ok (c, o) /\ consensus l' = Ok (c, o') /\ (forall t, In t o <-> In t o').
Proof. exact set_independent_l. Qed.
Print Assumptions C10_set_independent.

(** the prediction is equal to, an ancestor of, or a descendant of every matched taxon *)
Theorem C10_comparable : forall l c o, wf_taxa l = true -> consensus l = Ok (Some c, o) ->
  c <> [] /\ forall t, In t l -> prefixb t c = true \/ prefixb c t = true.
Proof. exact comparable_l. Qed.
Print Assumptions C10_comparable.

(** the warning names exactly the matched taxa strictly below the prediction, and is issued iff
    there is one *)
Theorem C10_warning_iff : forall l c o, wf_taxa l = true -> consensus l = Ok (c, o) ->
  (forall t, In t o <-> In t l /\ below c t) /\
  (o <> [] <-> exists t, In t l /\ below c t).
Proof. exact warning_iff_l. Qed.
Print Assumptions C10_warning_iff.

(** no prediction iff nothing matched or two matched taxa lie in different trees *)
Theorem C10_failed_iff_no_common_root : forall l, wf_taxa l = true ->
  ((exists o, consensus l = Ok (None, o)) <->
   l = [] \/ exists x y, In x l /\ In y l /\ no_common_root x y = true).
Proof. exact failed_iff_l. Qed.
Print Assumptions C10_failed_iff_no_common_root.

(** ---- the strict classifier (matching_taxon, find_matches, classify(strict=True)) ----
    genome = (lineage of its taxon from the root down, each entry (id, optional threshold); distance);
    [covers_at g k] : the taxon at depth [k] of the lineage has a threshold and it covers the distance;
    [matched gs] : the matched taxa of the genomes that match, in reference order. *)

(** each reference genome matches the most specific threshold-bearing taxon of its lineage whose
    threshold covers its distance *)
Theorem C10_matching_taxon : forall g,
  match matching_taxon g with
  | Some t => exists k, covers_at g k = true /\ t = map fst (firstn k (fst g)) /\
                        forall j, k < j -> covers_at g j = false
  | None => forall j, covers_at g j = false
  end.
Proof. exact matching_taxon_spec. Qed.
Print Assumptions C10_matching_taxon.

(** for every list of reference genomes, in every order: no exception; the prediction is the
    consensus of the matched taxa; the result is flagged as failed iff something matched but there is
    no common ancestor; the warning names exactly the matched taxa strictly below the prediction;
    the primary match is a genome whose matched taxon lies at or below the prediction and no such
    genome is nearer (and the [assert best_i is not None] cannot fail) *)
Theorem C10_classify : forall gs, exists r, classify_strict gs = Ok r /\
  let M := matched gs in
  sr_predicted r = consensus_spec M /\
  sr_success r = negb (nonempty_list M && match consensus_spec M with None => true | Some _ => false end) /\
  (forall t, In t (sr_others r) <-> In t M /\ below (consensus_spec M) t) /\
  match sr_primary r with
  | None => consensus_spec M = None
  | Some (i, d, t) =>
      exists c g, consensus_spec M = Some c /\ nth_error gs i = Some g /\ snd g = d /\
                  matching_taxon g = Some t /\ prefixb c t = true /\
                  forall g' t', In g' gs -> matching_taxon g' = Some t' -> prefixb c t' = true -> d <= snd g'
  end.
Proof. exact classify_strict_ok. Qed.
Print Assumptions C10_classify.

(** the outcome never depends on the order of the reference genomes: same success flag, same
    prediction, same set of conflicting taxa, same primary distance *)
Theorem C10_classify_order_independent : forall gs gs', Permutation gs gs' ->
  exists r r', classify_strict gs = Ok r /\ classify_strict gs' = Ok r' /\
    sr_success r = sr_success r' /\ sr_predicted r = sr_predicted r' /\
    (forall t, In t (sr_others r) <-> In t (sr_others r')) /\
    primary_distance r = primary_distance r'.
Proof. exact classify_order_independent. Qed.
Print Assumptions C10_classify_order_independent.

(** with consensus_taxon as found, the prediction of the strict classifier depends on the order of
    the reference genomes (species 6/16, sibling species 6/16, subspecies 3/16; thresholds 8/16, 4/16) *)
Theorem C10_classify_v0_order_dependent_refuted : exists gs gs' r r', Permutation gs gs' /\
  classify_strict_v0 gs = Ok r /\ classify_strict_v0 gs' = Ok r' /\
  sr_predicted r = Some [0; 1; 3] /\ sr_predicted r' = Some [0].
Proof. exact classify_v0_order_dependent. Qed.
Print Assumptions C10_classify_v0_order_dependent_refuted.
