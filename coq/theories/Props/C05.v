(** C05 -- bulk and parallel distance computations agree bit-for-bit with the pairwise one.

    [_jaccarddist_parallel], [_jaccarddist_parallel_order], [jaccarddist] are generated from
    src/gambit/_cython/metric.pyx on every run; [jd_array], [jd_matrix], [jd_pairwise_flat],
    [chunk_slices] (Model/C05.v) are the hand model of src/gambit/metric.py and
    src/gambit/util/misc.py and call the generated definitions.  [dist q r] (Spec/C05.v) is the
    value of the two-signature distance; [C05_array_pairs] ties it to the generated [jaccarddist].
    Values are binary32 objects, so every equality below is bit-for-bit.

    OpenMP interleavings below iteration granularity cannot be expressed in the model at all
    (explored by the harness). *)
From Coq Require Import ZArith List Bool Permutation.
From GV Require Import Base.CSem Base.F32 Gen.MetricPyx Spec.Jaccard Spec.JaccardF Spec.C05
  Model.MetricPy Model.C05 Proofs.C05Sched Proofs.C05Array Proofs.C05Chunks Proofs.C05Matrix
  Proofs.C05Pairwise Proofs.C05Square.
Import ListNotations.
Open Scope Z_scope.

(** every order of the iterations of the prange loop -- every schedule at iteration granularity --
    gives the result of the sequential loop, for all inputs (also ill-formed ones: if the
    sequential run fails, every order fails) *)
Theorem C05_schedule : forall fuel q coords bounds pi out,
  Permutation pi (map Z.of_nat (seq 0 (Z.to_nat (mv_len bounds - 1)))) ->
  match _jaccarddist_parallel fuel q coords bounds out with
  | Ok r => _jaccarddist_parallel_order fuel pi q coords bounds out = Ok r
  | Error _ => exists e, _jaccarddist_parallel_order fuel pi q coords bounds out = Error e
  end.
Proof. exact C05_schedule_l. Qed.
Print Assumptions C05_schedule.

(** jaccarddist_array: for every container (concatenated fast path through the generated prange
    loop -- bounds arithmetic, no out-of-range access, enough fuel -- or per-item loop), accepted
    dtypes, any number of references and any buffer content, the result is the list of pair
    distances in reference order; a buffer of the wrong shape or dtype is a ValueError *)
Theorem C05_array : forall c dq dr q refs out,
  dtype_ok dq = true -> dtype_ok dr = true -> sorted q -> Forall sorted refs -> buf1_wf out = true ->
  jd_array c dq dr q refs out =
    if out_ok out [mv_len refs] then POk (dist_row q refs) else PErr PValueError.
Proof. exact C05_array_l. Qed.
Print Assumptions C05_array.

(** ... and these values are what the generated two-signature function returns for each pair *)
Theorem C05_array_pairs : forall q refs,
  sorted q -> Forall sorted refs ->
  Forall2 (fun r d => forall fuel, (length q + length r <= fuel)%nat -> jaccarddist fuel q r = Ok d)
          refs (dist_row q refs).
Proof. exact C05_array_pairs_l. Qed.
Print Assumptions C05_array_pairs.

(** chunk_slices: ValueError for size <= 0; otherwise consecutive slices of width [size] starting
    inside [0, n) whose clamped contents, concatenated in order, are the whole sequence *)
Theorem C05_chunks : forall n size,
  if size <=? 0 then chunk_slices n size = PErr PValueError
  else exists sl, chunk_slices n size = POk sl /\ chain n 0 sl /\
         Forall (fun p => snd p = fst p + size /\ 0 <= fst p < n) sl /\
         forall (A : Type) (l : list A), mv_len l = n ->
           concat (map (fun p => mv_slice l (fst p) (snd p)) sl) = l.
Proof. exact C05_chunks_l. Qed.
Print Assumptions C05_chunks.

(** jaccarddist_matrix: every chunk size >= 1 or None, every valid selection of reference indices
    (repeats, negative indices), every container, fresh or caller-supplied buffer with arbitrary
    content: the result is the matrix of pair distances, rows in query order, columns in the order
    of the selection *)
Theorem C05_matrix : forall fx c dq dr queries refs ref_indices out chunksize sel,
  dtype_ok dq = true -> dtype_ok dr = true -> Forall sorted queries -> Forall sorted refs ->
  wrap_ok fx c refs = true -> selected refs ref_indices = Some sel ->
  buf2_wf out = true -> chunksize_ok chunksize = true ->
  jd_matrix fx c dq dr queries refs ref_indices out chunksize =
    if out_ok out [mv_len queries; mv_len sel] then POk (dist_matrix queries sel)
    else PErr PValueError.
Proof. exact C05_matrix_l. Qed.
Print Assumptions C05_matrix.

(** cell (i, j) = d (queries[i], refs[ref_indices[j]]) *)
Theorem C05_matrix_cell : forall fx c dq dr queries refs ri out chunksize sel i j q k,
  dtype_ok dq = true -> dtype_ok dr = true -> Forall sorted queries -> Forall sorted refs ->
  wrap_ok fx c refs = true -> select refs ri = Some sel ->
  buf2_wf out = true -> chunksize_ok chunksize = true ->
  out_ok out [mv_len queries; mv_len ri] = true ->
  nth_error queries i = Some q -> nth_error ri j = Some k ->
  exists p r rows row,
    norm_index (mv_len refs) k = Some p /\ nth_error refs (Z.to_nat p) = Some r /\
    jd_matrix fx c dq dr queries refs (Some ri) out chunksize = POk rows /\
    nth_error rows i = Some row /\ nth_error row j = Some (dist q r).
Proof. exact C05_matrix_cell_l. Qed.
Print Assumptions C05_matrix_cell.

Theorem C05_matrix_badchunk : forall fx c dq dr queries refs ref_indices out s,
  wrap_ok fx c refs = true -> s <= 0 ->
  out_ok out [mv_len queries; match ref_indices with None => mv_len refs | Some ri => mv_len ri end] = true ->
  jd_matrix fx c dq dr queries refs ref_indices out (Some s) = PErr PValueError.
Proof. exact C05_matrix_badchunk_l. Qed.
Print Assumptions C05_matrix_badchunk.

(** the code as found ([fx = false]) refuses an empty plain list of references (AttributeError from
    SignatureList([])) although the result is determined: [C05_matrix] without [wrap_ok] is false
    (repaired by repo_fixes/C05.diff, after which [wrap_ok true _ _ = true] always) *)
Theorem C05_matrix_asfound_refuted :
  exists queries, jd_matrix false CPyList (0, 2) (0, 2) queries [] None None None
                  <> POk (dist_matrix queries []).
Proof. exact C05_matrix_asfound_refuted_l. Qed.
Print Assumptions C05_matrix_asfound_refuted.

(** jaccarddist_pairwise, condensed form: the result is [dist_condensed sel] ... *)
Theorem C05_pairwise_flat : forall fx c d ss indices out sel,
  dtype_ok d = true -> Forall sorted ss -> wrap_ok fx c ss = true ->
  selected ss indices = Some sel -> buf1_wf out = true ->
  jd_pairwise_flat fx c d ss indices out =
    if out_ok out [num_pairs (mv_len sel)] then POk (dist_condensed sel) else PErr PValueError.
Proof. exact C05_pairwise_flat_l. Qed.
Print Assumptions C05_pairwise_flat.

(** ... whose cell at offset n*i - i(i+1)/2 + (j-i-1) is the distance of the pair (i, j), i < j *)
Theorem C05_condensed_offset : forall sel i j si sj,
  (i < j)%nat -> nth_error sel i = Some si -> nth_error sel j = Some sj ->
  nth_error (dist_condensed sel)
            (Z.to_nat (condensed_offset (mv_len sel) (Z.of_nat i) (Z.of_nat j))) = Some (dist si sj).
Proof. exact dist_condensed_cell. Qed.
Print Assumptions C05_condensed_offset.

(** the pair distance is symmetric bit for bit (what the mirrored half of the square form needs) *)
Theorem C05_dist_symmetric : forall a b, sorted a -> sorted b -> dist a b = dist b a.
Proof. exact dist_sym. Qed.
Print Assumptions C05_dist_symmetric.

(** jaccarddist_pairwise, square form (fill_diagonal, row slices, mirror copy), for every container,
    index selection and caller buffer: n rows, +0 on the diagonal, d(s_i, s_j) elsewhere -- hence
    symmetric by C05_dist_symmetric *)
Theorem C05_pairwise_square : forall fx c d ss indices out sel,
  dtype_ok d = true -> Forall sorted ss -> wrap_ok fx c ss = true ->
  selected ss indices = Some sel -> buf2_wf out = true ->
  out_ok out [mv_len sel; mv_len sel] = true ->
  exists rows, jd_pairwise_square fx c d ss indices out = POk rows /\
    length rows = length sel /\
    forall i j si sj, nth_error sel i = Some si -> nth_error sel j = Some sj ->
      exists row, nth_error rows i = Some row /\
        nth_error row j = Some (if Nat.eqb i j then f32_zero else dist si sj).
Proof. exact C05Square.C05_pairwise_square. Qed.
Print Assumptions C05_pairwise_square.
