(** C11 -- every export format is a faithful image of the query results.

    Models: Model/C11Csv.v (CPython csv writer / reader state machines), Model/C11Json.v (JSON
    string escaping and scanning, document writer), Model/C11Export.v (column table, type-dispatched
    JSON conversion, archive writer / reader) -- tied to src/gambit/results.py by harness/c11.py.
    [csv_write_old] is the unchanged exporter, [csv_write_fixed] the one of repo_fixes/C11.diff. *)
From Coq Require Import ZArith List Bool.
From GV Require Import Model.C11Csv Model.C11Json Model.C11Export Spec.C11
  Proofs.C11Csv Proofs.C11Json Proofs.C11Export.
Import ListNotations.
Open Scope Z_scope.

(** the repaired CSV writer is inverted by csv.reader: for all rows of all strings (commas, quotes,
    LF, CR, CR LF, non-ASCII, empty fields, empty rows), no side condition *)
Theorem C11_csv_roundtrip : forall rows, csv_parse (csv_write_fixed rows) = rows.
Proof. exact csv_roundtrip_fixed_l. Qed.
Print Assumptions C11_csv_roundtrip.

(** the unchanged writer is inverted exactly when no field has a carriage return without a comma,
    a double quote or a line feed next to it ... *)
Theorem C11_csv_roundtrip_old : forall rows, rows_cr_ok rows = true ->
  csv_parse (csv_write_old rows) = rows.
Proof. exact csv_roundtrip_old_l. Qed.
Print Assumptions C11_csv_roundtrip_old.

(** ... and not otherwise: the row (a CR b, c) is written bare and comes back as two records *)
Theorem C11_csv_lone_cr_refuted :
  exists rows, csv_parse (csv_write_old rows) <> rows /\
               csv_write_old rows = [97; 13; 98; 44; 99; 10] /\
               csv_parse (csv_write_old rows) = [[[97]]; [[98]; [99]]] /\
               csv_parse (csv_write_fixed rows) = rows.
Proof. exact csv_lone_cr_refuted_l. Qed.
Print Assumptions C11_csv_lone_cr_refuted.

(** the repair changes no byte of any output the old writer got right *)
Theorem C11_csv_fixed_conservative : forall rows, rows_cr_ok rows = true ->
  csv_write_fixed rows = csv_write_old rows.
Proof. exact csv_fixed_conservative_l. Qed.
Print Assumptions C11_csv_fixed_conservative.

(** the exported file parses back to the header followed by one row per query, in order, whose
    eleven cells are the label, the reported taxon, the closest match and the next taxon,
    empty when absent ([csv_cells], Spec/C11.v) *)
Theorem C11_csv_columns : forall xs,
  csv_parse (csv_export_fixed xs) = csv_header :: map (fun x => csv_cells (fst x) (snd x)) xs /\
  length (csv_parse (csv_export_fixed xs)) = S (length xs) /\
  Forall (fun row => length row = 11%nat) (csv_parse (csv_export_fixed xs)).
Proof. exact csv_columns_l. Qed.
Print Assumptions C11_csv_columns.

Theorem C11_csv_columns_old : forall xs, rows_cr_ok (csv_rows xs) = true ->
  csv_export_old xs = csv_export_fixed xs /\
  csv_parse (csv_export_old xs) = csv_header :: map (fun x => csv_cells (fst x) (snd x)) xs.
Proof. exact csv_columns_old_l. Qed.
Print Assumptions C11_csv_columns_old.

(** a JSON string literal reads back as the string it was written for, whatever follows it, for
    every list of code points without a (high surrogate, low surrogate) adjacency *)
Theorem C11_json_string_roundtrip : forall s rest, str_ok s = true ->
  json_read_string (json_write_string s ++ rest) = XOk (s, rest).
Proof. exact json_string_roundtrip_l. Qed.
Print Assumptions C11_json_string_roundtrip.

(** and consists of printable ASCII only *)
Theorem C11_json_string_ascii : forall s, forallb cp_ok s = true ->
  Forall (fun x => 32 <= x <= 126) (json_write_string s).
Proof. exact json_string_ascii_l. Qed.
Print Assumptions C11_json_string_ascii.

(** the condition is exact: two separate surrogate code points are read back as one character *)
Theorem C11_json_surrogate_pair_refuted :
  exists s, forallb cp_ok s = true /\ str_ok s = false /\
            json_write_string s = json_write_string [128512] /\
            json_read_string (json_write_string s) = XOk ([128512], []).
Proof. exact json_surrogate_pair_refuted_l. Qed.
Print Assumptions C11_json_surrogate_pair_refuted.

(** the JSON document of an item carries the label, the reported and next taxon and the closest
    genomes of that item *)
Theorem C11_json_fields : forall it,
  jpath [K_query; K_name] (item_json it) = Some (JStr (i_label it)) /\
  jpath [K_query; K_path] (item_json it) = Some (jopt (fun f => JStr (f_path f)) (i_file it)) /\
  jpath [K_predicted_taxon] (item_json it) = Some (jopt taxon_json (i_report it)) /\
  jpath [K_next_taxon] (item_json it) = Some (jopt taxon_json (c_next (i_cr it))) /\
  jpath [K_closest_genomes] (item_json it) = Some (JArr (map match_json (i_closest it))).
Proof. exact json_fields_l. Qed.
Print Assumptions C11_json_fields.

Theorem C11_json_taxon_fields : forall t,
  jpath [K_key] (taxon_json t) = Some (JStr (t_key t)) /\
  jpath [K_name] (taxon_json t) = Some (JStr (t_name t)) /\
  jpath [K_rank] (taxon_json t) = Some (jopt JStr (t_rank t)) /\
  jpath [K_ncbi_id] (taxon_json t) = Some (jopt JNum (t_ncbi t)) /\
  jpath [K_distance_threshold] (taxon_json t) = Some (jopt JNum (t_thr t)).
Proof. exact json_taxon_fields_l. Qed.
Print Assumptions C11_json_taxon_fields.

Theorem C11_json_match_fields : forall m,
  jpath [K_distance] (match_json m) = Some (JNum (m_dist m)) /\
  jpath [K_genome; K_key] (match_json m) = Some (JStr (g_key (m_genome m))) /\
  jpath [K_genome; K_description] (match_json m) = Some (JStr (g_desc (m_genome m))) /\
  jpath [K_genome; K_taxonomy] (match_json m) = Some (JArr (map taxon_json (g_tax (m_genome m)))) /\
  jpath [K_matched_taxon] (match_json m) = Some (jopt taxon_json (m_taxon m)).
Proof. exact json_match_fields_l. Qed.
Print Assumptions C11_json_match_fields.

(** reading the archive document against the database the results were computed on rebuilds the
    results object: every item, match, distance token, warning, error, file and parameter
    (repaired QueryParams: chunksize may be None) *)
Theorem C11_archive_roundtrip : forall db, db_keys_unique db -> forall r, results_in_db db r ->
  archive_read true db (ar_results r) = XOk r.
Proof. exact archive_roundtrip_l. Qed.
Print Assumptions C11_archive_roundtrip.

(** the unchanged reader does so when the parameters carry an integer chunksize ... *)
Theorem C11_archive_roundtrip_old : forall db, db_keys_unique db -> forall r, results_in_db db r ->
  match r_params r with Some p => p_chunk p <> None | None => True end ->
  archive_read false db (ar_results r) = XOk r.
Proof. exact archive_roundtrip_old_l. Qed.
Print Assumptions C11_archive_roundtrip_old.

(** ... and fails on chunksize = None, which QueryParams documents as "no chunking" *)
Theorem C11_archive_chunksize_none_refuted :
  exists db r, db_keys_unique db /\ results_in_db db r /\
               archive_read false db (ar_results r) = XErr StructureError /\
               archive_read true db (ar_results r) = XOk r.
Proof. exact archive_chunksize_none_refuted_l. Qed.
Print Assumptions C11_archive_chunksize_none_refuted.
