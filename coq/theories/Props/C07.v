(** C07 -- k-mer/index conversion is the base-4 bijection, consistent with revcomp.
    The definitions [kmer_to_index], [kmer_to_index_rc], [index_to_kmer], [revcomp] are the ones
    generated from src/gambit/_cython/kmers.pyx (Gen/KmersPyx.v). *)
From Coq Require Import ZArith List Bool.
From GV Require Import Base.CSem Gen.KmersPyx Spec.Kmers Proofs.C07.
Import ListNotations.
Open Scope Z_scope.

(** the index is the positional base-4 value (A=0,C=1,G=2,T=3, first nucleotide most significant) of
    at most 32 nucleotides in either case; everything else is a ValueError *)
Theorem C07_encode : forall w, bytes w ->
  kmer_to_index w = match spec_encode w with Some v => Ok v | None => Error ValueError end.
Proof. exact C07_encode_l. Qed.
Print Assumptions C07_encode.

Theorem C07_reject : forall w, bytes w ->
  (kmer_to_index w = Error ValueError <->
     (32 < length w)%nat \/ exists b, In b w /\ ~ In b [65; 67; 71; 84; 97; 99; 103; 116]) /\
  (forall v, kmer_to_index w = Ok v ->
     (length w <= 32)%nat /\ Forall (fun b => In b [65; 67; 71; 84; 97; 99; 103; 116]) w).
Proof. exact C07_reject_l. Qed.
Print Assumptions C07_reject.

Theorem C07_decode_encode : forall k idx, 0 <= k <= 32 -> 0 <= idx < 4 ^ k ->
  exists s, index_to_kmer idx k = Ok s /\ Z.of_nat (length s) = k /\
            Forall (fun b => is_ACGT b = true) s /\ kmer_to_index s = Ok idx.
Proof. exact C07_decode_encode_l. Qed.
Print Assumptions C07_decode_encode.

Theorem C07_encode_decode : forall w v, bytes w -> kmer_to_index w = Ok v ->
  0 <= v < 4 ^ Z.of_nat (length w) /\ index_to_kmer v (Z.of_nat (length w)) = Ok (map upper w).
Proof. exact C07_encode_decode_l. Qed.
Print Assumptions C07_encode_decode.

Theorem C07_case : forall w, bytes w ->
  kmer_to_index (map lower w) = kmer_to_index w /\ kmer_to_index (map upper w) = kmer_to_index w.
Proof. exact C07_case_l. Qed.
Print Assumptions C07_case.

Theorem C07_revcomp : forall s, revcomp s = Ok (rev (map comp s)).
Proof. exact C07_revcomp_l. Qed.
Print Assumptions C07_revcomp.

Theorem C07_revcomp_invol : forall s r, revcomp s = Ok r -> revcomp r = Ok s.
Proof. exact C07_revcomp_invol_l. Qed.
Print Assumptions C07_revcomp_invol.

Theorem C07_revcomp_pointwise : forall s r i d, revcomp s = Ok r -> (i < length s)%nat ->
  length r = length s /\ nth i r (comp d) = comp (nth (length s - 1 - i) s d).
Proof. exact C07_revcomp_pointwise_l. Qed.
Print Assumptions C07_revcomp_pointwise.

Theorem C07_comp :
  (comp 65 = 84 /\ comp 84 = 65 /\ comp 67 = 71 /\ comp 71 = 67 /\
   comp 97 = 116 /\ comp 116 = 97 /\ comp 99 = 103 /\ comp 103 = 99) /\
  (forall b, ~ In b [65; 67; 71; 84; 97; 99; 103; 116] -> comp b = b) /\
  (forall b, comp (comp b) = b).
Proof. exact C07_comp_l. Qed.
Print Assumptions C07_comp.

Theorem C07_rc_index : forall w r, bytes w -> revcomp w = Ok r -> kmer_to_index_rc w = kmer_to_index r.
Proof. exact C07_rc_index_l. Qed.
Print Assumptions C07_rc_index.
