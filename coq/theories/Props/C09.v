(** C09 -- the closest-genomes list is the deterministic (distance, reference order) prefix.

    [closest_list], [argmin_first], [closest_genomes], [closest_match], [result_item] are the model
    (Model/C09.v) of get_result_item / classify WITH the fix repo_fixes/C09.diff
    (np.argsort(dists, kind='stable')); [is_argsort] is what the code before the fix relied on
    (np.argsort with unspecified tie order).  Distances are integer keys order-isomorphic to the
    non-negative float32 values; a row is any list of keys, of any length, with any ties. *)
From Coq Require Import ZArith List Bool Arith Sorting.Sorted Sorting.Permutation.
From GV Require Import Base.CSem Model.C09 Spec.C09 Proofs.C09.
Import ListNotations.
Open Scope Z_scope.

(** the list has min(N, number of references) entries *)
Theorem C09_length : forall n ds, length (closest_list n ds) = Nat.min n (length ds).
Proof. exact C09_length_l. Qed.
Print Assumptions C09_length.

(** it is THE list of that length that starts an arrangement of all references in strictly
    increasing (distance, reference order): existence and uniqueness *)
Theorem C09_sorted_prefix : forall n ds l, is_closest_list n ds l <-> l = closest_list n ds.
Proof. exact C09_sorted_prefix_l. Qed.
Print Assumptions C09_sorted_prefix.

(** equivalently: distinct valid references, strictly increasing in (distance, order), and every
    unlisted reference is farther (or equally far and later) than every listed one *)
Theorem C09_nearest : forall n ds l, is_closest_list' n ds l <-> l = closest_list n ds.
Proof. exact C09_nearest_l. Qed.
Print Assumptions C09_nearest.

(** the extracted checker the harness applies to the implementation's list accepts exactly it *)
Theorem C09_checker : forall n ds l, closest_listb n ds l = true <-> l = closest_list n ds.
Proof. exact C09_checker_l. Qed.
Print Assumptions C09_checker.

(** the list is a function of the distance row alone: whatever produces a list meeting the
    specification (any run, CPU dispatch, thread count, chunk size) produces the same list *)
Theorem C09_deterministic : forall n ds l1 l2,
  is_closest_list n ds l1 -> is_closest_list n ds l2 -> l1 = l2.
Proof. exact C09_deterministic_l. Qed.
Print Assumptions C09_deterministic.

(** np.argmin as modelled (left-to-right scan) returns the first position of the minimum, which
    is unique; it fails exactly on the empty row *)
Theorem C09_argmin : forall ds,
  (ds = [] -> argmin_first ds = Error ValueError) /\
  (ds <> [] -> exists i, argmin_first ds = Ok i) /\
  (forall i, argmin_first ds = Ok i -> is_first_argmin ds i) /\
  (forall i j, is_first_argmin ds i -> is_first_argmin ds j -> i = j).
Proof. exact C09_argmin_l. Qed.
Print Assumptions C09_argmin.

(** for N >= 1 the first entry of the list is the classifier's closest genome (argmin) *)
Theorem C09_head_is_argmin : forall n ds, (1 <= n)%nat ->
  match argmin_first ds with
  | Ok i => hd_error (closest_list n ds) = Some i /\ is_first_argmin ds i
  | Error e => ds = [] /\ e = ValueError /\ closest_list n ds = []
  end.
Proof. exact C09_head_is_argmin_l. Qed.
Print Assumptions C09_head_is_argmin.

(** every entry is (reference i, exactly dists[i], matching_taxon(taxon of genome i, dists[i])),
    in the order of [closest_list] *)
Theorem C09_entries : forall db n ds es, closest_genomes db n ds = Ok es ->
  map e_index es = closest_list n ds /\
  Forall (fun e => exists i t m, e = (i, key ds i, m) /\ (i < length ds)%nat /\
                     nth_error (db_gtaxon db) i = Some t /\
                     matching_taxon (S (length (db_taxa db))) (db_taxa db) t (key ds i) = Ok m) es.
Proof. exact C09_entries_l. Qed.
Print Assumptions C09_entries.

(** ... and that taxon is the first one in the genome's lineage whose threshold admits the
    entry's own distance (None if there is none) *)
Theorem C09_entry_taxon : forall db n ds es, closest_genomes db n ds = Ok es ->
  Forall (fun e => forall t l, nth_error (db_gtaxon db) (e_index e) = Some t -> Lineage (db_taxa db) t l ->
                     snd e = find (admitsb (db_taxa db) (snd (fst e))) l) es.
Proof. exact C09_entry_taxon_l. Qed.
Print Assumptions C09_entry_taxon.

(** CSV reports closest_match, JSON reports closest_genomes: the first JSON entry IS the CSV
    one -- same genome, same distance, same matched taxon *)
Theorem C09_csv_json_same : forall db n ds c es, (1 <= n)%nat ->
  result_item db n ds = Ok (c, es) -> hd_error es = Some c.
Proof. exact C09_csv_json_l. Qed.
Print Assumptions C09_csv_json_same.

(** the error values of the model are unreachable on a well-formed database and non-empty row *)
Theorem C09_total : forall db n ds, wf_db db ds = true -> ds <> [] ->
  exists c es, result_item db n ds = Ok (c, es).
Proof. exact C09_total_l. Qed.
Print Assumptions C09_total.

(** REFUTED for the code before the fix (np.argsort without kind='stable'): an argsort result
    allowed by NumPy whose first element is not argmin -- JSON and CSV name different genomes *)
Theorem C09_unstable_head_refuted : exists ds p i,
  is_argsort ds p /\ argmin_first ds = Ok i /\ hd_error (firstn 1 p) <> Some i.
Proof. exact C09_unstable_refuted_l. Qed.
Print Assumptions C09_unstable_head_refuted.

(** REFUTED for the code before the fix: two allowed results that differ (no determinism) *)
Theorem C09_unstable_nondet_refuted : exists ds p1 p2,
  is_argsort ds p1 /\ is_argsort ds p2 /\ firstn 1 p1 <> firstn 1 p2.
Proof. exact C09_unstable_nondet_refuted_l. Qed.
Print Assumptions C09_unstable_nondet_refuted.

(** what the code before the fix does guarantee: the reported distances are the right ones *)
Theorem C09_unstable_distances : forall n ds p, is_argsort ds p ->
  map (key ds) (firstn n p) = map (key ds) (closest_list n ds).
Proof. exact C09_unstable_distances_l. Qed.
Print Assumptions C09_unstable_distances.
