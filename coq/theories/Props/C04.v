(** C04 -- each reference genome is compared through its own signature, matched by ID.

    [init_orig] / [init_fixed] model [ReferenceDatabase.__init__] of src/gambit/db/refdb.py as found
    and as repaired by repo_fixes/C04.diff (a signature file in which two signatures carry the
    identifier of one genome is refused); [locate_files], [suffix], [load_from_dir] model the
    directory scan; [jaccarddist_matrix] models the chunk loop of src/gambit/metric.py taking the
    columns at [ref_indices] (Model/C04.v).  [gs] is the genome set (rows in query order), [meta] the
    [id_attr] of the signature file's metadata, [ids] / [file] the identifiers (with signatures) in
    file order.  [aligned], [own_signature], [complete], [occ], [exactly_one], [has_ext] are the
    specification vocabulary of Spec/C04.v.  No bound on the number of genomes, signatures, directory
    entries, queries or on the chunk size; all four identifier attributes ([a] is universally
    quantified). *)
From Coq Require Import ZArith List Bool Permutation Sorted.
From GV Require Import Model.C04 Spec.C04 Proofs.C04.
Import ListNotations.

(** A loaded database has aligned parallel lists: genomes[j] carries exactly the identifier stored
    at position sig_indices[j] of the file; [genomes] is a permutation of the genome set (nobody
    missing, nobody twice); the indices are strictly increasing. *)
Theorem C04_alignment : forall gs meta ids genomes idxs,
  init_fixed gs meta ids = Ok (genomes, idxs) ->
  exists a, meta = Some (Known a) /\ aligned a ids genomes idxs /\ Permutation genomes gs /\
            StronglySorted lt idxs.
Proof. exact C04_alignment_l. Qed.
Print Assumptions C04_alignment.

(** Every genome of the set is paired, and the position it is paired with is the ONLY position of
    the file holding its identifier -- whatever else the file holds. *)
Theorem C04_every_genome_has_one : forall gs meta ids genomes idxs,
  init_fixed gs meta ids = Ok (genomes, idxs) ->
  exists a, meta = Some (Known a) /\
    forall g, In g gs ->
      exists i k, get_id a g = Some i /\ In (g, k) (combine genomes idxs) /\
                  nth_error ids k = Some i /\ (forall k', nth_error ids k' = Some i -> k' = k) /\
                  occ i ids = 1.
Proof. exact C04_every_genome_has_one_l. Qed.
Print Assumptions C04_every_genome_has_one.

(** Loading fails if the metadata names no (valid) identifier attribute, if a genome has no value
    for it, if a genome's identifier is absent from the file, or if it is not there exactly once. *)
Theorem C04_fails_when_incomplete : forall gs meta ids,
  (meta = None \/ meta = Some Unknown \/
   exists a g, meta = Some (Known a) /\ In g gs /\
               (get_id a g = None \/ (forall i, get_id a g = Some i -> ~ In i ids) \/
                (forall i, get_id a g = Some i -> occ i ids <> 1))) ->
  exists e, init_fixed gs meta ids = Error e.
Proof. exact C04_fails_when_incomplete_l. Qed.
Print Assumptions C04_fails_when_incomplete.

(** Exact characterisation (rows of the genome set are distinct rows): loading succeeds iff the
    file is complete and unambiguous for the genome set. *)
Theorem C04_success_iff : forall gs a ids,
  NoDup gs -> ((exists r, init_fixed gs (Some (Known a)) ids = Ok r) <-> complete a gs ids).
Proof. exact C04_success_iff_l. Qed.
Print Assumptions C04_success_iff.

Theorem C04_completeb_decides : forall a gs ids, completeb a gs ids = true <-> complete a gs ids.
Proof. exact completeb_complete. Qed.
Print Assumptions C04_completeb_decides.

(** Whether loading succeeds depends neither on the order of the signatures in the file nor on
    signatures stored under identifiers of no genome: only on how often each genome's identifier
    occurs. *)
Theorem C04_success_order_padding : forall gs a ids ids',
  NoDup gs -> (forall g i, In g gs -> get_id a g = Some i -> occ i ids = occ i ids') ->
  ((exists r, init_fixed gs (Some (Known a)) ids = Ok r) <->
   (exists r, init_fixed gs (Some (Known a)) ids' = Ok r)).
Proof. exact C04_success_order_padding_l. Qed.
Print Assumptions C04_success_order_padding.

Theorem C04_success_any_order : forall gs a ids ids',
  NoDup gs -> Permutation ids ids' ->
  ((exists r, init_fixed gs (Some (Known a)) ids = Ok r) <->
   (exists r, init_fixed gs (Some (Known a)) ids' = Ok r)).
Proof. exact C04_success_perm_l. Qed.
Print Assumptions C04_success_any_order.

(** The signature found at sig_indices[j] is the genome's own one: the only signature of the file
    stored under the genome's identifier. *)
Theorem C04_own_signature : forall S (file : sigfile S) gs meta genomes idxs,
  init_fixed gs meta (map fst file) = Ok (genomes, idxs) ->
  exists a, meta = Some (Known a) /\
    Forall2 (fun g k => exists s, nth_error (map snd file) k = Some s /\ own_signature a file g s)
            genomes idxs.
Proof. exact C04_own_signature_l. Qed.
Print Assumptions C04_own_signature.

(** "own signature" does not depend on the file order ... *)
Theorem C04_own_signature_any_order : forall S a (f f' : sigfile S) g s,
  Permutation f f' -> own_signature a f g s -> own_signature a f' g s.
Proof. exact C04_own_signature_perm_l. Qed.
Print Assumptions C04_own_signature_any_order.

(** ... nor on unrelated signatures before or after. *)
Theorem C04_own_signature_padding : forall S a (f extra1 extra2 : sigfile S) g s,
  (forall i e, get_id a g = Some i -> In e (extra1 ++ extra2) -> fst e <> i) ->
  own_signature a f g s -> own_signature a (extra1 ++ f ++ extra2) g s.
Proof. exact C04_own_signature_padding_l. Qed.
Print Assumptions C04_own_signature_padding.

(** The chunk loop: for chunksize None or any positive chunk size, the matrix taken through
    [ref_indices] is the unchunked one -- column j is the distance to refs[idxs[j]]. *)
Theorem C04_matrix : forall Q S D (dist : Q -> S -> D) queries refs idxs csize col,
  (csize = None \/ exists n, csize = Some (Datatypes.S n)) ->
  getitem refs idxs = Some col ->
  jaccarddist_matrix dist queries refs idxs csize = MOk (map (fun q => map (dist q) col) queries).
Proof. exact C04_matrix_l. Qed.
Print Assumptions C04_matrix.

(** End to end: in the distance matrix of a query against a loaded database, the entry of row q and
    column j is the distance between q and the own signature of genomes[j]. *)
Theorem C04_distances : forall Q S D (dist : Q -> S -> D) (file : sigfile S) gs meta genomes idxs queries csize,
  init_fixed gs meta (map fst file) = Ok (genomes, idxs) ->
  (csize = None \/ exists n, csize = Some (Datatypes.S n)) ->
  exists a col,
    meta = Some (Known a) /\
    jaccarddist_matrix dist queries (map snd file) idxs csize
      = MOk (map (fun q => map (dist q) col) queries) /\
    Forall2 (own_signature a file) genomes col /\ Permutation genomes gs.
Proof. exact C04_distances_l. Qed.
Print Assumptions C04_distances.

(** PurePath.suffix: a name has extension .e iff it is a non-empty stem followed by .e
    (".gdb" alone, "x.gdb." and "y.GDB" do not count; "x.tar.gs" and "a..gs" do). *)
Theorem C04_suffix_spec : forall e n,
  e <> [] -> ~ In dot e -> (suffix n = dot :: e <-> has_ext (dot :: e) n).
Proof. exact C04_suffix_spec_l. Qed.
Print Assumptions C04_suffix_spec.

Theorem C04_genome_name : forall n,
  is_genome_name n = true <-> has_ext ext_gdb n \/ has_ext ext_db n.
Proof. exact C04_genome_name_l. Qed.
Print Assumptions C04_genome_name.

Theorem C04_sig_name : forall n,
  is_sig_name n = true <-> has_ext ext_gs n \/ has_ext ext_h5 n.
Proof. exact C04_sig_name_l. Qed.
Print Assumptions C04_sig_name.

(** locate_files returns (g, s) iff g is the one genome file and s the one signature file of the
    directory; it fails iff there is not exactly one of each. *)
Theorem C04_locate : forall listing g s,
  locate_files listing = Ok (g, s) <->
  exactly_one is_genome_name listing g /\ exactly_one is_sig_name listing s.
Proof. exact C04_locate_l. Qed.
Print Assumptions C04_locate.

Theorem C04_locate_fails : forall listing,
  (exists e, locate_files listing = Error e) <->
  ~ (exists g s, exactly_one is_genome_name listing g /\ exactly_one is_sig_name listing s).
Proof. exact C04_locate_fails_l. Qed.
Print Assumptions C04_locate_fails.

(** load_from_dir yields a database only from exactly one genome file and one signature file, both
    openable as such, through the constructor. *)
Theorem C04_load_from_dir : forall init dir gs meta ids r,
  load_from_dir init dir gs meta ids = Ok r ->
  exists g s, exactly_one is_genome_name (map fst dir) g /\ exactly_one is_sig_name (map fst dir) s /\
              content_of g dir = CGenomeDb /\ content_of s dir = CSigFile /\ init gs meta ids = Ok r.
Proof. exact C04_load_from_dir_l. Qed.
Print Assumptions C04_load_from_dir.

(** The constructor as found in the repository: alignment holds, ... *)
Theorem C04_alignment_orig : forall gs meta ids genomes idxs,
  init_orig gs meta ids = Ok (genomes, idxs) ->
  exists a, meta = Some (Known a) /\ aligned a ids genomes idxs /\ incl genomes gs /\
            length genomes = length gs /\ StronglySorted lt idxs.
Proof. exact C04_alignment_orig_l. Qed.
Print Assumptions C04_alignment_orig.

(** ... it coincides with the repaired one whenever the identifiers of the file are pairwise
    distinct, ... *)
Theorem C04_orig_agrees : forall gs meta ids,
  NoDup ids -> init_orig gs meta ids = init_fixed gs meta ids.
Proof. exact C04_orig_agrees_l. Qed.
Print Assumptions C04_orig_agrees.

(** ... but "loading fails if some genome has no signature" is REFUTED for it: genome set {a, b},
    file identifiers [a; a] loads with genomes = [a; a]; b has no signature and is in no column. *)
Theorem C04_completeness_orig_refuted :
  exists gs meta ids genomes idxs g,
    init_orig gs meta ids = Ok (genomes, idxs) /\ In g gs /\ ~ In g genomes /\
    (forall i, get_id AKey g = Some i -> ~ In i ids) /\
    meta = Some (Known AKey) /\ genomes = [wit_a; wit_a] /\
    (exists e, init_fixed gs meta ids = Error e).
Proof. exact C04_completeness_orig_refuted_l. Qed.
Print Assumptions C04_completeness_orig_refuted.
