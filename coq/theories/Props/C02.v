(** C02 -- Jaccard distance = |A xor B| / |A or B| rounded once to binary32.
    [jaccarddist], [jaccard], [c_jaccarddist] are generated from src/gambit/_cython/metric.pyx;
    [py_jaccarddist] is the hand model of the wrapper in src/gambit/metric.py. *)
From Coq Require Import ZArith List Bool Reals.
From Flocq Require Import Core.Core IEEE754.BinarySingleNaN.
From GV Require Import Base.CSem Base.F32 Gen.MetricPyx Spec.Jaccard Spec.JaccardF Model.MetricPy
  Proofs.F32Round Proofs.C02 Proofs.C02Index.
Import ListNotations.
Open Scope Z_scope.

(** the merge loop terminates within |A|+|B| steps, never reads outside the arrays, and the value
    returned is (float)|A xor B| / (float)|A or B| (+0 for two empty sets) *)
Theorem C02_union_count : forall fuel A B,
  sorted A -> sorted B -> (length A + length B <= fuel)%nat ->
  c_jaccarddist fuel A B = Ok (ratio_f32 (symdiff_count A B) (union_count A B)) /\
  jaccarddist fuel A B = Ok (ratio_f32 (symdiff_count A B) (union_count A B)).
Proof. exact C02_union_count_l. Qed.
Print Assumptions C02_union_count.

(** for unions of at most 2^24 elements that value is the exact ratio rounded once (nearest-even) *)
Theorem C02_rounded_once : forall fuel A B d,
  sorted A -> sorted B -> (length A + length B <= fuel)%nat ->
  0 < union_count A B <= 16777216 ->
  jaccarddist fuel A B = Ok d ->
  B2R d = round radix2 (FLT_exp (-149) 24) ZnearestE
            (IZR (symdiff_count A B) / IZR (union_count A B)) /\
  is_finite d = true /\ Bsign d = false.
Proof. exact C02_rounded_once_l. Qed.
Print Assumptions C02_rounded_once.

Theorem C02_empty : forall fuel, jaccarddist fuel [] [] = Ok (B754_zero false).
Proof. exact C02_empty_l. Qed.
Print Assumptions C02_empty.

(** the index is 1 - distance, evaluated in binary64 on the exactly widened distance *)
Theorem C02_index : forall fuel A B,
  jaccard fuel A B =
    match jaccarddist fuel A B with
    | Ok d => Ok (f64_minus (f64_of_Z 1) (f64_of_f32 d))
    | Error e => Error e
    end.
Proof. exact C02_index_l. Qed.
Print Assumptions C02_index.

Theorem C02_dtypes : forall k1 s1 A k2 s2 B,
  (forall sz, cast_sigs_array k1 s1 = Ok sz ->
     sz = s1 /\ In (8 * sz) COORDS_T_widths /\ (k1 = 0 \/ k1 = 1)) /\
  ((k1 = 0 \/ k1 = 1) -> In (8 * s1) COORDS_T_widths -> cast_sigs_array k1 s1 = Ok s1) /\
  (cast_sigs_array k1 s1 = Ok s1 -> cast_sigs_array k2 s2 = Ok s2 ->
     py_jaccarddist k1 s1 A k2 s2 B = jaccarddist (length A + length B) A B /\
     py_jaccard k1 s1 A k2 s2 B = jaccard (length A + length B) A B) /\
  ((cast_sigs_array k1 s1 = Error ValueError \/ cast_sigs_array k2 s2 = Error ValueError) ->
     py_jaccarddist k1 s1 A k2 s2 B = Error ValueError).
Proof. exact C02_dtypes_l. Qed.
Print Assumptions C02_dtypes.

(** ... and that subtraction is exact: for every distance the kernel returns for a union of at most 2^24
    k-mers (it is 0 or a binary32 in [2^-24, 1]), 1 - d is representable in binary64, so the reported
    Jaccard index is exactly one minus the reported distance *)
Theorem C02_index_exact : forall fuel A B d j,
  sorted A -> sorted B -> (length A + length B <= fuel)%nat ->
  union_count A B <= 16777216 -> jaccarddist fuel A B = Ok d -> jaccard fuel A B = Ok j ->
  B2R j = (1 - B2R d)%R /\ is_finite j = true.
Proof. exact C02_index_exact_l. Qed.
Print Assumptions C02_index_exact.
