(** C20 -- signature collections index like NumPy sequences and compare by content.

    Model/C20.v follows AdvancedIndexingMixin.__getitem__, ConcatenatedSignatureArray
    (SignatureArray, HDF5Signatures: the (values, bounds) representation), SignatureList and
    AbstractSignatureArray.__eq__; Spec/C20.v says what a plain Python list does.
    [getitem true] is the code with repo_fixes/C20.diff applied, [getitem false] the code as
    found (index arrays converted by an in-place add in the array's own dtype).
    [wf_coll] is the boolean representation invariant (bounds non-empty, starts at 0,
    non-decreasing, ends at len(values)); [content] is the abstraction function
    "signature i = values[bounds[i]:bounds[i+1]]"; [idx_fits] is the stated bound "a slice step
    fits Py_ssize_t". *)
From Coq Require Import ZArith List Bool.
From GV Require Import Spec.C20 Model.C20 Proofs.C20Slice Proofs.C20Arr Proofs.C20.
Import ListNotations.
Open Scope Z_scope.

(** SignatureArray(signatures) for any sequence of signatures: cumulative bounds + copy loop give
    a well-formed collection whose content, length, parameters and iteration are the input's *)
Theorem C20_construct : forall k d l,
  exists sa, sa_of_list k d l = Ok sa /\ wf_arr sa = true /\ arr_content sa = l /\
             sa_kspec sa = k /\ sa_dtype sa = d /\ sa_len sa = zlen l /\
             coll_iter true (CArr sa) = Ok l.
Proof. exact C20_construct_l. Qed.
Print Assumptions C20_construct.

(** for every well-formed collection of either backing (including views produced by earlier
    slicing) and every index expression -- integer, negative integer, slice with any start / stop
    / step, integer array of any dtype, boolean mask, ill-typed object -- what the caller observes
    (the signature, or the items of the sub-collection, or the error class) is exactly what the
    plain list of the collection's signatures gives *)
Theorem C20_refines_list : forall c idx,
  wf_coll c = true -> zlen (content c) <= SSIZE_MAX -> idx_fits idx = true ->
  observe true (getitem true c idx) = list_getitem (content c) idx.
Proof. exact C20_refines_list_l. Qed.
Print Assumptions C20_refines_list.

(** sub-collections are well-formed, of the same backing, and keep k-mer parameters and dtype *)
Theorem C20_invariant : forall c idx c',
  wf_coll c = true -> zlen (content c) <= SSIZE_MAX -> idx_fits idx = true ->
  getitem true c idx = GColl c' ->
  wf_coll c' = true /\ coll_kspec c' = coll_kspec c /\ coll_dtype c' = coll_dtype c /\
  (match c, c' with CArr _, CArr _ | CList _, CList _ => True | _, _ => False end).
Proof. exact C20_invariant_l. Qed.
Print Assumptions C20_invariant.

(** any finite history of assignments, deletions, insertions, pops and appends on the list-backed
    collection: final state and every intermediate observation are those of the plain list, and
    parameters / dtype are untouched *)
Theorem C20_mutation : forall ops l k d,
  sl_history (mk_siglist l k d) ops =
  (mk_siglist (fst (spec_history l ops)) k d, snd (spec_history l ops)).
Proof. exact C20_mutation_l. Qed.
Print Assumptions C20_mutation.

(** __eq__ terminates without error on well-formed collections of any two backings and is true
    exactly when k-mer parameters and all signatures are equal *)
Theorem C20_eq_iff : forall c1 c2, wf_coll c1 = true -> wf_coll c2 = true ->
  (coll_eq true c1 c2 = Ok true <-> coll_kspec c1 = coll_kspec c2 /\ content c1 = content c2) /\
  (exists b, coll_eq true c1 c2 = Ok b).
Proof. exact C20_eq_iff_l. Qed.
Print Assumptions C20_eq_iff.

(** the code as found does NOT refine the list: np.array([-1], dtype=int8) on 129 signatures
    (both backings); the list gives signature 128 *)
Theorem C20_index_array_old_refuted :
  exists k d l idx,
    (forall kind : bool, let c := if kind then CArr (enc k d l) else CList (mk_siglist l k d) in
       wf_coll c = true /\ content c = l /\
       observe false (getitem false c idx) <> list_getitem l idx) /\
    list_getitem l idx = RColl [[128]].
Proof. exact C20_old_refuted_l. Qed.
Print Assumptions C20_index_array_old_refuted.

(** ... and it agrees with the repaired code whenever len + index fits the index dtype *)
Theorem C20_index_array_old_ok_when_fits : forall c dt xs,
  wf_coll c = true ->
  Forall (fun x => x < 0 -> wrap dt (x + zlen (content c)) = x + zlen (content c)) xs ->
  getitem false c (PInts dt xs) = getitem true c (PInts dt xs).
Proof. exact C20_old_ok_when_fits_l. Qed.
Print Assumptions C20_index_array_old_ok_when_fits.
