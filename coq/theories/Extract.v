(** Extraction of the executable model to OCaml.  Only ExtrOcamlBasic is used:
    nat, positive, N, Z stay the extracted inductive types. *)
From Coq Require Extraction.
From Coq Require Import ExtrOcamlBasic.
From GV Require Import Entry.Main.
Extraction Language OCaml.
Extraction "model.ml" gv_dispatch z_mul10_add z_divmod10 z_neg.
