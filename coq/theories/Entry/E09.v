(** Entry points for C09 (closest-genomes list).

    op 1  (n ds)                 -> closest_list n ds                    list of indices
    op 2  ds                     -> argmin_first ds                      result index
    op 3  (n ds taxa gtaxon)     -> result_item                          result ((i d m) ((i d m) ...))
    op 11 (n ds l)               -> closest_listb n ds l                 bool   (spec checker)
    op 12 (ds taxa gtaxon)       -> wf_db                                bool
    ds: list of integer keys; taxa: list of (parent? threshold?) with options as () / (x);
    gtaxon: taxon index of every reference genome; m: option taxon index. *)
From Coq Require Import ZArith List Bool.
From GV Require Import Base.Val Base.CSem Model.C09 Spec.C09 Entry.Codec.
Import ListNotations.
Open Scope Z_scope.

Definition to_taxon (v : val) : option nat * option Z :=
  match v with
  | VL [p; t] => (to_opt to_nat p, to_opt to_Z t)
  | _ => (None, None)
  end.

Definition to_db (taxa gt : val) : refdb :=
  {| db_taxa := map to_taxon (to_list taxa); db_gtaxon := to_nats gt |}.

Definition ventry (e : nat * Z * option nat) : val :=
  VL [vnat (fst (fst e)); VI (snd (fst e)); vopt vnat (snd e)].

Definition dispatch (op : Z) (a : val) : val :=
  match op with
  | 1 => match a with VL [VI n; ds] => vlist vnat (closest_list (Z.to_nat n) (to_Zs ds)) | _ => vbad end
  | 2 => vres vnat (argmin_first (to_Zs a))
  | 3 => match a with
         | VL [VI n; ds; taxa; gt] =>
           vres (fun r => VL [ventry (fst r); vlist ventry (snd r)])
                (result_item (to_db taxa gt) (Z.to_nat n) (to_Zs ds))
         | _ => vbad
         end
  | 11 => match a with
          | VL [VI n; ds; l] => vbool (closest_listb (Z.to_nat n) (to_Zs ds) (to_nats l))
          | _ => vbad
          end
  | 12 => match a with
          | VL [ds; taxa; gt] => vbool (wf_db (to_db taxa gt) (to_Zs ds))
          | _ => vbad
          end
  | _ => vbad
  end.
