(** Entry points for C01 / C06 (k-mer search and signatures). *)
From Coq Require Import ZArith List Bool.
From GV Require Import Base.Val Base.CSem Spec.Kmers Spec.C01 Model.C01 Entry.Codec.
Import ListNotations.
Open Scope Z_scope.

Definition vmatch (m : kmatch) : val := VL [VI (fst m); vbool (snd m)].
Definition to_seqs (v : val) : list (list Z) := map to_Zs (to_list v).

Definition dispatch (op : Z) (a : val) : val :=
  match op with
  (* 1: find_kmers (k p s) -> matches in yield order *)
  | 1 => match a with
         | VL [VI k; p; s] => vres (vlist vmatch) (find_kmers k (to_Zs p) (to_Zs s))
         | _ => vbad end
  (* 2: calc_signature (dense k p seqs) -> (sig itemsize?) *)
  | 2 => match a with
         | VL [VI d; VI k; p; seqs] =>
             vres (fun r => VL [vZs (fst r); vopt VI (snd r)])
                  (calc_signature (negb (d =? 0)) k (to_Zs p) (to_seqs seqs))
         | _ => vbad end
  (* 3: specification (k p seqs) -> sorted unique k-mer indices *)
  | 3 => match a with
         | VL [VI k; p; seqs] => vZs (signature_spec (Z.to_nat k) (to_Zs p) (to_seqs seqs))
         | _ => vbad end
  | 4 => match a with VI k => vopt VI (dtype_spec (Z.to_nat k)) | _ => vbad end
  (* 5: spec occurrences on one strand (k p s) -> list of kmer indices in position order *)
  | 5 => match a with
         | VL [VI k; p; s] => vZs (fwd_kmers (Z.to_nat k) (to_Zs p) (to_Zs s))
         | _ => vbad end
  | _ => vbad
  end.
