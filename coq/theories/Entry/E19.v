(** Entry points for C19 (interrupted signature-file writes); wire format as in Entry/E12.v.
      op     = (0 key aval) | (1 key dset) | (2 key ity n) | (3 key a b ints)
      policy = 0 AtClose | 1 Eager | 2 + k FlushedAt k
    ops 1-6 speak about [dump_ops] (the repaired order, marker last); 7, 8 give the order as found [dump_ops_v0];
    9 / 10 = what both readers answer on the file of a writer that RAISED after n calls of [dump_ops] / [dump_ops_v0] *)
From Coq Require Import ZArith List Bool.
From GV Require Import Base.Val Model.Store Entry.E12.
Import ListNotations.
Open Scope Z_scope.

Definition vop (o : op) : val :=
  match o with
  | OSetAttr k v => VL [VI 0; VI k; vaval v]
  | OCreate k d => VL [VI 1; VI k; vdset d]
  | OCreateZero k t n => VL [VI 2; VI k; VI (ity_code t); VI n]
  | OWrite k a b data => VL [VI 3; VI k; VI a; VI b; vZl data]
  end.
(** the same with array contents replaced by their lengths (for multi-megabyte payloads) *)
Definition vop_short (o : op) : val :=
  match o with
  | OSetAttr k v => VL [VI 0; VI k; vaval v]
  | OCreate k (DInt t l) => VL [VI 1; VI k; VI (ity_code t); VI (zlen l)]
  | OCreate k (DStr l) => VL [VI 1; VI k; VI (-1); VI (zlen l)]
  | OCreateZero k t n => VL [VI 2; VI k; VI (ity_code t); VI n]
  | OWrite k a b data => VL [VI 3; VI k; VI a; VI b; VI (zlen data)]
  end.
Definition to_policy (v : val) : policy :=
  let z := to_Z v in if z =? 0 then AtClose else if z =? 1 then Eager else FlushedAt (Z.to_nat (z - 2)).

(** (load_file, load_file_cur, decoded signatures) on what a writer that raised after the calls [done] leaves *)
Definition raised_answers (done : list op) : val :=
  VL [vsres vloaded (sbind (raised_disk done) load_file);
      vsres vloaded (sbind (raised_disk done) load_file_cur);
      vsres vsigs (sbind (sbind (raised_disk done) load_file) decode)].

Definition dispatch (op : Z) (a : val) : val :=
  match op with
  | 1 => match a with VL [p; c] => match to_coll c with Some c => VL (map vop (dump_ops (to_path p) c)) | None => vbad end
                  | _ => vbad end
  | 2 => match a with VL [p; c] => match to_coll c with Some c => VL (map vop_short (dump_ops (to_path p) c)) | None => vbad end
                  | _ => vbad end
  | 3 => match a with
         | VL [pol; p; c; VI n; junk] =>
             match to_coll c with
             | Some c => vsres vloaded (load_file (crash_disk (to_policy pol) (to_disk junk)
                                                              (firstn (Z.to_nat n) (dump_ops (to_path p) c))))
             | None => vbad end
         | _ => vbad end
  | 4 => match a with
         | VL [p; c] =>
             match to_coll c with
             | Some c => vsres vloaded (sbind (closed_disk (dump_ops (to_path p) c)) load_file)
             | None => vbad end
         | _ => vbad end
  | 5 => match a with
         | VL [pol; p; c; VI n; junk] =>
             match to_coll c with
             | Some c => vsres vsigs (sbind (load_file (crash_disk (to_policy pol) (to_disk junk)
                                                                   (firstn (Z.to_nat n) (dump_ops (to_path p) c)))) decode)
             | None => vbad end
         | _ => vbad end
  | 6 => match a with
         | VL [pol; p; c; VI n; junk] =>
             match to_coll c with
             | Some c => vsres vloaded (load_file_cur (crash_disk (to_policy pol) (to_disk junk)
                                                                  (firstn (Z.to_nat n) (dump_ops (to_path p) c))))
             | None => vbad end
         | _ => vbad end
  | 7 => match a with VL [p; c] => match to_coll c with Some c => VL (map vop (dump_ops_v0 (to_path p) c)) | None => vbad end
                  | _ => vbad end
  | 8 => match a with VL [p; c] => match to_coll c with Some c => VL (map vop_short (dump_ops_v0 (to_path p) c)) | None => vbad end
                  | _ => vbad end
  | 9 => match a with
         | VL [p; c; VI n] =>
             match to_coll c with
             | Some c => raised_answers (firstn (Z.to_nat n) (dump_ops (to_path p) c))
             | None => vbad end
         | _ => vbad end
  | 10 => match a with
         | VL [p; c; VI n] =>
             match to_coll c with
             | Some c => raised_answers (firstn (Z.to_nat n) (dump_ops_v0 (to_path p) c))
             | None => vbad end
         | _ => vbad end
  | _ => vbad
  end.
