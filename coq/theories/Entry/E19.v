(** Entry points for C19 (interrupted signature-file writes); wire format as in Entry/E12.v.
      op     = (0 key aval) | (1 key dset) | (2 key ity n) | (3 key a b ints)
      policy = 0 AtClose | 1 Eager *)
From Coq Require Import ZArith List Bool.
From GV Require Import Base.Val Model.Store Entry.E12.
Import ListNotations.
Open Scope Z_scope.

Definition vop (o : op) : val :=
  match o with
  | OSetAttr k v => VL [VI 0; VI k; vaval v]
  | OCreate k d => VL [VI 1; VI k; vdset d]
  | OCreateZero k t n => VL [VI 2; VI k; VI (ity_code t); VI n]
  | OWrite k a b data => VL [VI 3; VI k; VI a; VI b; vZl data]
  end.
(** the same with array contents replaced by their lengths (for multi-megabyte payloads) *)
Definition vop_short (o : op) : val :=
  match o with
  | OSetAttr k v => VL [VI 0; VI k; vaval v]
  | OCreate k (DInt t l) => VL [VI 1; VI k; VI (ity_code t); VI (zlen l)]
  | OCreate k (DStr l) => VL [VI 1; VI k; VI (-1); VI (zlen l)]
  | OCreateZero k t n => VL [VI 2; VI k; VI (ity_code t); VI n]
  | OWrite k a b data => VL [VI 3; VI k; VI a; VI b; VI (zlen data)]
  end.
Definition to_policy (v : val) : policy := if to_Z v =? 0 then AtClose else Eager.

Definition dispatch (op : Z) (a : val) : val :=
  match op with
  | 1 => match a with VL [p; c] => match to_coll c with Some c => VL (map vop (dump_ops (to_path p) c)) | None => vbad end
                  | _ => vbad end
  | 2 => match a with VL [p; c] => match to_coll c with Some c => VL (map vop_short (dump_ops (to_path p) c)) | None => vbad end
                  | _ => vbad end
  | 3 => match a with
         | VL [pol; p; c; VI n; junk] =>
             match to_coll c with
             | Some c => vsres vloaded (load_file (crash_disk (to_policy pol) (to_disk junk)
                                                              (firstn (Z.to_nat n) (dump_ops (to_path p) c))))
             | None => vbad end
         | _ => vbad end
  | 4 => match a with
         | VL [p; c] =>
             match to_coll c with
             | Some c => vsres vloaded (sbind (closed_disk (dump_ops (to_path p) c)) load_file)
             | None => vbad end
         | _ => vbad end
  | 5 => match a with
         | VL [pol; p; c; VI n; junk] =>
             match to_coll c with
             | Some c => vsres vsigs (sbind (load_file (crash_disk (to_policy pol) (to_disk junk)
                                                                   (firstn (Z.to_nat n) (dump_ops (to_path p) c)))) decode)
             | None => vbad end
         | _ => vbad end
  | 6 => match a with
         | VL [pol; p; c; VI n; junk] =>
             match to_coll c with
             | Some c => vsres vloaded (load_file_cur (crash_disk (to_policy pol) (to_disk junk)
                                                                  (firstn (Z.to_nat n) (dump_ops (to_path p) c))))
             | None => vbad end
         | _ => vbad end
  | _ => vbad
  end.
