(** Entry points for C05 (bulk / parallel distance computations).
    Wire conventions: container 0 = SignatureArray, 1 = HDF5Signatures, 2 = SignatureList,
    3 = plain list; dtype = (kind itemsize) as in E02; optional values () / (x); a caller-supplied
    buffer = (shape is_float32 cells) with cells as binary32 bit patterns (rows of cells for 2-D);
    results (0 payload) / (1 code) with code 3 = ValueError, 6 = IndexError, 7 = AttributeError, 10 + c = kernel
    failure c (Entry/Codec.v [err_code]). *)
From Coq Require Import ZArith List Bool.
From GV Require Import Base.Val Base.CSem Base.F32 Gen.MetricPyx Spec.Jaccard Spec.JaccardF
  Spec.C05 Model.MetricPy Model.C05 Entry.Codec.
Import ListNotations.
Open Scope Z_scope.

Definition perr_code (e : perr) : Z :=
  match e with PValueError => 3 | PIndexError => 6 | PAttributeError => 7 | PKernel e => 10 + err_code e end.
Definition vpres {A} (f : A -> val) (r : pres A) : val :=
  match r with POk a => vok (f a) | PErr e => verr (perr_code e) end.

Definition to_container (v : val) : container :=
  match to_Z v with 0 => CArray | 1 => CHdf5 | 2 => CSigList | _ => CPyList end.
Definition to_dt (v : val) : Z * Z :=
  match v with VL [VI k; VI s] => (k, s) | _ => (2, 0) end.
Definition to_sigs (v : val) : sigs := map to_Zs (to_list v).
Definition to_cells (v : val) : list f32 := map (fun x => f32_of_bits (to_Z x)) (to_list v).
Definition to_rows (v : val) : list (list f32) := map to_cells (to_list v).
Definition to_obuf {C} (f : val -> C) (v : val) : option (obuf C) :=
  match v with
  | VL [VL [sh; fl; cells]] => Some (to_Zs sh, to_bool fl, f cells)
  | _ => None
  end.
Definition vcells (l : list f32) : val := VL (map vf32 l).
Definition vrows (l : list (list f32)) : val := VL (map vcells l).
Definition vslices (l : list (Z * Z)) : val := VL (map (fun p => VL [VI (fst p); VI (snd p)]) l).

(** ops 3, 4, 5 run the repaired wrapping of plain lists (repo_fixes/C05.diff); 23, 24, 25 the code as found *)
Definition dispatch (op0 : Z) (a : val) : val :=
  let fx := op0 <? 20 in
  let op := if fx then op0 else op0 - 20 in
  match op with
  (* 1: chunk_slices (n size) *)
  | 1 => match a with VL [VI n; VI s] => vpres vslices (chunk_slices n s) | _ => vbad end
  (* 2: jaccarddist_array (container dq dr query refs out) *)
  | 2 => match a with
         | VL [c; dq; dr; q; refs; out] =>
             vpres vcells (jd_array (to_container c) (to_dt dq) (to_dt dr) (to_Zs q) (to_sigs refs)
                             (to_obuf to_cells out))
         | _ => vbad end
  (* 3: jaccarddist_matrix (container dq dr queries refs ref_indices out chunksize) *)
  | 3 => match a with
         | VL [c; dq; dr; qs; refs; ri; out; cs] =>
             vpres vrows (jd_matrix fx (to_container c) (to_dt dq) (to_dt dr) (to_sigs qs) (to_sigs refs)
                            (to_opt to_Zs ri) (to_obuf to_rows out) (to_opt to_Z cs))
         | _ => vbad end
  (* 4: jaccarddist_pairwise, square form (container dtype sigs indices out) *)
  | 4 => match a with
         | VL [c; d; ss; idx; out] =>
             vpres vrows (jd_pairwise_square fx (to_container c) (to_dt d) (to_sigs ss) (to_opt to_Zs idx)
                            (to_obuf to_rows out))
         | _ => vbad end
  (* 5: jaccarddist_pairwise, condensed form *)
  | 5 => match a with
         | VL [c; d; ss; idx; out] =>
             vpres vcells (jd_pairwise_flat fx (to_container c) (to_dt d) (to_sigs ss) (to_opt to_Zs idx)
                             (to_obuf to_cells out))
         | _ => vbad end
  (* 6: generated prange loop run in iteration order pi: (pi query values bounds out) *)
  | 6 => match a with
         | VL [pi; q; vals; bnds; out] =>
             let q := to_Zs q in let vals := to_Zs vals in
             vres vcells (_jaccarddist_parallel_order (length q + length vals) (to_Zs pi) q vals
                            (to_Zs bnds) (to_cells out))
         | _ => vbad end
  (* 7: generated prange loop, sequential: (query values bounds out) *)
  | 7 => match a with
         | VL [q; vals; bnds; out] =>
             let q := to_Zs q in let vals := to_Zs vals in
             vres vcells (_jaccarddist_parallel (length q + length vals) q vals (to_Zs bnds) (to_cells out))
         | _ => vbad end
  (* 8: spec: matrix of pair distances (queries refs) *)
  | 8 => match a with VL [qs; refs] => vrows (dist_matrix (to_sigs qs) (to_sigs refs)) | _ => vbad end
  (* 9: spec: condensed all-pairs form *)
  | 9 => vcells (dist_condensed (to_sigs a))
  (* 10: spec: selection (list idxs) -> option *)
  | 10 => match a with VL [l; idx] => vopt (fun l => VL (map vZs l)) (select (to_sigs l) (to_Zs idx)) | _ => vbad end
  (* 11: concatenated representation (values bounds) *)
  | 11 => let r := to_sigs a in VL [vZs (cat_values r); vZs (cat_bounds r)]
  (* 12: condensed offset (n i j) *)
  | 12 => match a with VL [VI n; VI i; VI j] => VI (condensed_offset n i j) | _ => vbad end
  | _ => vbad
  end.
