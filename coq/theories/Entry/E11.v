(** Entry points for C11 (export formats).  Wire shapes (see harness/c11.py, [enc_*]):
      str      = list of code points            option x = () | (x)
      taxon    = (id key name ncbi? rank? thr?)
      genome   = (key desc org? ncbi_db? ncbi_id? genbank? refseq? id (taxon ...))
      match    = (genome dist taxon?)
      cresult  = (success pred? primary? closest next? (warning ...) error?)
      file     = (path format compression?)
      item     = (label file? cresult report? (match ...))
      params   = (strict chunksize? report_closest)
      gset     = (id key version? name description?)
      jv       = (0) | (1 b) | (2 token) | (3 str) | (4 (jv ...)) | (5 ((key jv) ...))
      results  = ((item ...) params? gset sigmeta-jv version timestamp extra-jv)
      refdb    = ((gset ...) (taxon ...) (genome ...)) *)
From Coq Require Import ZArith List Bool.
From GV Require Import Base.Val Model.C11Csv Model.C11Json Model.C11Export.
Import ListNotations.
Open Scope Z_scope.

Definition vstr (s : str) : val := VL (map VI s).
Definition vrows (rows : list (list str)) : val := vlist (vlist vstr) rows.
Definition to_rows (v : val) : list (list str) := map (fun r => map to_Zs (to_list r)) (to_list v).
Definition nthv (n : nat) (v : val) : val := nth n (to_list v) (VL []).
Definition to_ostr (v : val) : option str := to_opt to_Zs v.

Definition xerr_code (e : xerr) : Z :=
  match e with DecodeError => 11 | OutOfFuel => 12 | NoResultFound => 13
             | MultipleResultsFound => 14 | StructureError => 15 end.
Definition vxres {A} (f : A -> val) (r : xres A) : val :=
  match r with XOk a => vok (f a) | XErr e => verr (xerr_code e) end.

Fixpoint to_jv (v : val) : jv :=
  match v with
  | VL [VI 0] => JNull
  | VL [VI 1; VI b] => JBool (negb (b =? 0))
  | VL [VI 2; t] => JNum (to_Zs t)
  | VL [VI 3; s] => JStr (to_Zs s)
  | VL [VI 4; VL l] => JArr (map to_jv l)
  | VL [VI 5; VL l] =>
      JObj (map (fun kv => match kv with
                           | VL [k; x] => (to_Zs k, to_jv x)
                           | _ => ([], JNull)
                           end) l)
  | _ => JNull
  end.

Fixpoint of_jv (j : jv) : val :=
  match j with
  | JNull => VL [VI 0]
  | JBool b => VL [VI 1; vbool b]
  | JNum t => VL [VI 2; vstr t]
  | JStr s => VL [VI 3; vstr s]
  | JArr l => VL [VI 4; VL (map of_jv l)]
  | JObj l => VL [VI 5; VL (map (fun kv => VL [vstr (fst kv); of_jv (snd kv)]) l)]
  end.

Definition to_taxon (v : val) : taxon :=
  mkT (to_Zs (nthv 0 v)) (to_Zs (nthv 1 v)) (to_Zs (nthv 2 v)) (to_ostr (nthv 3 v))
      (to_ostr (nthv 4 v)) (to_ostr (nthv 5 v)).
Definition to_genome (v : val) : genome :=
  mkG (to_Zs (nthv 0 v)) (to_Zs (nthv 1 v)) (to_ostr (nthv 2 v)) (to_ostr (nthv 3 v))
      (to_ostr (nthv 4 v)) (to_ostr (nthv 5 v)) (to_ostr (nthv 6 v)) (to_Zs (nthv 7 v))
      (map to_taxon (to_list (nthv 8 v))).
Definition to_match (v : val) : gmatch :=
  mkM (to_genome (nthv 0 v)) (to_Zs (nthv 1 v)) (to_opt to_taxon (nthv 2 v)).
Definition to_cresult (v : val) : cresult :=
  mkC (to_bool (nthv 0 v)) (to_opt to_taxon (nthv 1 v)) (to_opt to_match (nthv 2 v))
      (to_match (nthv 3 v)) (to_opt to_taxon (nthv 4 v)) (map to_Zs (to_list (nthv 5 v)))
      (to_ostr (nthv 6 v)).
Definition to_file (v : val) : qfile :=
  mkF (to_Zs (nthv 0 v)) (to_Zs (nthv 1 v)) (to_ostr (nthv 2 v)).
Definition to_item (v : val) : item :=
  mkI (to_Zs (nthv 0 v)) (to_opt to_file (nthv 1 v)) (to_cresult (nthv 2 v))
      (to_opt to_taxon (nthv 3 v)) (map to_match (to_list (nthv 4 v))).
Definition to_params (v : val) : params :=
  mkP (to_bool (nthv 0 v)) (to_ostr (nthv 1 v)) (to_Zs (nthv 2 v)).
Definition to_gset (v : val) : gset :=
  mkGS (to_Zs (nthv 0 v)) (to_Zs (nthv 1 v)) (to_ostr (nthv 2 v)) (to_Zs (nthv 3 v))
       (to_ostr (nthv 4 v)).
Definition to_results (v : val) : results :=
  mkR (map to_item (to_list (nthv 0 v))) (to_opt to_params (nthv 1 v)) (to_gset (nthv 2 v))
      (to_jv (nthv 3 v)) (to_Zs (nthv 4 v)) (to_Zs (nthv 5 v)) (to_jv (nthv 6 v)).
Definition to_refdb (v : val) : refdb :=
  mkDB (map to_gset (to_list (nthv 0 v))) (map to_taxon (to_list (nthv 1 v)))
       (map to_genome (to_list (nthv 2 v))).
Definition to_xitems (v : val) : list (item * str) :=
  map (fun p => (to_item (nthv 0 p), to_Zs (nthv 1 p))) (to_list v).

Definition vostr (o : option str) : val := vopt vstr o.
Definition of_taxon (t : taxon) : val :=
  VL [vstr (t_id t); vstr (t_key t); vstr (t_name t); vostr (t_ncbi t); vostr (t_rank t); vostr (t_thr t)].
Definition of_genome (g : genome) : val :=
  VL [vstr (g_key g); vstr (g_desc g); vostr (g_org g); vostr (g_ncbi_db g); vostr (g_ncbi_id g);
      vostr (g_gb g); vostr (g_rs g); vstr (g_id g); vlist of_taxon (g_tax g)].
Definition of_match (m : gmatch) : val :=
  VL [of_genome (m_genome m); vstr (m_dist m); vopt of_taxon (m_taxon m)].
Definition of_cresult (c : cresult) : val :=
  VL [vbool (c_success c); vopt of_taxon (c_pred c); vopt of_match (c_primary c);
      of_match (c_closest c); vopt of_taxon (c_next c); vlist vstr (c_warn c); vostr (c_err c)].
Definition of_file (f : qfile) : val := VL [vstr (f_path f); vstr (f_format f); vostr (f_comp f)].
Definition of_item (i : item) : val :=
  VL [vstr (i_label i); vopt of_file (i_file i); of_cresult (i_cr i); vopt of_taxon (i_report i);
      vlist of_match (i_closest i)].
Definition of_params (p : params) : val := VL [vbool (p_strict p); vostr (p_chunk p); vstr (p_nclosest p)].
Definition of_gset (g : gset) : val :=
  VL [vstr (gs_id g); vstr (gs_key g); vostr (gs_version g); vstr (gs_name g); vostr (gs_desc g)].
Definition of_results (r : results) : val :=
  VL [vlist of_item (r_items r); vopt of_params (r_params r); of_gset (r_gset r);
      of_jv (r_sigmeta r); vstr (r_version r); vstr (r_timestamp r); of_jv (r_extra r)].

Definition dispatch (op : Z) (a : val) : val :=
  match op with
  | 1 => vstr (csv_write_old (to_rows a))
  | 2 => vstr (csv_write_fixed (to_rows a))
  | 3 => vrows (csv_parse (to_Zs a))
  | 4 => vstr (json_write_string (to_Zs a))
  | 5 => vxres (fun p => VL [vstr (fst p); vstr (snd p)]) (json_read_string (to_Zs a))
  | 6 => vstr (csv_export_old (to_xitems a))
  | 7 => vstr (csv_export_fixed (to_xitems a))
  | 8 => vstr (json_export (to_results a))
  | 9 => vstr (archive_export (to_results a))
  | 10 => vxres of_results (archive_read true (to_refdb (nthv 0 a)) (ar_results (to_results (nthv 1 a))))
  | 11 => vrows (csv_rows (to_xitems a))
  | 12 => vbool (rows_cr_ok (to_rows a))
  | 13 => vbool (str_ok (to_Zs a))
  | 14 => vstr (json_write (to_jv a))
  | 15 => vxres of_results (archive_read true (to_refdb (nthv 0 a)) (to_jv (nthv 1 a)))
  | 16 => vxres of_results (archive_read false (to_refdb (nthv 0 a)) (ar_results (to_results (nthv 1 a))))
  | _ => vbad
  end.
