(** Encoders shared by the [Entry] files. *)
From Coq Require Import ZArith List Bool.
From GV Require Import Base.Val Base.CSem Base.F32.
Import ListNotations.
Open Scope Z_scope.

Definition err_code (e : err) : Z :=
  match e with OOB => 1 | OutOfFuel => 2 | ValueError => 3 | TypeError => 4 | OverflowError => 5 | IndexError => 6 end.
Definition vres {A} (f : A -> val) (r : res A) : val :=
  match r with Ok a => vok (f a) | Error e => verr (err_code e) end.
Definition vZs (l : list Z) : val := VL (map VI l).
Definition vf32 (x : f32) : val := VI (f32_bits x).
Definition vf64 (x : f64) : val := VI (f64_bits x).
