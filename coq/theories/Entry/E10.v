(** Entry points for C10 (strict classification: consensus of all matches).
    taxon   = list of node ids, root first        genome = ((id thr?)... ) dist   with thr? = () | (n)
    1 consensus (repaired)   2 consensus_v0 (as found)   3 specification (consensus_spec, below_spec)
    4 classify_strict        5 classify_strict_v0         6 matching_taxon      7 find_matches *)
From Coq Require Import ZArith List Bool.
From GV Require Import Base.Val Base.CSem Spec.C10 Model.C10 Entry.Codec.
Import ListNotations.
Open Scope Z_scope.

Definition vtaxon (t : taxon) : val := VL (map vnat t).
Definition to_taxa (a : val) : list taxon := map to_nats (to_list a).

Definition to_node (v : val) : nat * option nat :=
  match v with
  | VL [i; th] => (to_nat i, to_opt to_nat th)
  | _ => (0%nat, None)
  end.
Definition to_genome (v : val) : genome :=
  match v with
  | VL [lin; d] => (map to_node (to_list lin), to_nat d)
  | _ => ([], 0%nat)
  end.
Definition to_genomes (a : val) : list genome := map to_genome (to_list a).

Definition vcons (r : option taxon * list taxon) : val :=
  VL [vopt vtaxon (fst r); vlist vtaxon (snd r)].

Definition vbest (b : nat * nat * taxon) : val :=
  match b with (i, d, t) => VL [vnat i; vnat d; vtaxon t] end.

Definition vstrict (r : strict_result) : val :=
  VL [vbool (sr_success r); vopt vtaxon (sr_predicted r); vopt vbest (sr_primary r);
      vlist vtaxon (sr_others r)].

Definition dispatch (op : Z) (a : val) : val :=
  match op with
  | 1 => vres vcons (consensus (to_taxa a))
  | 2 => vres vcons (consensus_v0 (to_taxa a))
  | 3 => let l := to_taxa a in vcons (consensus_spec l, below_spec (consensus_spec l) l)
  | 4 => vres vstrict (classify_strict (to_genomes a))
  | 5 => vres vstrict (classify_strict_v0 (to_genomes a))
  | 6 => vopt vtaxon (matching_taxon (to_genome a))
  | 7 => vlist (vpair vtaxon (vlist vnat)) (find_matches (to_genomes a))
  | _ => vbad
  end.
