(** Entry points for C16 (distance-matrix command).

    wire formats   str     : list of code points          entry : (str genome-index)
                   option  : () / (x)                      D     : rows of binary32 bit patterns,
                                                                  D[g1][g2] = distance of genomes g1, g2
                   params  : (q ql qfs qs r rl rfs rs use_db db square)
                   dres    : (0 payload) | (1 code)   codes: 1 usage, 2 no database, 3 no such file,
                             4 shape (ValueError), 5 IndexError, 6 uninitialised cell, 7 fuel, 8 unreachable
                   cell    : () uninitialised | (bits) *)
From Coq Require Import ZArith List Bool.
From GV Require Import Base.Val Model.C16 Spec.C16.
Import ListNotations.
Open Scope Z_scope.

Definition derr_code (e : derr) : Z :=
  match e with
  | UsageError => 1 | NoDatabase => 2 | NoSuchFile => 3 | ShapeError => 4 | IndexErr => 5
  | Uninitialised => 6 | FmtFuel => 7 | Unreachable => 8
  end.
Definition vdres {A} (f : A -> val) (r : dres A) : val :=
  match r with DOk a => vok (f a) | DErr e => verr (derr_code e) end.

Definition vstr (s : str) : val := VL (map VI s).
Definition vtable (t : table) : val := vlist (vlist vstr) t.
Definition vcell (c : cell) : val := vopt VI c.
Definition vmat (m : mat) : val := vlist (vlist vcell) m.

Definition to_entry (v : val) : entry :=
  match v with VL [s; VI g] => (to_Zs s, g) | _ => ([], -1) end.
Definition to_entries (v : val) : list entry := map to_entry (to_list v).
Definition to_cell (v : val) : cell := to_opt to_Z v.

(** the oracle: a table lookup; cells the harness did not send read as -1 *)
Definition oracle (D : list (list Z)) (a b : G) : Z :=
  if (a <? 0) || (b <? 0) then -1 else nth (Z.to_nat b) (nth (Z.to_nat a) D []) (-1).
Definition to_D (v : val) : list (list Z) := map to_Zs (to_list v).

Definition to_params (v : val) : option params :=
  match v with
  | VL [q; ql; qfs; qs; r; rl; rfs; rs; udb; db; sq] =>
      Some (mkParams (to_entries q) (to_opt to_Zs ql) (to_entries qfs) (to_opt to_entries qs)
                     (to_entries r) (to_opt to_Zs rl) (to_entries rfs) (to_opt to_entries rs)
                     (to_bool udb) (to_opt to_entries db) (to_bool sq))
  | _ => None
  end.

Definition vscaled (b : Z) : val :=
  match f32_dyadic_of_bits b with
  | Some (s, m, e) => VL [vbool s; VI (scaled4 m e)]
  | None => VL []
  end.

Definition dispatch (op : Z) (a : val) : val :=
  match op with
  (* 1: dist_cmd (D params) *)
  | 1 => match a with
         | VL [D; p] => match to_params p with
                        | Some p' => vdres vtable (dist_cmd (oracle (to_D D)) p')
                        | None => vbad
                        end
         | _ => vbad
         end
  (* 2: fmt4 bits *)
  | 2 => vdres vstr (fmt4 (to_Z a))
  (* 3: get_file_id path *)
  | 3 => vstr (get_file_id (to_Zs a))
  (* 4: read_lines text *)
  | 4 => vlist vstr (read_lines (to_Zs a))
  (* 5: dump_dmat_csv (dmat row_ids col_ids) *)
  | 5 => match a with
         | VL [m; rids; cids] =>
             vdres vtable (dump_dmat_csv (map (fun r => map to_cell (to_list r)) (to_list m))
                                         (map to_Zs (to_list rids)) (map to_Zs (to_list cids)))
         | _ => vbad
         end
  (* 6: jaccarddist_pairwise (D sigs) *)
  | 6 => match a with
         | VL [D; s] => vdres vmat (jaccarddist_pairwise (oracle (to_D D)) (to_Zs s))
         | _ => vbad
         end
  (* 11: specification of the rounding: () not finite | (negative? N) with N/10^4 the rounded value *)
  | 11 => vscaled (to_Z a)
  (* 12: specification table (D params) with the model's cell text: (table) or () *)
  | 12 => match a with
          | VL [D; p] =>
              match to_params p with
              | Some p' =>
                  let d := oracle (to_D D) in
                  if p_square p' then
                    match supplied_q p', supplied_r p' with
                    | Some Q, Some _ => VL [vtable (spec_square_table fmt4_str d Q)]
                    | _, _ => VL []
                    end
                  else match supplied_q p', supplied_r p' with
                       | Some Q, Some R => VL [vtable (spec_table (fun x y => fmt4_str (d x y)) Q R)]
                       | _, _ => VL []
                       end
              | None => vbad
              end
          | _ => vbad
          end
  (* 13: parse_fixed4 text -> () | (negative? N) *)
  | 13 => match parse_fixed4 (to_Zs a) with Some (s, n) => VL [vbool s; VI n] | None => VL [] end
  | _ => vbad
  end.
