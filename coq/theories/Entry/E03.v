(** Entry points for C03 (default classification).

    Wire format.  number  = (m s)  meaning m * 2^s  (s >= 0; the harness scales all numbers of
                                   one case by a common power of two so that they are integers)
                  taxon   = (id thr report)   thr = () | (number)
                  lineage = (taxon ...)       own taxon first, then ancestors
                  genomes = (lineage ...), dists = (number ...)
                  obs     = (closest dist predicted primary next report)  options as () / (x)
    results of ops 1/2 omit the distance: (closest predicted primary next report)
    ops  1 classify (repaired next_taxon)   (genomes dists)      -> (0 obs) | (1 code)
         2 classify_orig (code as found)    (genomes dists)      -> (0 obs) | (1 code)
         3 check (the oracle of Spec/C03Spec.v)  (genomes dists obs) -> 0/1
         4 binary32 <= binary64 through Flocq    (bits32 bits64)  -> 0/1
         5 binary32 <  binary32 through Flocq    (bits32 bits32)  -> 0/1
         6 the same two comparisons on scaled integers  (number number) -> (le lt) *)
From Coq Require Import ZArith List Bool.
From GV Require Import Base.Val Base.F32 Model.C03Classify Spec.C03Spec.
Import ListNotations.
Open Scope Z_scope.

Definition to_num (v : val) : Z :=
  match v with
  | VL [VI m; VI s] => Z.shiftl m s
  | VI z => z
  | _ => 0
  end.

Definition to_taxon (v : val) : taxon :=
  match v with
  | VL [VI i; th; VI rp] =>
      mkTaxon i (match th with VL [x] => Some (to_num x) | _ => None end) (negb (rp =? 0))
  | _ => mkTaxon (-1) None false
  end.

Definition to_lineage (v : val) : lineage := map to_taxon (to_list v).
Definition to_genomes (v : val) : list lineage := map to_lineage (to_list v).
Definition to_dists (v : val) : list Z := map to_num (to_list v).

Definition to_obs (v : val) : option obs :=
  match v with
  | VL [VI c; d; p; pr; n; rp] =>
      Some (mkObs (Z.to_nat c) (to_num d) (to_opt to_Z p) (to_opt to_nat pr) (to_opt to_Z n) (to_opt to_Z rp))
  | _ => None
  end.

Definition cerr_code (e : cerr) : Z :=
  match e with EmptyDists => 1 | GenomeIndex => 2 | NoTaxon => 3 | Fuel => 4 end.

Definition vobs (o : obs) : val :=
  VL [vnat (o_closest o); vopt VI (o_predicted o); vopt vnat (o_primary o);
      vopt VI (o_next o); vopt VI (o_report o)].

Definition vcres (r : cres result) : val :=
  match r with COk x => vok (vobs (observe x)) | CErr e => verr (cerr_code e) end.

Definition dispatch (op : Z) (a : val) : val :=
  match op, a with
  | 1, VL [gs; ds] => vcres (classify (to_genomes gs) (to_dists ds))
  | 2, VL [gs; ds] => vcres (classify_orig (to_genomes gs) (to_dists ds))
  | 3, VL [gs; ds; o] =>
      match to_obs o with
      | Some o' => vbool (check (to_genomes gs) (to_dists ds) o')
      | None => vbad
      end
  | 4, VL [VI x; VI y] => vbool (f64_le (f64_of_f32 (f32_of_bits x)) (f64_of_bits y))
  | 5, VL [VI x; VI y] => vbool (f32_lt (f32_of_bits x) (f32_of_bits y))
  | 6, VL [x; y] => VL [vbool (to_num x <=? to_num y); vbool (to_num x <? to_num y)]
  | _, _ => vbad
  end.
