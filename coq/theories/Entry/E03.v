(** Entry points for C03 (stub: replaced by the property's own entry file). *)
From Coq Require Import ZArith List.
From GV Require Import Base.Val.
Open Scope Z_scope.

Definition dispatch (op : Z) (a : val) : val := vbad.
