(** Entry points for C04 (loading a reference database; Model/C04.v, Spec/C04.v).

    wire formats   idv      : (0 z) integer | (1 c ...) string as code points
                   genome   : (pk key genbank refseq ncbi), the four as options () / (idv)
                   meta     : () id_attr None | (n) n = 0 key 1 genbank_acc 2 refseq_acc 3 ncbi_id,
                              anything else = some other string
                   dir      : ((name content) ...), name = code points,
                              content 0 genome db | 1 signature file | 2 directory | other junk
                   loaded   : (0 ((pk ...) (sig_index ...))) | (1 code)
                   code     : 1 id_attr None  2 bad attribute name  3 genomes without value
                              4 unmatched genomes  5 duplicated match  6/7 no/multiple genome files
                              8/9 no/multiple signature files  10/11 located entry is not a genome
                              db / signature file *)
From Coq Require Import ZArith List Bool.
From GV Require Import Base.Val Model.C04 Spec.C04.
Import ListNotations.
Open Scope Z_scope.

Definition vzs (l : list Z) : val := VL (map VI l).

Definition to_idv (v : val) : option idv :=
  match v with
  | VL [VI 0; VI z] => Some (IInt z)
  | VL (VI 1 :: s) => Some (IStr (map to_Z s))
  | _ => None
  end.

Definition to_oid (v : val) : option (option idv) :=
  match v with
  | VL [] => Some None
  | VL [x] => match to_idv x with Some i => Some (Some i) | None => None end
  | _ => None
  end.

Definition to_genome (v : val) : option genome :=
  match v with
  | VL [VI pk; k; gb; rs; nc] =>
      match to_oid k, to_oid gb, to_oid rs, to_oid nc with
      | Some k', Some gb', Some rs', Some nc' => Some (mkGenome pk k' gb' rs' nc')
      | _, _, _, _ => None
      end
  | _ => None
  end.

Definition to_genomes (v : val) : option (list genome) := all_some (map to_genome (to_list v)).
Definition to_ids (v : val) : option (list idv) := all_some (map to_idv (to_list v)).

Definition to_attr (z : Z) : attrname :=
  match z with 0 => Known AKey | 1 => Known AGenbank | 2 => Known ARefseq | 3 => Known ANcbi | _ => Unknown end.

Definition to_meta (v : val) : option attrname :=
  match v with VL [VI z] => Some (to_attr z) | _ => None end.

Definition to_content (z : Z) : content :=
  match z with 0 => CGenomeDb | 1 => CSigFile | 2 => CDir | _ => CJunk end.

Definition to_entry (v : val) : option (name * content) :=
  match v with VL [n; VI c] => Some (to_Zs n, to_content c) | _ => None end.

Definition to_dir (v : val) : option (list (name * content)) := all_some (map to_entry (to_list v)).

Definition lerr_code (e : lerr) : Z :=
  match e with
  | EIdAttrNone => 1 | EBadAttr => 2 | EMissingIds _ => 3 | EUnmatched _ _ => 4 | EDuplicate => 5
  | ENoGenomeFile => 6 | EMultiGenomeFile => 7 | ENoSigFile => 8 | EMultiSigFile => 9
  | ENotGenomeDb => 10 | ENotSigFile => 11
  end.

Definition vloaded (r : lres loaded) : val :=
  match r with
  | Ok (genomes, idxs) => vok (VL [VL (map (fun g => VI (g_pk g)) genomes); vlist vnat idxs])
  | Error e => verr (lerr_code e)
  end.

Definition with_db (a : val) (f : list genome -> option attrname -> list idv -> val) : val :=
  match a with
  | VL [g; m; i] =>
      match to_genomes g, to_ids i with
      | Some gs, Some ids => f gs (to_meta m) ids
      | _, _ => vbad
      end
  | _ => vbad
  end.

Definition dispatch (op : Z) (a : val) : val :=
  match op with
  (* 1: ReferenceDatabase.__init__ as found  (genomes meta ids) *)
  | 1 => with_db a (fun gs m ids => vloaded (init_orig gs m ids))
  (* 2: the repaired constructor *)
  | 2 => with_db a (fun gs m ids => vloaded (init_fixed gs m ids))
  (* 3 / 4: load_from_dir with the repaired / original constructor  (dir genomes meta ids) *)
  | 3 => match a with
         | VL [d; g; m; i] =>
             match to_dir d with
             | Some dir => with_db (VL [g; m; i]) (fun gs mt ids => vloaded (load_from_dir init_fixed dir gs mt ids))
             | None => vbad
             end
         | _ => vbad
         end
  | 4 => match a with
         | VL [d; g; m; i] =>
             match to_dir d with
             | Some dir => with_db (VL [g; m; i]) (fun gs mt ids => vloaded (load_from_dir init_orig dir gs mt ids))
             | None => vbad
             end
         | _ => vbad
         end
  (* 5: locate_files (name ...) -> (0 (genome_name sig_name)) | (1 code) *)
  | 5 => match locate_files (map to_Zs (to_list a)) with
         | Ok (g, s) => vok (VL [vzs g; vzs s])
         | Error e => verr (lerr_code e)
         end
  (* 6: PurePath.suffix *)
  | 6 => vzs (suffix (to_Zs a))
  (* 7: specification: is the file complete and unambiguous for the genome set?  (attr genomes ids) *)
  | 7 => match a with
         | VL [VI n; g; i] =>
             match to_attr n, to_genomes g, to_ids i with
             | Known att, Some gs, Some ids => vbool (completeb att gs ids)
             | _, _, _ => vbad
             end
         | _ => vbad
         end
  (* 8: jaccarddist_matrix with the cell (query, ref):  (refs idxs chunksize_opt queries) *)
  | 8 => match a with
         | VL [r; ix; cs; q] =>
             match jaccarddist_matrix (fun x y : Z => VL [VI x; VI y]) (to_Zs q) (to_Zs r) (to_nats ix)
                     (to_opt to_nat cs) with
             | MOk rows => vok (VL (map VL rows))
             | MError MIndexError => verr 1
             | MError MChunkSize => verr 2
             end
         | _ => vbad
         end
  | _ => vbad
  end.
