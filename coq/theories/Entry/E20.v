(** Entry points for C20 (signature collections index like sequences).

    wire formats
      sig        : list of ints
      coll       : (kind kspec dtype (sig ...))   kind 0 = (values,bounds)-backed (SignatureArray,
                   HDF5Signatures; built by the model of SignatureArray.__init__), 1 = SignatureList,
                   2 = a view SignatureArray([pad] + sigs + [pad])[1:-1]
      sarg       : () None | (z) int | (0 0) ill-typed
      idx        : (0 i) | (1 sarg sarg sarg) | (2 bits signed (x ...)) | (3 (b ...)) | (4) | (5)
      mop        : (0 i sig) set | (1 i) del | (2 i sig) insert | (3 i) pop | (4 sig) append
      sres       : (0 sig) | (1 (sig ...)) | (2 errcode)
      gres       : (0 sig) | (1 kind kspec dtype items-or-(2 err) (values) (bounds)) | (2 errcode)
    ops
      1  (coll idx)      -> gres   __getitem__, repaired index-array conversion
      2  (coll idx)      -> gres   __getitem__, index-array conversion as found
      3  ((sig ...) idx) -> sres   specification: plain list / object array
      4  (coll (mop ...)) -> ((sig ...) (sres ...))   SignatureList history (kind ignored)
      5  ((sig ...) (mop ...)) -> ((sig ...) (sres ...))  specification of the same
      6  (coll coll)     -> (0 b) | (2 errcode)    __eq__
      7  (k1 (sig ...) k2 (sig ...)) -> b          specification of equality
      8  coll            -> gres   construct and observe (len via bounds, iteration, values, bounds)
      9  (n (sarg sarg sarg)) -> (start stop step (positions...)) slice.indices + arange
      10 (n (sarg sarg sarg)) -> (positions ...)   specification's slice positions *)
From Coq Require Import ZArith List Bool.
From GV Require Import Base.Val Spec.C20 Model.C20.
Import ListNotations.
Open Scope Z_scope.

Definition perr_code (e : perr) : Z :=
  match e with IndexError => 1 | TypeError => 2 | ValueError => 3 | NumpyError => 4 | OutOfFuel => 5 end.

Definition d_sig (v : val) : sig := to_Zs v.
Definition d_sigs (v : val) : list sig := map d_sig (to_list v).
Definition d_sarg (v : val) : sarg :=
  match v with
  | VL [] => SNone
  | VL [VI z] => SInt z
  | _ => SBad
  end.
Definition d_idx (v : val) : option pidx :=
  match v with
  | VL [VI 0; VI i] => Some (PInt i)
  | VL [VI 1; a; b; s] => Some (PSlice (d_sarg a) (d_sarg b) (d_sarg s))
  | VL [VI 2; VI bits; sg; xs] => Some (PInts (DT bits (to_bool sg)) (to_Zs xs))
  | VL [VI 3; m] => Some (PMask (map to_bool (to_list m)))
  | VL [VI 4] => Some PNoLen
  | VL [VI 5] => Some PBadArr
  | _ => None
  end.
Definition d_coll (v : val) : option (res coll) :=
  match v with
  | VL [VI kind; VI k; VI d; sigs] =>
      if kind =? 1 then Some (Ok (CList (mk_siglist (d_sigs sigs) k d)))
      else if kind =? 2 then
        (* a view: SignatureArray([pad] + sigs + [pad])[1:-1] (contiguous fast path) *)
        Some (match sa_of_list k d ([[98; 99]] ++ d_sigs sigs ++ [[97]]) with
              | Ok sa => match sa_getitem_slice sa (Some 1) (Some (-1)) None with
                         | Ok v => Ok (CArr v)
                         | Err e => Err e
                         end
              | Err e => Err e
              end)
      else Some (match sa_of_list k d (d_sigs sigs) with Ok sa => Ok (CArr sa) | Err e => Err e end)
  | _ => None
  end.
Definition d_mop (v : val) : option mop :=
  match v with
  | VL [VI 0; VI i; x] => Some (MSet i (d_sig x))
  | VL [VI 1; VI i] => Some (MDel i)
  | VL [VI 2; VI i; x] => Some (MIns i (d_sig x))
  | VL [VI 3; VI i] => Some (MPop i)
  | VL [VI 4; x] => Some (MApp (d_sig x))
  | _ => None
  end.
Fixpoint d_mops (l : list val) : option (list mop) :=
  match l with
  | [] => Some []
  | v :: r => match d_mop v, d_mops r with Some o, Some os => Some (o :: os) | _, _ => None end
  end.

Definition e_Zs (l : list Z) : val := VL (map VI l).
Definition e_sigs (l : list sig) : val := VL (map e_Zs l).
Definition e_err (e : perr) : val := VL [VI 2; VI (perr_code e)].
Definition e_sres (r : sres) : val :=
  match r with
  | RSig s => VL [VI 0; e_Zs s]
  | RColl l => VL [VI 1; e_sigs l]
  | RErr e => e_err e
  end.
Definition e_gres (fx : bool) (g : gres) : val :=
  match g with
  | GSig s => VL [VI 0; e_Zs s]
  | GErr e => e_err e
  | GColl c =>
      let items := match coll_iter fx c with Ok l => e_sigs l | Err e => e_err e end in
      match c with
      | CArr sa => VL [VI 1; VI 0; VI (sa_kspec sa); VI (sa_dtype sa); items; e_Zs (sa_values sa); e_Zs (sa_bounds sa)]
      | CList sl => VL [VI 1; VI 1; VI (sl_kspec sl); VI (sl_dtype sl); items; VL []; VL []]
      end
  end.

Definition with_coll (v : val) (f : coll -> val) : val :=
  match d_coll v with
  | Some (Ok c) => f c
  | Some (Err e) => e_err e
  | None => vbad
  end.

Definition do_getitem (fx : bool) (a : val) : val :=
  match a with
  | VL [c; i] => match d_idx i with
                 | Some idx => with_coll c (fun c => e_gres fx (getitem fx c idx))
                 | None => vbad
                 end
  | _ => vbad
  end.

Definition e_hist (p : list sig * list sres) : val := VL [e_sigs (fst p); VL (map e_sres (snd p))].

Definition d_sargs (v : val) : option (sarg * sarg * sarg) :=
  match v with VL [a; b; s] => Some (d_sarg a, d_sarg b, d_sarg s) | _ => None end.

Definition dispatch (op : Z) (a : val) : val :=
  match op with
  | 1 => do_getitem true a
  | 2 => do_getitem false a
  | 3 => match a with
         | VL [l; i] => match d_idx i with Some idx => e_sres (list_getitem (d_sigs l) idx) | None => vbad end
         | _ => vbad
         end
  | 4 => match a with
         | VL [VL [_; VI k; VI d; sigs]; VL ops] =>
             match d_mops ops with
             | Some os => let '(sl, outs) := sl_history (mk_siglist (d_sigs sigs) k d) os in
                          e_hist (sl_list sl, outs)
             | None => vbad
             end
         | _ => vbad
         end
  | 5 => match a with
         | VL [sigs; VL ops] =>
             match d_mops ops with Some os => e_hist (spec_history (d_sigs sigs) os) | None => vbad end
         | _ => vbad
         end
  | 6 => match a with
         | VL [c1; c2] =>
             with_coll c1 (fun x => with_coll c2 (fun y =>
               match coll_eq true x y with Ok b => VL [VI 0; vbool b] | Err e => e_err e end))
         | _ => vbad
         end
  | 7 => match a with
         | VL [VI k1; l1; VI k2; l2] => vbool (spec_eq k1 (d_sigs l1) k2 (d_sigs l2))
         | _ => vbad
         end
  | 8 => with_coll a (fun c => e_gres true (GColl c))
  | 9 => match a with
         | VL [VI n; sl] =>
             match d_sargs sl with
             | Some (x, y, z) =>
                 let '(start, stop, step) := slice_indices n (sarg_opt x) (sarg_opt y) (sarg_opt z) in
                 VL [VI start; VI stop; VI step; e_Zs (arange start stop step)]
             | None => vbad
             end
         | _ => vbad
         end
  | 10 => match a with
          | VL [VI n; sl] =>
              match d_sargs sl with
              | Some (x, y, SInt z) => e_Zs (spec_slice_positions n (sarg_opt x) (sarg_opt y) z)
              | Some (x, y, _) => e_Zs (spec_slice_positions n (sarg_opt x) (sarg_opt y) 1)
              | None => vbad
              end
          | _ => vbad
          end
  | _ => vbad
  end.
