(** Entry points for C06 (FASTA text layer, compression detection, file signature).
    The specification [signature_spec] itself is op 103 (Entry/E01.v). *)
From Coq Require Import ZArith List Bool.
From GV Require Import Base.Val Base.CSem Spec.C01 Model.C01 Model.C06Fasta Model.C06Gzip Model.C06 Entry.Codec.
Import ListNotations.
Open Scope Z_scope.

Definition vrecord (r : record) : val := VL [vZs (fst r); vZs (snd r)].
Definition to_record (v : val) : record :=
  match v with VL [t; s] => (to_Zs t, to_Zs s) | _ => ([], []) end.

Definition vfres {A} (f : A -> val) (r : fres A) : val :=
  match r with
  | FOk a => vok (f a)
  | FErr BadGzip => verr 10
  | FErr NoHeader => verr 3
  | FErr (Calc e) => verr (err_code e)
  end.

Definition dispatch (op : Z) (a : val) : val :=
  match op with
  (* 1: universal_newlines text -> text *)
  | 1 => vZs (universal_newlines (to_Zs a))
  (* 2: split_lines text -> lines (terminators kept) *)
  | 2 => vlist vZs (split_lines (to_Zs a))
  (* 3: parse_fasta text -> ok [(title seq) ...] / error 3 (ValueError) *)
  | 3 => vres (vlist vrecord) (parse_fasta (to_Zs a))
  (* 4: render_fasta (w crlf final_nl contigs) -> text *)
  | 4 => match a with
         | VL [VI w; crlf; fnl; cs] =>
             vZs (render_fasta (Z.to_nat w) (to_bool crlf) (to_bool fnl) (map to_record (to_list cs)))
         | _ => vbad end
  (* 5: guess_compression: does the content start with 1f 8b *)
  | 5 => vbool (is_gzip_magic (to_Zs a))
  (* 6: text_signature (dense k p text) -> ok (sig itemsize?) / error *)
  | 6 => match a with
         | VL [VI d; VI k; p; text] =>
             vfres (fun r => VL [vZs (fst r); vopt VI (snd r)])
                   (text_signature (negb (d =? 0)) k (to_Zs p) (to_Zs text))
         | _ => vbad end
  (* 7: well-formedness of a contig list for the round-trip theorem *)
  | 7 => vbool (forallb wf_contig (map to_record (to_list a)))
  (* 8: str.rstrip on ASCII *)
  | 8 => vZs (rstrip (to_Zs a))
  | _ => vbad
  end.
