(** Entry points for C07 (k-mer codec). *)
From Coq Require Import ZArith List Bool.
From GV Require Import Base.Val Base.CSem Gen.KmersPyx Spec.Kmers Entry.Codec.
Import ListNotations.
Open Scope Z_scope.

Definition dispatch (op : Z) (a : val) : val :=
  match op with
  | 1 => vres VI (kmer_to_index (to_Zs a))
  | 2 => vres VI (kmer_to_index_rc (to_Zs a))
  | 3 => match a with VL [VI idx; VI k] => vres vZs (index_to_kmer idx k) | _ => vbad end
  | 4 => vres vZs (revcomp (to_Zs a))
  | 11 => vopt VI (spec_encode (to_Zs a))
  | 12 => match a with VL [VI idx; VI k] => vZs (spec_decode (Z.to_nat k) idx) | _ => vbad end
  | 13 => vZs (spec_revcomp (to_Zs a))
  | _ => vbad
  end.
