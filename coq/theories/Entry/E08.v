(** Entry points for C08 (query rows: one per input, in order, correctly labelled, context-free).

    wire formats   str      : list of code points
                   opt x    : () | (x)
                   qres     : (0 payload) | (1 code), code = position of the error in [qerr]
                   row      : (label file? ((q r) ...))   -- the instantiation used on the wire:
                              a signature is an integer handle, the references are 0..nrefs-1, a
                              "distance" is the pair (query handle, reference), the content of a
                              result item is the list of its distances.  A row thus shows which
                              query signature was compared with which references for which input. *)
From Coq Require Import ZArith List Bool.
From GV Require Import Base.Val Model.C08.
Import ListNotations.
Open Scope Z_scope.

Definition vstr (s : str) : val := VL (map VI s).
Definition to_str (v : val) : str := to_Zs v.
Definition to_strs (v : val) : list str := map to_str (to_list v).

Definition qerr_code (e : qerr) : Z :=
  match e with
  | NoQueries => 1 | InputsMismatch => 2 | ZipStrict => 3 | BadChunkSize => 4 | ShapeMismatch => 5
  | IndexErr => 6 | Uninit => 7 | OutOfFuel => 8 | UsageExclusive => 9 | UsageRequired => 10 | NoFiles => 11
  end.

Definition vqres {A} (f : A -> val) (r : qres A) : val :=
  match r with QOk a => vok (f a) | QErr e => verr (qerr_code e) end.

Definition wdist (q r : Z) : Z * Z := (q, r).
Definition wcontent (ds : list (Z * Z)) : list (Z * Z) := ds.

Fixpoint lookup (t : list (str * Z)) (p : str) : Z :=
  match t with
  | [] => -1
  | (k, h) :: r => if str_eqb k p then h else lookup r p
  end.

Definition to_table (v : val) : list (str * Z) :=
  map (fun e => match e with VL [k; VI h] => (to_str k, h) | _ => ([], -1) end) (to_list v).

Definition vrow (r : query_input * list (Z * Z)) : val :=
  VL [vstr (qi_label (fst r)); vopt vstr (qi_file (fst r)); vlist (vpair VI VI) (snd r)].

Definition to_sigfile (v : val) : option (list str * list Z) :=
  match v with
  | VL [VL [ids; hs]] => Some (to_strs ids, to_Zs hs)
  | _ => None
  end.

Definition dispatch (op : Z) (a : val) : val :=
  match op with
  (* 1: strip_seq_file_ext s *)
  | 1 => vstr (strip_seq_file_ext (to_str a))
  (* 2: get_file_id (path strip_dir strip_ext) *)
  | 2 => match a with
         | VL [p; sd; se] => vstr (get_file_id (to_str p) (to_bool sd) (to_bool se))
         | _ => vbad
         end
  (* 3: str(Path(p)) *)
  | 3 => vstr (path_str (to_str a))
  (* 4: str(Path(a) / b) *)
  | 4 => match a with
         | VL [x; y] => vstr (path_str (posix_join (to_str x) (to_str y)))
         | _ => vbad
         end
  (* 5: read_lines text *)
  | 5 => vlist vstr (read_lines (to_str a))
  (* 6: get_sequence_files (explicit listfile? ldir strip_dir strip_ext) *)
  | 6 => match a with
         | VL [ex; lf; ld; sd; se] =>
             vopt (vpair (vlist vstr) (vlist vstr))
                  (get_sequence_files (to_strs ex) (to_opt to_str lf) (to_str ld) (to_bool sd) (to_bool se))
         | _ => vbad
         end
  (* 7: query_cmd (chunksize? files_arg listfile? ldir sigfile? table nrefs) *)
  | 7 => match a with
         | VL [cs; fa; lf; ld; sf; tb; VI nrefs] =>
             let refs := map Z.of_nat (seq 0 (Z.to_nat nrefs)) in
             vqres (vlist vrow)
                   (query_cmd Z Z (Z * Z) (list (Z * Z)) wdist wcontent refs (lookup (to_table tb))
                              (to_opt to_Z cs) (to_strs fa) (to_opt to_str lf) (to_str ld) (to_sigfile sf))
         | _ => vbad
         end
  (* 8: the code points among the given ones that str.strip() removes *)
  | 8 => VL (map VI (filter is_space (to_Zs a)))
  (* 9: query (chunksize? queries nrefs) with inputs 0..n-1: rows ((i) ((q r) ...)) *)
  | 9 => match a with
         | VL [cs; qs; VI nrefs; VI ninputs] =>
             let refs := map Z.of_nat (seq 0 (Z.to_nat nrefs)) in
             vqres (vlist (vpair VI (vlist (vpair VI VI))))
                   (query Z Z (Z * Z) (list (Z * Z)) wdist wcontent refs (to_opt to_Z cs) (to_Zs qs)
                          (map Z.of_nat (seq 0 (Z.to_nat ninputs))))
         | _ => vbad
         end
  | _ => vbad
  end.
