(** Entry points for C02 / C15 (Jaccard distance kernel). *)
From Coq Require Import ZArith List Bool.
From GV Require Import Base.Val Base.CSem Base.F32 Gen.MetricPyx Spec.Jaccard Spec.JaccardF
  Model.MetricPy Entry.Codec.
Import ListNotations.
Open Scope Z_scope.

Definition dispatch (op : Z) (a : val) : val :=
  match op with
  (* 1: generated kernel: (A B) -> bits of the binary32 distance *)
  | 1 => match a with
         | VL [A; B] => let A := to_Zs A in let B := to_Zs B in
                        vres vf32 (jaccarddist (length A + length B) A B)
         | _ => vbad end
  (* 2: generated jaccard: (A B) -> bits of the binary64 index *)
  | 2 => match a with
         | VL [A; B] => let A := to_Zs A in let B := to_Zs B in
                        vres vf64 (jaccard (length A + length B) A B)
         | _ => vbad end
  (* 3: spec counts (A B) -> (symdiff union inter) *)
  | 3 => match a with
         | VL [A; B] => let A := to_Zs A in let B := to_Zs B in
                        VL [VI (symdiff_count A B); VI (union_count A B); VI (inter_count A B)]
         | _ => vbad end
  (* 4: ratio_f32 (s u) -> bits *)
  | 4 => match a with VL [VI s; VI u] => vf32 (ratio_f32 s u) | _ => vbad end
  (* 5: python wrapper incl. dtype handling: (k1 s1 A k2 s2 B) *)
  | 5 => match a with
         | VL [VI k1; VI s1; A; VI k2; VI s2; B] => vres vf32 (py_jaccarddist k1 s1 (to_Zs A) k2 s2 (to_Zs B))
         | _ => vbad end
  | 6 => match a with
         | VL [VI k1; VI s1; A; VI k2; VI s2; B] => vres vf64 (py_jaccard k1 s1 (to_Zs A) k2 s2 (to_Zs B))
         | _ => vbad end
  (* 7: index from distance bits: 1.0 - (double) d *)
  | 7 => match a with VI b => vf64 (f64_minus (f64_of_Z 1) (f64_of_f32 (f32_of_bits b))) | _ => vbad end
  | 8 => vbool (sortedb (to_Zs a))
  | _ => vbad
  end.
