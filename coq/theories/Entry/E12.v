(** Entry points for C12 (signature files: store protocol of src/gambit/sigs/hdf5.py).
    Wire format (see Base/Val.v):
      str    = list of code points;  option = () / (x);  ity = 0..7 (U8 U16 U32 U64 I8 I16 I32 I64)
      coll   = (k prefix ity sigs ids meta);  ids = (0 ity ints) | (1 strs)
      meta   = (id name id_attr version description extra_json_text)   -- each an option of str
      aval   = (0 z) | (1 str) | (2);   dset = (0 ity ints) | (1 strs)
      store  = (((key aval) ...) ((key dset) ...));   disk = (0 bytes) unopenable | (1 store) | (2 bytes) opens, root unreadable
      path   = 0 whole-array | 1 per-signature
      result = (0 payload) | (1 code)  code: 1 SignaturesFileError 2 ValueError 3 KeyError 4 OSError
                                             5 TypeError 6 IndexError 7 outside-the-model *)
From Coq Require Import ZArith List Bool.
From GV Require Import Base.Val Model.Store.
Import ListNotations.
Open Scope Z_scope.

Definition ity_code (t : ity) : Z :=
  match t with U8 => 0 | U16 => 1 | U32 => 2 | U64 => 3 | I8 => 4 | I16 => 5 | I32 => 6 | I64 => 7 end.
Definition to_ity (v : val) : ity :=
  match to_Z v with 0 => U8 | 1 => U16 | 2 => U32 | 3 => U64 | 4 => I8 | 5 => I16 | 6 => I32 | _ => I64 end.
Definition serr_code (e : serr) : Z :=
  match e with ESigFile => 1 | EValue => 2 | EKey => 3 | EOS => 4 | EType => 5 | EIndex => 6 | EMalformed => 7 end.
Definition vsres {A} (f : A -> val) (r : sres A) : val :=
  match r with SOk a => vok (f a) | SErr e => verr (serr_code e) end.

Definition vZl (l : list Z) : val := VL (map VI l).
Definition vstrs (l : list str) : val := VL (map vZl l).
Definition to_strs (v : val) : list str := map to_Zs (to_list v).

Definition to_ids (v : val) : ids :=
  match v with
  | VL [VI 0; t; l] => IdInts (to_ity t) (to_Zs l)
  | VL [_; l] => IdStrs (to_strs l)
  | _ => IdStrs []
  end.
Definition vids (i : ids) : val :=
  match i with IdInts t l => VL [VI 0; VI (ity_code t); vZl l] | IdStrs l => VL [VI 1; vstrs l] end.

Definition to_meta (v : val) : meta :=
  match v with
  | VL [a; b; c; d; e; f] =>
      {| m_id := to_opt to_Zs a; m_name := to_opt to_Zs b; m_id_attr := to_opt to_Zs c;
         m_version := to_opt to_Zs d; m_desc := to_opt to_Zs e; m_extra := to_opt to_Zs f |}
  | _ => {| m_id := None; m_name := None; m_id_attr := None; m_version := None; m_desc := None; m_extra := None |}
  end.
Definition vmeta (m : meta) : val :=
  VL [vopt vZl m.(m_id); vopt vZl m.(m_name); vopt vZl m.(m_id_attr); vopt vZl m.(m_version);
      vopt vZl m.(m_desc); vopt vZl m.(m_extra)].

Definition to_coll (v : val) : option coll :=
  match v with
  | VL [VI k; p; t; s; i; m] =>
      Some {| c_k := k; c_prefix := to_Zs p; c_ty := to_ity t; c_sigs := map to_Zs (to_list s);
              c_ids := to_ids i; c_meta := to_meta m |}
  | _ => None
  end.
Definition to_path (v : val) : wpath := if to_Z v =? 0 then Whole else PerSig.

Definition vaval (a : aval) : val :=
  match a with AInt z => VL [VI 0; VI z] | AStr s => VL [VI 1; vZl s] | AEmpty => VL [VI 2] end.
Definition to_aval (v : val) : aval :=
  match v with VL [VI 0; VI z] => AInt z | VL [VI 1; s] => AStr (to_Zs s) | _ => AEmpty end.
Definition vdset (d : dset) : val :=
  match d with DInt t l => VL [VI 0; VI (ity_code t); vZl l] | DStr l => VL [VI 1; vstrs l] end.
Definition to_dset (v : val) : dset :=
  match v with VL [VI 0; t; l] => DInt (to_ity t) (to_Zs l) | VL [_; l] => DStr (to_strs l) | _ => DStr [] end.
Definition vstore (st : store) : val :=
  VL [VL (map (fun p => VL [VI (fst p); vaval (snd p)]) st.(attrs));
      VL (map (fun p => VL [VI (fst p); vdset (snd p)]) st.(dsets))].
Definition to_kv {V} (f : val -> V) (v : val) : Z * V :=
  match v with VL [VI k; x] => (k, f x) | _ => (-1, f (VL [])) end.
Definition to_store (v : val) : store :=
  match v with
  | VL [a; d] => {| attrs := map (to_kv to_aval) (to_list a); dsets := map (to_kv to_dset) (to_list d) |}
  | _ => empty_store
  end.
Definition to_disk (v : val) : disk :=
  match v with VL [VI 0; b] => DRaw (to_Zs b) | VL [VI 2; b] => DBadRoot (to_Zs b) | VL [_; s] => DHdf (to_store s) | _ => DRaw [] end.

Definition vloaded (l : loaded) : val :=
  VL [VI l.(l_k); vZl l.(l_prefix); vmeta l.(l_meta); vids l.(l_ids); VI (ity_code l.(l_ty));
      vZl l.(l_values); vZl l.(l_bounds)].
Definition vsigs (s : list (list Z)) : val := VL (map vZl s).

Definition written (p c : val) : sres loaded :=
  match to_coll c with
  | Some c => sbind (create (to_path p) c) (fun st => load_file (DHdf st))
  | None => SErr EMalformed
  end.

Definition dispatch (op : Z) (a : val) : val :=
  match op with
  | 1 => match a with VL [p; c] => match to_coll c with Some c => vsres vstore (create (to_path p) c) | None => vbad end
                  | _ => vbad end
  | 2 => match a with VL [p; c] => vsres vloaded (written p c) | _ => vbad end
  | 3 => vsres vloaded (load_file (to_disk a))
  | 4 => vsres vloaded (load_file_cur (to_disk a))
  | 5 => match a with VL [p; c; idx] => vsres vsigs (sbind (written p c) (fun l => getitem_list l (to_Zs idx))) | _ => vbad end
  | 6 => match a with
         | VL [p; c; VI start; VI stop] =>
             vsres (fun r => VL [vloaded (fst r); vsigs (snd r)])
                   (sbind (written p c) (fun l => sbind (getitem_slice l start stop) (fun s =>
                    sbind (decode s) (fun d => SOk (s, d)))))
         | _ => vbad end
  | 7 => match a with VL [p; c] => vsres vsigs (sbind (written p c) decode) | _ => vbad end
  | _ => vbad
  end.
