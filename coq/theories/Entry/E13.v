(** Entry points for C13 (multi-file signature computation).

    wire formats   fres     : (0 sig) with sig a list of ints | (1 code)
                   task     : (handle fres)
                   outcome  : (0 (sig ...)) Done | (1 code) Raised | (3 1) AssertFailed |
                              (3 2) KeyErr | (3 3) IndexErr | (3 4) BadConcurrency
                   concurrency : 0 None | 1 threads | 2 processes | 3 anything else *)
From Coq Require Import ZArith List Bool.
From GV Require Import Base.Val Spec.C13 Model.C13.
Import ListNotations.
Open Scope Z_scope.

Definition sig := list Z.

Definition to_fres (v : val) : option (fres sig) :=
  match v with
  | VL [VI 0; s] => Some (FOk (to_Zs s))
  | VL [VI 1; VI c] => Some (FErr c)
  | _ => None
  end.

Fixpoint all_some {X} (l : list (option X)) : option (list X) :=
  match l with
  | [] => Some []
  | None :: _ => None
  | Some x :: r => match all_some r with Some r' => Some (x :: r') | None => None end
  end.

Definition to_task (v : val) : option (task sig) :=
  match v with
  | VL [VI h; r] => match to_fres r with Some f => Some (h, f) | None => None end
  | _ => None
  end.

Definition to_tasks (v : val) : option (list (task sig)) := all_some (map to_task (to_list v)).
Definition to_fress (v : val) : option (list (fres sig)) := all_some (map to_fres (to_list v)).

Definition vsig (s : sig) : val := VL (map VI s).

Definition voutcome (o : outcome sig) : val :=
  match o with
  | Done sigs => vok (vlist vsig sigs)
  | Raised c => verr c
  | AssertFailed => VL [VI 3; VI 1]
  | KeyErr => VL [VI 3; VI 2]
  | IndexErr => VL [VI 3; VI 3]
  | BadConcurrency => VL [VI 3; VI 4]
  end.

Definition to_conc (z : Z) : concurrency :=
  match z with 0 => CNone | 1 => CThreads | 2 => CProcesses | _ => COther end.

Definition dispatch (op : Z) (a : val) : val :=
  match op with
  (* 1: run_executor (tasks sigma) *)
  | 1 => match a with
         | VL [t; s] => match to_tasks t with Some ts => voutcome (run_executor ts (to_Zs s)) | None => vbad end
         | _ => vbad
         end
  (* 2: run_sequential (fres ...) *)
  | 2 => match to_fress a with Some rs => voutcome (run_sequential rs) | None => vbad end
  (* 3: calc_file_signatures (concurrency supplied tasks sigma) *)
  | 3 => match a with
         | VL [VI c; sup; t; s] =>
             match to_tasks t with
             | Some ts => voutcome (calc_file_signatures (to_conc c) (to_bool sup) ts (to_Zs s))
             | None => vbad
             end
         | _ => vbad
         end
  (* 4: specification: the in-order list, if every file is readable *)
  | 4 => match to_fress a with Some rs => vopt (vlist vsig) (spec_sigs rs) | None => vbad end
  (* 5: the excluded variant (append as completed) *)
  | 5 => match a with
         | VL [t; s] => match to_tasks t with Some ts => voutcome (run_append_as_completed ts (to_Zs s)) | None => vbad end
         | _ => vbad
         end
  (* 6: completion order of a w-worker pool: (w durs handles) *)
  | 6 => match a with
         | VL [VI w; d; h] => VL (map VI (pool_order (Z.to_nat w) (to_nats d) (to_Zs h)))
         | _ => vbad
         end
  (* 7: exception codes of the unreadable files *)
  | 7 => match to_fress a with Some rs => VL (map VI (err_codes rs)) | None => vbad end
  | _ => vbad
  end.
