(** Entry points for C18 (using a reference database never modifies it).

    wire formats
      table    : ((k v) ...)
      change   : (0 k v) Ins | (1 k v) Upd | (2 k) Del
      op       : (0 k v) Add | (1 k v) Modify | (2 k) Delete | (3) Query | (4) Flush | (5) Commit |
                 (6) Rollback | (7) Close | (8) TxCommit | (9 change) Exec
      resp     : (0) ok | (1 table) rows seen | (2) TypeError | (3) FlushError | (4) no such row
      mode     : -1 library default | 0 r | 1 r+ | 2 w | 3 a | 4 w-
      sop      : (0 mode) open | (1 k) read | (2 k v) write | (3 k) delete | (4) flush | (5) close
      sresp    : (0) ok | (1 (v)?) value | (2) rejected | (3) not open | (4) busy | (5) exists
      cmd      : (0 nq) query | (1 nq) dist --use-db | (2) signatures info -d | (3) signatures info FILE |
                 (4) tree -s | (5 n) load_from_dir | (6 af (op ...)) session edits | (7 (sop ...)) handle ops
      invocation : (cmd failpoint)

    1  session run  (flush_noop commit_raises autoflush table (op ...))
         -> ((resp n_new n_dirty n_deleted n_statements file_changed journal) ... ) per operation
    2  store run    (status table handle_mode_or_-1 (sop ...))
         -> ((sresp file_changed handle_mode_or_-1) ...)
    3  history run  (table status cells names (invocation ...))
         -> ((history_ok) (per invocation: (n_ops gdb_changed gs_changed names_changed journal n_new_statements
             ((flush_noop commit_raises) ...) (mode ...) n_outputs ever_changed)) ...)
    4  defaults     (readonly) -> ((flush_noop commit_raises) of file_sessionmaker(readonly, None),
                                   (..) of the CLI class, default mode) *)
From Coq Require Import ZArith List Bool.
From GV Require Import Base.Val Model.C18.
Import ListNotations.
Open Scope Z_scope.

Definition to_row (v : val) : row := match v with VL [VI k; VI x] => (k, x) | _ => (0, 0) end.
Definition to_table (v : val) : table := map to_row (to_list v).
Definition vrow (r : row) : val := VL [VI (fst r); VI (snd r)].
Definition vtable (t : table) : val := VL (map vrow t).

Definition to_change (v : val) : option change :=
  match v with
  | VL [VI 0; VI k; VI x] => Some (Ins k x)
  | VL [VI 1; VI k; VI x] => Some (Upd k x)
  | VL [VI 2; VI k] => Some (Del k)
  | _ => None
  end.

Definition to_op (v : val) : option op :=
  match v with
  | VL [VI 0; VI k; VI x] => Some (Add k x)
  | VL [VI 1; VI k; VI x] => Some (Modify k x)
  | VL [VI 2; VI k] => Some (Delete k)
  | VL [VI 3] => Some Query
  | VL [VI 4] => Some Flush
  | VL [VI 5] => Some Commit
  | VL [VI 6] => Some Rollback
  | VL [VI 7] => Some Close
  | VL [VI 8] => Some TxCommit
  | VL [VI 9; c] => match to_change c with Some c' => Some (Exec c') | None => None end
  | _ => None
  end.

Fixpoint all_some {X} (l : list (option X)) : option (list X) :=
  match l with
  | [] => Some []
  | None :: _ => None
  | Some x :: r => match all_some r with Some r' => Some (x :: r') | None => None end
  end.

Definition to_ops (v : val) : option (list op) := all_some (map to_op (to_list v)).

Definition vresp (r : resp) : val :=
  match r with
  | ROk => VL [VI 0]
  | RView t => VL [VI 1; vtable t]
  | RTypeError => VL [VI 2]
  | RFlushError => VL [VI 3]
  | RNoRow => VL [VI 4]
  end.

Fixpoint row_eqb (a b : table) : bool :=
  match a, b with
  | [], [] => true
  | (k, v) :: r, (k', v') :: r' => (k =? k') && (v =? v') && row_eqb r r'
  | _, _ => false
  end.

Definition vlen {X} (l : list X) : val := VI (Z.of_nat (length l)).

Fixpoint session_trace (cls : sclass) (af : bool) (f0 : table) (s : sess) (ops : list op) : list val :=
  match ops with
  | [] => []
  | o :: r =>
      let '(s1, a) := step cls af s o in
      VL [vresp a; vlen (s_new s1); vlen (live_dirty s1); vlen (s_del s1); vlen (s_log s1);
          vbool (negb (row_eqb (s_file s1) f0)); vbool (journal_present s1)]
      :: session_trace cls af f0 s1 r
  end.

Definition to_mode (z : Z) : option (option mode) :=
  match z with
  | -1 => Some None | 0 => Some (Some MR) | 1 => Some (Some MRplus) | 2 => Some (Some MW)
  | 3 => Some (Some MA) | 4 => Some (Some MX) | _ => None
  end.
Definition mode_code (m : mode) : Z := match m with MR => 0 | MRplus => 1 | MW => 2 | MA => 3 | MX => 4 end.
Definition vhandle (h : option mode) : val := match h with None => VI (-1) | Some m => VI (mode_code m) end.

Definition to_sop (v : val) : option sop :=
  match v with
  | VL [VI 0; VI m] => match to_mode m with Some kw => Some (SOpen kw) | None => None end
  | VL [VI 1; VI k] => Some (SRead k)
  | VL [VI 2; VI k; VI x] => Some (SWrite k x)
  | VL [VI 3; VI k] => Some (SDelete k)
  | VL [VI 4] => Some SFlush
  | VL [VI 5] => Some SClose
  | _ => None
  end.
Definition to_sops (v : val) : option (list sop) := all_some (map to_sop (to_list v)).

Definition vsresp (r : sresp) : val :=
  match r with
  | SOk => VL [VI 0]
  | SVal v => VL [VI 1; vopt VI v]
  | SRejected => VL [VI 2]
  | SNotOpen => VL [VI 3]
  | SBusy => VL [VI 4]
  | SExists => VL [VI 5]
  end.

Definition sfile_eqb (a b : sfile) : bool := (f_status a =? f_status b) && row_eqb (f_cells a) (f_cells b).

Fixpoint store_trace (f0 : sfile) (st : store) (ops : list sop) : list val :=
  match ops with
  | [] => []
  | o :: r =>
      let '(st1, a) := sstep st o in
      VL [vsresp a; vbool (negb (sfile_eqb (st_file st1) f0)); vhandle (st_handle st1)]
      :: store_trace f0 st1 r
  end.

Definition to_cmd (v : val) : option cmd :=
  match v with
  | VL [VI 0; VI n] => Some (CQuery (Z.to_nat n))
  | VL [VI 1; VI n] => Some (CDistDb (Z.to_nat n))
  | VL [VI 2] => Some CSigInfoDb
  | VL [VI 3] => Some CSigInfoFile
  | VL [VI 4] => Some CTreeSig
  | VL [VI 5; VI n] => Some (CLoadFromDir (Z.to_nat n))
  | VL [VI 6; VI af; ops] => match to_ops ops with Some o => Some (CLibSession (negb (af =? 0)) o) | None => None end
  | VL [VI 7; ops] => match to_sops ops with Some o => Some (CLibStore o) | None => None end
  | _ => None
  end.
Definition to_inv (v : val) : option invocation :=
  match v with
  | VL [c; VI fp] => match to_cmd c with Some c' => Some (c', Z.to_nat fp) | None => None end
  | _ => None
  end.

Fixpoint zs_eqb (a b : list Z) : bool :=
  match a, b with
  | [], [] => true
  | x :: r, y :: r' => (x =? y) && zs_eqb r r'
  | _, _ => false
  end.

Definition vclass (c : sclass) : val := VL [vbool (flush_noop c); vbool (commit_raises c)].

(** did the directory differ from (f0, g0, n0, no journal) after some micro operation? *)
Fixpoint ever_changed (f0 : table) (g0 : sfile) (n0 : list Z) (w : world) (ops : list wop) : bool :=
  match ops with
  | [] => false
  | o :: r =>
      let w1 := fst (wstep w o) in
      negb (row_eqb (s_file (w_db w1)) f0) || negb (sfile_eqb (st_file (w_store w1)) g0)
      || negb (zs_eqb (w_names w1) n0) || journal_present (w_db w1)
      || ever_changed f0 g0 n0 w1 r
  end.

Fixpoint history_trace (w : world) (h : list invocation) : list val :=
  match h with
  | [] => []
  | i :: r =>
      let ops := invocation_ops i in
      let w1 := fst (run_world w ops) in
      VL [VI (Z.of_nat (length (compile (fst i))));
          vbool (negb (row_eqb (s_file (w_db w1)) (s_file (w_db w))));
          vbool (negb (sfile_eqb (st_file (w_store w1)) (st_file (w_store w))));
          vbool (negb (zs_eqb (w_names w1) (w_names w)));
          vbool (journal_present (w_db w1));
          VI (Z.of_nat (length (s_log (w_db w1))) - Z.of_nat (length (s_log (w_db w))));
          VL (map vclass (skipn (length (w_classes w)) (w_classes w1)));
          VL (map (fun m => VI (mode_code m)) (skipn (length (w_modes w)) (w_modes w1)));
          VI (Z.of_nat (length (w_out w1)));
          vbool (ever_changed (s_file (w_db w)) (st_file (w_store w)) (w_names w) w ops)]
      :: history_trace w1 r
  end.

Definition dispatch (op : Z) (a : val) : val :=
  match op with
  | 1 => match a with
         | VL [VI fn; VI cr; VI af; t; ops] =>
             match to_ops ops with
             | Some o =>
                 let cls := {| flush_noop := negb (fn =? 0); commit_raises := negb (cr =? 0) |} in
                 let f0 := to_table t in
                 VL (session_trace cls (negb (af =? 0)) f0 (fresh_session f0) o)
             | None => vbad
             end
         | _ => vbad
         end
  | 2 => match a with
         | VL [VI status; cells; VI h; ops] =>
             match to_sops ops, to_mode h with
             | Some o, Some hm =>
                 let f0 := {| f_status := status; f_cells := to_table cells |} in
                 VL (store_trace f0 {| st_file := f0; st_handle := hm |} o)
             | _, _ => vbad
             end
         | _ => vbad
         end
  | 3 => match a with
         | VL [t; VI status; cells; names; h] =>
             match all_some (map to_inv (to_list h)) with
             | Some hist =>
                 let w := {| w_db := fresh_session (to_table t); w_cur := None;
                             w_store := {| st_file := {| f_status := status; f_cells := to_table cells |}; st_handle := None |};
                             w_names := to_Zs names; w_out := []; w_classes := []; w_modes := [] |} in
                 VL [vbool (history_ok hist); VL (history_trace w hist)]
             | None => vbad
             end
         | _ => vbad
         end
  | 4 => match a with
         | VL [VI ro] =>
             VL [vclass (file_sessionmaker (negb (ro =? 0)) None); vclass cli_class; VI (mode_code h5py_default_mode)]
         | _ => vbad
         end
  | _ => vbad
  end.
