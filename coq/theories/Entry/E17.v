(** Entry points for C17 (tree command: linkage -> dendrogram, UPGMA run validator).

    Wire shapes: a row is [(left right height size)]; a tree is an int (leaf index) or
    [(left bl right br)]; heights are integers (exact instance, common scale) or binary64 bit
    patterns (ops 3); strings are lists of code points; results [(0 payload)] / [(1 code)] with code 1 = IndexError,
    2 = AssertionError. *)
From Coq Require Import ZArith List Bool.
From GV Require Import Base.Val Base.F32 Model.C17 Model.C17Labels.
Import ListNotations.
Open Scope Z_scope.

Definition to_zrow (v : val) : option zrow :=
  match v with
  | VL [VI l; VI r; VI h; VI s] =>
      if (0 <=? l) && (0 <=? r) && (0 <=? s) then Some (mkrow (Z.to_nat l) (Z.to_nat r) h (Z.to_nat s))
      else None
  | _ => None
  end.

Definition to_frow (v : val) : option frow :=
  match v with
  | VL [VI l; VI r; VI h; VI s] =>
      if (0 <=? l) && (0 <=? r) && (0 <=? s)
      then Some (mkrow (Z.to_nat l) (Z.to_nat r) (f64_of_bits h) (Z.to_nat s))
      else None
  | _ => None
  end.

Fixpoint all_some {A} (l : list (option A)) : option (list A) :=
  match l with
  | [] => Some []
  | None :: _ => None
  | Some a :: t => match all_some t with Some t' => Some (a :: t') | None => None end
  end.

Definition to_zrows (v : val) : option (list zrow) := all_some (map to_zrow (to_list v)).
Definition to_frows (v : val) : option (list frow) := all_some (map to_frow (to_list v)).

Fixpoint vtree {H} (f : H -> val) (t : tree H) : val :=
  match t with
  | Leaf i => vnat i
  | Node l bl r br => VL [vtree f l; f bl; vtree f r; f br]
  end.

Definition terr_code (e : terr) : Z :=
  match e with IndexError => 1 | AssertionError => 2 end.
Definition vtres {A} (f : A -> val) (r : tres A) : val :=
  match r with TOk a => vok (f a) | TErr e => verr (terr_code e) end.

Definition vf64b (x : f64) : val := VI (f64_bits x).

Definition pairs_matrix (n : nat) (f : nat -> nat -> val) : val :=
  VL (map (fun i => VL (map (fun j => f i j) (seq 0 n))) (seq 0 n)).

Definition dispatch (op : Z) (a : val) : val :=
  match op with
  (* 1: (n rows) -> valid_linkage *)
  | 1 => match a with
         | VL [VI n; rows] =>
             match to_zrows rows with Some rs => vbool (valid_linkage (Z.to_nat n) rs) | None => vbad end
         | _ => vbad end
  (* 2: (nlabels rows) -> exact tree *)
  | 2 => match a with
         | VL [VI n; rows] =>
             match to_zrows rows with
             | Some rs => vtres (vtree VI) (zlinkage_to_tree (Z.to_nat n) rs)
             | None => vbad end
         | _ => vbad end
  (* 3: (nlabels rows-with-height-bits) -> binary64 tree, branch lengths as bit patterns *)
  | 3 => match a with
         | VL [VI n; rows] =>
             match to_frows rows with
             | Some rs => vtres (vtree vf64b) (flinkage_to_tree (Z.to_nat n) rs)
             | None => vbad end
         | _ => vbad end
  (* 4: (n rows) -> matrix of merge heights (options) *)
  | 4 => match a with
         | VL [VI n; rows] =>
             match to_zrows rows with
             | Some rs => let n := Z.to_nat n in
                          pairs_matrix n (fun i j => vopt VI (merge_height n rs i j))
             | None => vbad end
         | _ => vbad end
  (* 5: (n rows) -> (heights_monotone nondecreasing) *)
  | 5 => match a with
         | VL [VI n; rows] =>
             match to_zrows rows with
             | Some rs => VL [vbool (heights_monotone (Z.to_nat n) rs); vbool (nondecreasing rs)]
             | None => vbad end
         | _ => vbad end
  (* 6: (n dmat eps rows) -> valid_upgma_run *)
  | 6 => match a with
         | VL [VI n; dmat; VI eps; rows] =>
             match to_zrows rows with
             | Some rs => vbool (valid_upgma_run (Z.to_nat n) (map to_Zs (to_list dmat)) eps rs)
             | None => vbad end
         | _ => vbad end
  (* 7: (n rows) -> measurements of the exact tree: (leaves depths paths branches internal) *)
  | 7 => match a with
         | VL [VI n; rows] =>
             match to_zrows rows with
             | Some rs =>
                 let n := Z.to_nat n in
                 vtres (fun t => VL [vlist vnat (leaves t);
                                     vlist (fun i => vopt VI (depth t i)) (seq 0 n);
                                     pairs_matrix n (fun i j => vopt VI (path t i j));
                                     vlist VI (branches t);
                                     vnat (internal_nodes t)])
                       (zlinkage_to_tree n rs)
             | None => vbad end
         | _ => vbad end
  (* 8: (n rows) -> table of clusters *)
  | 8 => match a with
         | VL [VI n; rows] =>
             match to_zrows rows with
             | Some rs => vlist (vlist vnat) (tab_after rs (tab0 (Z.to_nat n)))
             | None => vbad end
         | _ => vbad end
  (* 9: write_label: (0 codepoints) = str, (1 z) = integer -> option text *)
  | 9 => match a with
         | VL [VI 0; s] => vopt (vlist VI) (write_label (IdStr (to_Zs s)))
         | VL [VI 1; VI z] => vopt (vlist VI) (write_label (IdInt z))
         | _ => vbad end
  (* 10: read_label: text -> option (label rest) *)
  | 10 => vopt (fun p => VL [vlist VI (fst p); vlist VI (snd p)]) (read_label (to_Zs a))
  | _ => vbad
  end.
