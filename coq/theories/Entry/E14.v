(** Entry points for C14 (k-mer parameters are never compared silently).

    wire formats   kspec : (k (b ...))            k-mer length, prefix bytes
                   option: () / (x)               bool: 0/1
                   run   : (exit (errcode)? (step ...)) with step = (1 side kspec) Calc (side 0 query, 1 ref)
                                                                    | (2 kspec kspec) Compare | (3) Write *)
From Coq Require Import ZArith List Bool.
From GV Require Import Base.Val Model.C14 Spec.C14.
Import ListNotations.
Open Scope Z_scope.

Definition to_ks (v : val) : option kspec :=
  match v with
  | VL [VI k; p] => Some (KS k (to_Zs p))
  | _ => None
  end.

(** option of kspec: () -> Some None, (ks) -> Some (Some ks), malformed -> None *)
Definition to_ks_opt (v : val) : option (option kspec) :=
  match v with
  | VL [] => Some None
  | VL [x] => match to_ks x with Some s => Some (Some s) | None => None end
  | _ => None
  end.

Definition to_Z_opt (v : val) : option Z := to_opt to_Z v.
Definition to_Zs_opt (v : val) : option (list Z) := to_opt to_Zs v.

Definition vks (s : kspec) : val := VL [VI (ks_k s); VL (map VI (ks_prefix s))].

Definition vstep (st : step) : val :=
  match st with
  | Calc Query s => VL [VI 1; VI 0; vks s]
  | Calc Ref s => VL [VI 1; VI 1; vks s]
  | Compare q r => VL [VI 2; vks q; vks r]
  | Write => VL [VI 3]
  end.

Definition vrun (r : run) : val :=
  VL [VI (exit_status r); vopt (fun e => VI (err_code e)) (error r); vlist vstep (steps r)].

Definition to_step (v : val) : option step :=
  match v with
  | VL [VI 1; VI sd; s] => match to_ks s with Some s => Some (Calc (if sd =? 0 then Query else Ref) s) | None => None end
  | VL [VI 2; q; r] => match to_ks q, to_ks r with Some q, Some r => Some (Compare q r) | _, _ => None end
  | VL [VI 3] => Some Write
  | _ => None
  end.

Fixpoint all_some {X} (l : list (option X)) : option (list X) :=
  match l with
  | [] => Some []
  | None :: _ => None
  | Some x :: r => match all_some r with Some r' => Some (x :: r') | None => None end
  end.

(** an observed run: the error is only known to be present or not (code 0 stands for "some error") *)
Definition to_run (v : val) : option run :=
  match v with
  | VL [VI ex; VI haserr; st] =>
      match all_some (map to_step (to_list st)) with
      | Some st => Some (Run ex (if haserr =? 0 then None else Some ENoDb) st)
      | None => None
      end
  | _ => None
  end.

Definition to_dist (a : val) : option dist_opts :=
  match a with
  | VL [q; ql; qs; r; rl; rs; usedb; sq; db; k; p] =>
      match to_ks_opt qs, to_ks_opt rs, to_ks_opt db with
      | Some qs, Some rs, Some db =>
          Some (DistOpts (to_bool q) (to_bool ql) qs (to_bool r) (to_bool rl) rs (to_bool usedb) (to_bool sq) db
                         (to_Z_opt k) (to_Zs_opt p))
      | _, _, _ => None
      end
  | _ => None
  end.

Definition to_query (a : val) : option query_opts :=
  match a with
  | VL [f; l; s; db] =>
      match to_ks_opt s, to_ks_opt db with
      | Some s, Some db => Some (QueryOpts (to_bool f) (to_bool l) s db)
      | _, _ => None
      end
  | _ => None
  end.

Definition dispatch (op : Z) (a : val) : val :=
  match op with
  (* 1: kspec_from_params (k? prefix? default) -> (0 (ks)?) | (1 code) *)
  | 1 => match a with
         | VL [k; p; d] =>
             match kspec_from_params (to_Z_opt k) (to_Zs_opt p) (to_bool d) with
             | Ok o => vok (vopt vks o)
             | Failed e => verr (err_code e)
             end
         | _ => vbad
         end
  (* 2: dist_cmd *)
  | 2 => match to_dist a with Some o => vrun (dist_cmd o) | None => vbad end
  (* 3: query_cmd (fixed files list sigfile? db?) *)
  | 3 => match a with
         | VL (fx :: rest) => match to_query (VL rest) with Some o => vrun (query_cmd (to_bool fx) o) | None => vbad end
         | _ => vbad
         end
  (* 4: tree_cmd (files list sigfile? k? prefix?) *)
  | 4 => match a with
         | VL [f; l; s; k; p] =>
             match to_ks_opt s with
             | Some s => vrun (tree_cmd (TreeOpts (to_bool f) (to_bool l) s (to_Z_opt k) (to_Zs_opt p)))
             | None => vbad
             end
         | _ => vbad
         end
  (* 5: create_cmd (files list k? prefix? db_params db?) *)
  | 5 => match a with
         | VL [f; l; k; p; dp; db] =>
             match to_ks_opt db with
             | Some db => vrun (create_cmd (CreateOpts (to_bool f) (to_bool l) (to_Z_opt k) (to_Zs_opt p) (to_bool dp) db))
             | None => vbad
             end
         | _ => vbad
         end
  (* 6: specification of the distance command: (wf spec?) *)
  | 6 => match to_dist a with
         | Some o => VL [vbool (dist_wf o); vopt vks (spec_dist o)]
         | None => vbad
         end
  (* 7: specification of the query command: (wf spec?) *)
  | 7 => match to_query a with
         | Some o => VL [vbool (query_wf o); vopt vks (spec_query o)]
         | None => vbad
         end
  (* 8: the property predicate on an observed run (exit haserr steps) *)
  | 8 => match to_run a with Some r => vbool (run_ok r) | None => vbad end
  | _ => vbad
  end.
