(** Top-level dispatch of the extracted model driver: op = 100 * property + local op. *)
From Coq Require Import ZArith List Bool.
From GV Require Import Base.Val.
From GV Require Entry.E07.
Import ListNotations.
Open Scope Z_scope.

Definition z_mul10_add (acc d : Z) : Z := acc * 10 + d.
Definition z_divmod10 (z : Z) : Z * Z := (z / 10, z mod 10).
Definition z_neg (z : Z) : Z := - z.

Definition gv_dispatch (op : Z) (a : val) : val :=
  let p := op / 100 in
  let o := op mod 100 in
  match p with
  | 7 => E07.dispatch o a
  | _ => vbad
  end.
