(** Top-level dispatch of the extracted model driver: op = 100 * property + local op. *)
From Coq Require Import ZArith List Bool.
From GV Require Import Base.Val.
From GV Require Entry.E01 Entry.E02 Entry.E03 Entry.E04 Entry.E05 Entry.E06 Entry.E07 Entry.E08
  Entry.E09 Entry.E10 Entry.E11 Entry.E12 Entry.E13 Entry.E14 Entry.E15 Entry.E16 Entry.E17
  Entry.E18 Entry.E19 Entry.E20.
Import ListNotations.
Open Scope Z_scope.

Definition z_mul10_add (acc d : Z) : Z := acc * 10 + d.
Definition z_divmod10 (z : Z) : Z * Z := (z / 10, z mod 10).
Definition z_neg (z : Z) : Z := - z.

Definition gv_dispatch (op : Z) (a : val) : val :=
  let p := op / 100 in
  let o := op mod 100 in
  match p with
  | 1 => E01.dispatch o a | 2 => E02.dispatch o a | 3 => E03.dispatch o a | 4 => E04.dispatch o a
  | 5 => E05.dispatch o a | 6 => E06.dispatch o a | 7 => E07.dispatch o a | 8 => E08.dispatch o a
  | 9 => E09.dispatch o a | 10 => E10.dispatch o a | 11 => E11.dispatch o a | 12 => E12.dispatch o a
  | 13 => E13.dispatch o a | 14 => E14.dispatch o a | 15 => E15.dispatch o a | 16 => E16.dispatch o a
  | 17 => E17.dispatch o a | 18 => E18.dispatch o a | 19 => E19.dispatch o a | 20 => E20.dispatch o a
  | _ => vbad
  end.
