(** IEEE-754 binary32 / binary64 arithmetic through Flocq, as used by the
    distance kernel ([SCORE_T] = C [float]). *)
From Coq Require Import ZArith List Bool Lia.
From Flocq Require Import Core.Core IEEE754.BinarySingleNaN.
Open Scope Z_scope.

Lemma Hp32 : Prec_gt_0 24. Proof. reflexivity. Qed.
Lemma He32 : Prec_lt_emax 24 128. Proof. reflexivity. Qed.
Lemma Hp64 : Prec_gt_0 53. Proof. reflexivity. Qed.
Lemma He64 : Prec_lt_emax 53 1024. Proof. reflexivity. Qed.
#[global] Existing Instance Hp32.
#[global] Existing Instance He32.
#[global] Existing Instance Hp64.
#[global] Existing Instance He64.

Definition f32 : Type := binary_float 24 128.
Definition f64 : Type := binary_float 53 1024.

(** (float) z  for an integer z *)
Definition f32_of_Z (z : Z) : f32 := binary_normalize 24 128 Hp32 He32 mode_NE z 0 false.
Definition f32_div (x y : f32) : f32 := @Bdiv 24 128 Hp32 He32 mode_NE x y.
Definition f32_zero : f32 := B754_zero false.

Definition f64_of_Z (z : Z) : f64 := binary_normalize 53 1024 Hp64 He64 mode_NE z 0 false.
Definition f64_minus (x y : f64) : f64 := @Bminus 53 1024 Hp64 He64 mode_NE x y.

(** exact widening conversion (double) f *)
Definition f64_of_f32 (x : f32) : f64 :=
  match x with
  | B754_zero s => B754_zero s
  | B754_infinity s => B754_infinity s
  | B754_nan => B754_nan
  | B754_finite s m e _ =>
      binary_normalize 53 1024 Hp64 He64 mode_NE (if s then Z.neg m else Z.pos m) e false
  end.

(** bit patterns (NaN canonicalised to the quiet NaN numpy prints) *)
Definition f32_bits (x : f32) : Z :=
  match x with
  | B754_zero s => if s then 2147483648 else 0
  | B754_infinity s => if s then 4286578688 else 2139095040
  | B754_nan => 2143289344
  | B754_finite s m e _ =>
      let mz := Z.pos m in
      let body := if mz <? 8388608 then mz else (e + 150) * 8388608 + (mz - 8388608) in
      (if s then 2147483648 else 0) + body
  end.

Definition f64_bits (x : f64) : Z :=
  match x with
  | B754_zero s => if s then 9223372036854775808 else 0
  | B754_infinity s => if s then 18442240474082181120 else 9218868437227405312
  | B754_nan => 9221120237041090560
  | B754_finite s m e _ =>
      let mz := Z.pos m in
      let body := if mz <? 4503599627370496 then mz
                  else (e + 1075) * 4503599627370496 + (mz - 4503599627370496) in
      (if s then 9223372036854775808 else 0) + body
  end.

(** exact value as a dyadic  m * 2^e  (finite values only) *)
Definition f32_dyadic (x : f32) : option (Z * Z) :=
  match x with
  | B754_zero _ => Some (0, 0)
  | B754_finite s m e _ => Some ((if s then Z.neg m else Z.pos m), e)
  | _ => None
  end.

(** comparison of a binary32 with a binary64, both exact *)
Definition f64_le (x y : f64) : bool :=
  match Bcompare x y with Some Lt | Some Eq => true | _ => false end.
Definition f64_lt (x y : f64) : bool :=
  match Bcompare x y with Some Lt => true | _ => false end.
Definition f32_le (x y : f32) : bool :=
  match Bcompare x y with Some Lt | Some Eq => true | _ => false end.
Definition f32_lt (x y : f32) : bool :=
  match Bcompare x y with Some Lt => true | _ => false end.
Definition f32_eqb (x y : f32) : bool :=
  match Bcompare x y with Some Eq => true | _ => false end.

(** decode a bit pattern (finite, non-NaN patterns are what the harness sends) *)
Definition f32_of_bits (b : Z) : f32 :=
  let s := 2147483648 <=? b in
  let r := if s then b - 2147483648 else b in
  let ex := r / 8388608 in
  let mant := r mod 8388608 in
  if ex =? 255 then (if mant =? 0 then B754_infinity s else B754_nan)
  else if ex =? 0 then
    binary_normalize 24 128 Hp32 He32 mode_NE (if s then - mant else mant) (-149) s
  else
    binary_normalize 24 128 Hp32 He32 mode_NE
      (if s then - (mant + 8388608) else mant + 8388608) (ex - 150) s.

Definition f64_of_bits (b : Z) : f64 :=
  let s := 9223372036854775808 <=? b in
  let r := if s then b - 9223372036854775808 else b in
  let ex := r / 4503599627370496 in
  let mant := r mod 4503599627370496 in
  if ex =? 2047 then (if mant =? 0 then B754_infinity s else B754_nan)
  else if ex =? 0 then
    binary_normalize 53 1024 Hp64 He64 mode_NE (if s then - mant else mant) (-1074) s
  else
    binary_normalize 53 1024 Hp64 He64 mode_NE
      (if s then - (mant + 4503599627370496) else mant + 4503599627370496) (ex - 1075) s.
