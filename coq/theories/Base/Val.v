(** Wire values exchanged between the Python harness and the extracted model.

    Everything the harness sends to / receives from the model is a [val]:
    an integer or a list of values.  Conventions used by the [Entry] files:
      - booleans      : [VI 0] / [VI 1]
      - options       : [VL []] / [VL [x]]
      - byte strings  : [VL] of [VI b] with 0 <= b < 256
      - results       : [VL [VI 0; payload]] = ok, [VL [VI 1; VI code]] = error [code]
*)
From Coq Require Import ZArith List Bool.
Import ListNotations.
Open Scope Z_scope.

Inductive val : Type :=
| VI (z : Z)
| VL (l : list val).

Definition vbool (b : bool) : val := VI (if b then 1 else 0).
Definition vopt {A} (f : A -> val) (o : option A) : val :=
  match o with None => VL [] | Some a => VL [f a] end.
Definition vlist {A} (f : A -> val) (l : list A) : val := VL (map f l).
Definition vnat (n : nat) : val := VI (Z.of_nat n).
Definition vN (n : N) : val := VI (Z.of_N n).
Definition vpair {A B} (f : A -> val) (g : B -> val) (p : A * B) : val :=
  VL [f (fst p); g (snd p)].
Definition vok (v : val) : val := VL [VI 0; v].
Definition verr (code : Z) : val := VL [VI 1; VI code].
(** a malformed request (wrong shape of arguments) *)
Definition vbad : val := VL [VI 2].

Definition to_Z (v : val) : Z := match v with VI z => z | VL _ => 0 end.
Definition to_bool (v : val) : bool := negb (Z.eqb (to_Z v) 0).
Definition to_nat (v : val) : nat := Z.to_nat (to_Z v).
Definition to_N (v : val) : N := Z.to_N (to_Z v).
Definition to_list (v : val) : list val := match v with VI _ => [] | VL l => l end.
Definition to_Zs (v : val) : list Z := map to_Z (to_list v).
Definition to_nats (v : val) : list nat := map to_nat (to_list v).
Definition to_Ns (v : val) : list N := map to_N (to_list v).
Definition to_opt {A} (f : val -> A) (v : val) : option A :=
  match v with VL [x] => Some (f x) | _ => None end.
