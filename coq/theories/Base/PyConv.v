(** Conversions Cython inserts at the Python/C boundary of a [def] function. *)
From Coq Require Import ZArith List Bool.
From GV Require Import Base.CSem.
Open Scope Z_scope.

(** [bytearray(n)]: ValueError for a negative count *)
Definition py_bytearray (n : Z) : res (list Z) :=
  if n <? 0 then Error ValueError else Ok (zeros n).

(** Python int -> uint64_t argument: OverflowError outside [0, 2^64) *)
Definition py_to_u64 (z : Z) : res Z :=
  if (0 <=? z) && (z <? 18446744073709551616) then Ok z else Error OverflowError.
