(** C / Cython semantics used by the definitions that [tools/pyx2v.py]
    generates from the [.pyx] sources.

    Integers are [Z]; fixed-width unsigned arithmetic wraps explicitly
    ([u64], [u8]).  Memoryviews are [list Z].  The kernels are compiled with
    [boundscheck=False, wraparound=False]: a read or write outside the view
    is undefined behaviour in C, which the model makes an explicit [Fail OOB]
    outcome (theorems prove it unreachable).  Loops are structural on [nat]
    ([for_range]) or run on explicit fuel ([while_fuel], [Fail OutOfFuel]). *)
From Coq Require Import ZArith List Bool Lia.
Import ListNotations.
Open Scope Z_scope.

Inductive err : Type := OOB | OutOfFuel | ValueError | TypeError | OverflowError | IndexError.

(** outcome of a statement: fall through with a new state, return, or fail *)
Inductive ctl (S R : Type) : Type :=
| Go (s : S)
| Ret (r : R)
| Fail (e : err).
Arguments Go {S R} s.
Arguments Ret {S R} r.
Arguments Fail {S R} e.

(** outcome of a function *)
Inductive res (R : Type) : Type :=
| Ok (r : R)
| Error (e : err).
Arguments Ok {R} r.
Arguments Error {R} e.

Definition bind {S T R} (m : ctl S R) (f : S -> ctl T R) : ctl T R :=
  match m with Go s => f s | Ret r => Ret r | Fail e => Fail e end.

(** result of running a function body: falling off the end yields [dflt] *)
Definition finish {S R} (m : ctl S R) (dflt : S -> res R) : res R :=
  match m with Go s => dflt s | Ret r => Ok r | Fail e => Error e end.

(** bind on function results, for calls *)
Definition rbind {A S R} (m : res A) (f : A -> ctl S R) : ctl S R :=
  match m with Ok a => f a | Error e => Fail e end.

(** [for i in range(n)] : iterations i0, i0+1, ... (n of them) *)
Fixpoint for_range_from {S R} (n : nat) (i0 : Z) (body : Z -> S -> ctl S R) (s : S)
  : ctl S R :=
  match n with
  | O => Go s
  | Datatypes.S n' =>
      match body i0 s with
      | Go s' => for_range_from n' (i0 + 1) body s'
      | Ret r => Ret r
      | Fail e => Fail e
      end
  end.
Definition for_range {S R} (n : Z) (body : Z -> S -> ctl S R) (s : S) : ctl S R :=
  for_range_from (Z.to_nat n) 0 body s.

(** iterations of a [prange] executed in an arbitrary order [pi] *)
Fixpoint for_order {S R} (pi : list Z) (body : Z -> S -> ctl S R) (s : S) : ctl S R :=
  match pi with
  | [] => Go s
  | i :: rest =>
      match body i s with
      | Go s' => for_order rest body s'
      | Ret r => Ret r
      | Fail e => Fail e
      end
  end.

Fixpoint while_fuel {S R} (fuel : nat) (cond : S -> bool) (body : S -> ctl S R) (s : S)
  : ctl S R :=
  if cond s then
    match fuel with
    | O => Fail OutOfFuel
    | Datatypes.S f' =>
        match body s with
        | Go s' => while_fuel f' cond body s'
        | Ret r => Ret r
        | Fail e => Fail e
        end
    end
  else Go s.

(** fixed-width unsigned wrap-around *)
Definition u64 (z : Z) : Z := z mod 18446744073709551616.
Definition u32 (z : Z) : Z := z mod 4294967296.
Definition u16 (z : Z) : Z := z mod 65536.
Definition u8 (z : Z) : Z := z mod 256.

(** memoryviews *)
Definition mv_len {A} (l : list A) : Z := Z.of_nat (length l).
Definition mv_get {A} (l : list A) (i : Z) : option A :=
  if (0 <=? i) then nth_error l (Z.to_nat i) else None.
Fixpoint set_nth {A} (l : list A) (n : nat) (v : A) : option (list A) :=
  match l, n with
  | [], _ => None
  | _ :: t, O => Some (v :: t)
  | h :: t, Datatypes.S n' =>
      match set_nth t n' v with Some t' => Some (h :: t') | None => None end
  end.
Definition mv_set {A} (l : list A) (i : Z) (v : A) : option (list A) :=
  if (0 <=? i) then set_nth l (Z.to_nat i) v else None.
(** memoryview slice [l[a:b]] with wraparound=False: indices are clamped *)
Definition clampZ (lo hi x : Z) : Z := Z.max lo (Z.min hi x).
Definition mv_slice {A} (l : list A) (a b : Z) : list A :=
  let n := mv_len l in
  let a' := clampZ 0 n a in
  let b' := clampZ 0 n b in
  firstn (Z.to_nat (b' - a')) (skipn (Z.to_nat a') l).
Definition zeros (n : Z) : list Z := repeat 0 (Z.to_nat n).

(** basic facts *)
Lemma mv_get_Some {A} (l : list A) i v : mv_get l i = Some v -> 0 <= i < mv_len l.
Proof.
  unfold mv_get, mv_len. destruct (0 <=? i) eqn:E; [|discriminate].
  intros H. apply Z.leb_le in E.
  assert (Z.to_nat i < length l)%nat by (apply nth_error_Some; congruence). lia.
Qed.

Lemma mv_get_in_range {A} (l : list A) i : 0 <= i < mv_len l -> exists v, mv_get l i = Some v.
Proof.
  unfold mv_get, mv_len. intros [H1 H2].
  destruct (0 <=? i) eqn:E; [|apply Z.leb_gt in E; lia].
  destruct (nth_error l (Z.to_nat i)) eqn:N; [eauto|].
  apply nth_error_None in N. lia.
Qed.

Lemma mv_get_app_r {A} (pre : list A) x suf : mv_get (pre ++ x :: suf) (mv_len pre) = Some x.
Proof.
  unfold mv_get, mv_len.
  destruct (0 <=? Z.of_nat (length pre)) eqn:E; [|apply Z.leb_gt in E; lia].
  rewrite Nat2Z.id. rewrite nth_error_app2 by lia. now rewrite Nat.sub_diag.
Qed.

Lemma set_nth_length {A} (l : list A) n v l' : set_nth l n v = Some l' -> length l' = length l.
Proof.
  revert n l'. induction l as [|h t IH]; intros [|n] l' H; simpl in *; try discriminate.
  - now inversion H.
  - destruct (set_nth t n v) eqn:E; [|discriminate]. inversion H; subst. simpl.
    f_equal. eauto.
Qed.

Lemma set_nth_Some {A} (l : list A) n v : (n < length l)%nat -> exists l', set_nth l n v = Some l'.
Proof.
  revert n. induction l as [|h t IH]; intros [|n] H; simpl in *; try lia; eauto.
  destruct (IH n) as [t' Ht]; [lia|]. rewrite Ht. eauto.
Qed.

Lemma set_nth_nth {A} (l : list A) n v l' d :
  set_nth l n v = Some l' ->
  forall m, nth m l' d = if Nat.eqb m n then v else nth m l d.
Proof.
  revert n l'. induction l as [|h t IH]; intros [|n] l' H m; simpl in *; try discriminate.
  - inversion H; subst. destruct m; reflexivity.
  - destruct (set_nth t n v) eqn:E; [|discriminate]. inversion H; subst.
    destruct m; simpl; [reflexivity|]. now apply IH.
Qed.
