(* Line-protocol driver around the extracted model.
   request : "<op> <sexp>"      response : "<sexp>"
   sexp    : integer | ( sexp* ) | #<hex bytes>  (a list of byte values)
   The model side is Model.dispatch : z -> val -> val  (extracted from Coq).
   Conversions between decimal text and the extracted binary integers are the
   only logic here. *)
open Model

let rec pos_of_int (n : int) : positive =
  if n = 1 then XH
  else if n land 1 = 0 then XO (pos_of_int (n lsr 1))
  else XI (pos_of_int (n lsr 1))

let z_of_int (n : int) : z =
  if n = 0 then Z0 else if n > 0 then Zpos (pos_of_int n) else Zneg (pos_of_int (-n))

let z_of_string (s : string) : z =
  let n = String.length s in
  let neg = n > 0 && s.[0] = '-' in
  let start = if neg then 1 else 0 in
  if n - start <= 17 then z_of_int (int_of_string s)
  else begin
    let acc = ref Z0 in
    for i = start to n - 1 do
      acc := z_mul10_add !acc (z_of_int (Char.code s.[i] - 48))
    done;
    if neg then z_neg !acc else !acc
  end

(* positive -> int when it fits in 60 bits *)
let rec pos_bits (p : positive) (depth : int) : int option =
  if depth > 60 then None else
  match p with
  | XH -> Some 1
  | XO q -> (match pos_bits q (depth + 1) with Some v -> Some (2 * v) | None -> None)
  | XI q -> (match pos_bits q (depth + 1) with Some v -> Some (2 * v + 1) | None -> None)

let rec string_of_z (x : z) : string =
  match x with
  | Z0 -> "0"
  | Zneg p -> "-" ^ string_of_z (Zpos p)
  | Zpos p ->
    (match pos_bits p 0 with
     | Some v -> string_of_int v
     | None ->
       let (q, r) = z_divmod10 x in
       string_of_z q ^ string_of_z r)

(* ---- parser ---- *)
let parse (s : string) (start : int) : val0 =
  let n = String.length s in
  let pos = ref start in
  let skip () = while !pos < n && (s.[!pos] = ' ' || s.[!pos] = '\t') do incr pos done in
  let hexv c = match c with
    | '0'..'9' -> Char.code c - 48
    | 'a'..'f' -> Char.code c - 87
    | 'A'..'F' -> Char.code c - 55
    | _ -> failwith "bad hex" in
  let rec value () : val0 =
    skip ();
    if !pos >= n then failwith "unexpected end";
    match s.[!pos] with
    | '(' ->
      incr pos;
      let items = ref [] in
      let fin = ref false in
      while not !fin do
        skip ();
        if !pos >= n then failwith "unterminated list";
        if s.[!pos] = ')' then (incr pos; fin := true)
        else items := value () :: !items
      done;
      VL (List.rev !items)
    | '#' ->
      incr pos;
      let items = ref [] in
      while !pos + 1 < n && s.[!pos] <> ' ' && s.[!pos] <> ')' do
        items := VI (z_of_int (16 * hexv s.[!pos] + hexv s.[!pos + 1])) :: !items;
        pos := !pos + 2
      done;
      VL (List.rev !items)
    | _ ->
      let b = !pos in
      while !pos < n && s.[!pos] <> ' ' && s.[!pos] <> ')' && s.[!pos] <> '(' do incr pos done;
      VI (z_of_string (String.sub s b (!pos - b)))
  in
  value ()

let rec print (b : Buffer.t) (v : val0) : unit =
  match v with
  | VI z -> Buffer.add_string b (string_of_z z)
  | VL l ->
    Buffer.add_char b '(';
    List.iteri (fun i x -> if i > 0 then Buffer.add_char b ' '; print b x) l;
    Buffer.add_char b ')'

let () =
  let buf = Buffer.create 65536 in
  try
    while true do
      let line = input_line stdin in
      let sp = try String.index line ' ' with Not_found -> String.length line in
      let op = z_of_string (String.sub line 0 sp) in
      let arg = if sp >= String.length line then VL [] else parse line sp in
      Buffer.clear buf;
      (try print buf (gv_dispatch op arg)
       with Stack_overflow -> Buffer.clear buf; Buffer.add_string buf "!stack-overflow"
          | Failure _ -> Buffer.clear buf; Buffer.add_string buf "!failure");
      Buffer.add_char buf '\n';
      print_string (Buffer.contents buf);
      flush stdout
    done
  with End_of_file -> ()
