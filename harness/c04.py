"""C04 -- each reference genome is compared through its own signature, matched by ID.

Tie: B.  Every case is realised as real files written by the harness -- an SQLite genome database (copied
from a template holding the schema, one genome set and one taxon; genome rows inserted with sqlite3, or -- field
`dblayout` -- by an op list that fixes the physical order and history of the rows, run through sqlite3 or the ORM) and an
HDF5 signature file (`dump_signatures` of an `AnnotatedSignatures` with the case's identifiers, in the
case's order, with the case's `id_attr`) -- and loaded by the code under test:

  load   `ReferenceDatabase.load_from_dir(dir)` (or load_genomeset + load_signatures + the constructor),
         then `jaccarddist_matrix(queries, db.signatures, ref_indices=db.sig_indices, chunksize=c)` and
         `gambit.query.query(db, queries, params)`;
  seq    a script of such calls over shared objects (see STATE AND ALIASING below);
  dir    a directory whose entries come from a grammar of names (a.gdb, .gdb, x.tar.gs, y.GS, a..h5,
         b.db., duplicates, sub-directories named like database files, genome databases named like
         signature files ...): `locate_files` and `load_from_dir`;
  cli    `gambit -d DIR query -s QUERIES -f json -o OUT` in process.

The same case is given to the extracted model (Model/C04.v: 402 repaired constructor, 401 constructor as
found, 403 load_from_dir, 405 locate_files, 406 suffix, 408 chunked matrix through the indices) and to the
extracted specification (407 `completeb`, proved equivalent to "loading succeeds").  Model inputs are the
harness's own tables (which genome row has which identifier values, which pool signature was stored under
which identifier at which position).

Property predicate (what is reported as a violation, with the input as replay), computed from those tables
alone: if the metadata names no identifier attribute, a genome of the set has no value for it, or no
signature of the file carries a genome's value, loading must fail; if a database is produced, its genomes
are the genome set (each once), genomes[j] carries the identifier stored at sig_indices[j], and every
distance (matrix cell, every `closest_genomes` entry of every query result, the closest match) equals the
directly computed distance between the query and the pool signature stored under that genome's
identifier; a complete, unambiguous file must load whatever its order and padding.  A directory yields
files / a database only if exactly one entry has a genome-file name and exactly one a signature-file name
(name = non-empty stem + .gdb/.db resp. .gs/.h5).  A model/implementation difference that leaves this
predicate true is reported as a broken tie.

COVERAGE AUDIT (clause / quantifier element / entry point -> stream that drives it ON THE IMPLEMENTATION; "P" = property
predicate judged there, "M" = also compared with the extracted model).  "+" marks what the audit added.

  pairing by identifier, any order                exhaustive-orders-paddings (all orders <=4/5 x 4 attrs), random-files      P M
  however many unrelated signatures               same (<=6);  + heavy-padding: 30-300 (thorough 3000) unrelated, at front /
                                                  back / between / random, ids of rows OUTSIDE the set, out-of-set rows NULL
                                                  or sharing an ncbi_id with a genome of the set                              P M
  SIZES of the stored signatures                  was: 20 pool signatures of tens to hundreds of k-mers (random lengths), none empty -- sums /
  ("all signature files")                         differences of neighbouring lengths never coincided and no two were equal.
                                                  + size-structure: a second pool of 0..6 k-mers (8 contents per size, distance vectors
                                                  to the 4 queries pairwise distinct); enumerated layouts g(a) x(b) g(c) for all
                                                  a,b,c <= 3, g(a) g(c), g(a) x(b) x(c) g(a+b+c) and mirror, three-genome chains, zero-
                                                  length genome / unrelated signatures, something stored in front / behind; random
                                                  layouts over small size palettes mixed with long signatures; x 4 attrs x HDF5 file
                                                  (dir / ctor / load) / in-memory SignatureArray / SignatureList x chunk sizes 1, 2, 3,
                                                  5, 1000, None x k-mer dtypes; some through the command line / with a missing one  P M
  every distance from the own signature           load kind: jaccarddist_matrix(ref_indices=sig_indices, chunksize) cells, every
                                                  closest_genomes entry and closest_match of query()                         P M
                                                  + query() call forms (QueryParams / keywords with NumPy ints / defaults /
                                                  inputs=), repeated queries, reference k-mers stored as u2/u4/u8/i4/i8      P M
  fails: genome without signature / NULL value    incomplete-files (every single defect, n=3), random-files;
                                                  + compound-defects (2-3 defects at once; harmless oddities must still load) P M
  fails: metadata names no identifier attribute   None, 'description', 'id' (values of another column);  + not-identifier-
                                                  attributes: 31 names (real non-id columns WITH their values stored, case /
                                                  white-space / homoglyph near misses, '') x dir / ctor / in-memory            P M
  fails: not exactly one genome + one sig file    directories-enumerated / -random (name grammar, 4 content kinds);
                                                  + directories-special: empty dir, symlinks (file / dir / broken), zero-length
                                                  files, 20-150 unrelated files, URL / shell characters in names, path missing
                                                  or a file, directory as str / Path / trailing sep / relative / via symlink  P M
                                                  (missing / is-file: P only)
  four identifier attributes                      every load stream cycles the four                                           P M
  identifier VALUES                               was: key/N, GCA_N.1, 5000+N only.  + identifier-values: 0 and '' (falsy but
                                                  present), +-2^63, 2^32+1 vs 1, white space, case, NFC vs NFD, digit strings vs
                                                  ints, 300 chars; unrelated signatures are near misses of the genomes' ids;
                                                  the same strings in OTHER id columns of other genomes                       P M
  identifier STORAGE / containers                 was: int64 / object-str HDF5 only.  + id-storage: HDF5 from object / <U / bytes
                                                  arrays, i1..u8 and big-endian widths; in-memory AnnotatedSignatures over
                                                  SignatureList / SignatureArray with ids as list / tuple / NumPy scalars /
                                                  strided view / arrays                                                        P M
  ReferenceDatabase.load_from_dir                 all 'dir' cases;  + keyword call, argument forms (above)                     P M
  constructor, locate_files, load_genomeset       via='ctor' (1/5 .. 1/3 of load cases);  + keyword calls                      P M
  ReferenceDatabase.load(gfile, sfile)            was only inside load_from_dir.  + entry-forms: direct, any file names (even
                                                  x.gs / y.gdb swapped), str / Path, keywords, via gambit.db.refdb            P M
  file names / extensions                         was genomes.gdb + signatures.gs only in load / cli.  + .db/.h5 pairs, Unicode,
                                                  '#', '%41', newline, leading '-' (entry-forms, cli-forms)                   P M
  genomes_by_id_subset / genomes_by_id            was only through the constructor.  + matching-functions: direct, attribute by
                                                  name or Genome.<attr> object, id containers, shared ncbi_id                 P
  objects reused / several databases open         was none (one database at a time).  + several-databases-open-shared-objects:
                                                  2-3 open together (some failing), ONE opened signature file for several
                                                  genome sets, same directory twice, interleaved repeated queries             P
  genome database FILE: how the rows got there   was: every genome row inserted in primary-key order TOGETHER with its annotation
  (physical row order; "all genome sets")         row, rows outside the set only after the set, one taxon, dense keys 1..n -- the
                                                  annotation rows were always in the order of the genome rows, so two separately
                                                  ordered queries lined up by accident.  + database-layouts: op lists (LAYOUT OPS)
                                                  giving independent orders of genome-row and annotation-row inserts (registered
                                                  first / annotated later, a set picked from rows already there, interleaved),
                                                  explicit out-of-order rowids, rows deleted and re-inserted, temporary rows and
                                                  a temporary second genome set (holes), taxa assigned in a separate pass (2-4
                                                  taxa), VACUUM / ANALYZE, sparse / huge primary keys, rows outside the set
                                                  anywhere in key order, identifiers not monotone in the key; sqlite3 or ORM
                                                  builder; complete for the annotation orders of 3 (x file orders) and 4 genomes.
                                                  Driven through load (dir / ctor / load / mem), cli, multi and match            P M (multi, match: P)
  the genome set AT THE TIME of the call          was: every genome set object was read-only and held the same rows from load_genomeset to
  ("all genome sets": also one that was edited    close.  + genome-set-edited-between-uses (round 8): a WRITABLE session (file_sessionmaker(
  after an earlier database was made from it)     readonly=False) + only_genomeset) on a private copy; database made / matching functions
                                                  called, then the curator edits the set through the session (two genomes exchange their
                                                  identifiers -- one column or all four --, a genome exchanges with a row outside the set,
                                                  a member replaced / removed / added, an identifier re-pointed to an unrelated signature
                                                  of the file or to nothing, a value set to NULL; commit or flush; there and back again),
                                                  then the SAME genome set object + the SAME signature object go to the constructor / the
                                                  matching functions again; judged by the oracle on the edited table                P
  gambit query                                    was -d DIR -s FILE -f json.  + cli-forms: csv / archive (closest_match,
                                                  primary_match), --strict, -c, --no-progress, --db, GAMBIT_DB_PATH, genome
                                                  FILES positional and -l (query_parse; distances from the harness's own k-mer
                                                  search), odd identifier values, other file names, storage forms, directories
                                                  with a second database-named entry (must exit non-zero)                      P (M: loads or not)
  not driven                                      floats / bools as in-memory identifiers (equal to ints in Python; outside
                                                  "identifier"); a FINISHED genome database with two genome sets (only_genomeset
                                                  refuses it before the matching starts; a second set that existed while the file
                                                  was built and was removed again IS driven by database-layouts); meta.id_attr given as InstrumentedAttribute
                                                  (cannot come from a file); FIFOs / unreadable entries

STATE AND ALIASING (audit of what can outlive one call; kind `seq`, stream sequences-over-shared-objects).  A `seq` case is a script of
4-12 calls over objects made ONCE per case; every step is judged by the predicate of the single-call kinds on the load case that ITS
genome database and ITS signature collection make together (the genome databases of a case hold the same logical genomes under
different primary keys and with genome sets of different SIZE; every signature collection has its own id_attr, order, padding,
coverage and its own assignment of pool signatures, so a genome seen through a stale object of another database shows).  Dimensions:
(a) the object is REUSED by >= 2 calls whose other arguments differ, in both orders; (b) after EVERY step the caller's object is
compared with a print taken before (values and their types; ORM objects against the case's table; files by content); (c) calls that
FAIL part-way are interleaved, then the good call is repeated on the same thread and objects; (d) the same call twice must give the
same result; (e) a second thread.  "old" = a stream that existed before this audit; "+" = added.

  entry point (anchor)            objects that outlive the call                     a  b  c  d  e   where
  ------------------------------  ------------------------------------------------  -------------  ---------------------------------------------
  load_from_dir, locate_files     the directory, its two files                      +  +  +  +  +   old: same directory loaded twice while open
                                  (path as str / Path)                                              (multi share=dir); every case its own path.
                                                                                                    + `rewrite`: the files REPLACED (other set,
                                                                                                    other collection, other file NAMES) between
                                                                                                    loads of one path; `badload` on a damaged copy
                                                                                                    in between; file bytes + listing after every
                                                                                                    step (also kind dir: listing before / after)
  ReferenceDatabase.load          Session + engine, open HDF5 file (made by it)     +  +  +  +  +   + load / close / load of the same files; 2-3 open
                                                                                                    together (old: multi); `fresh` in a worker thread
  load_genomeset                  Session, ReferenceGenomeSet, AnnotatedGenome /    +  +  +  +  -   + ONE genome set for 2-3 signature objects of
                                  Genome objects of its identity map                                different id_attr / order / coverage (`gset` +
                                                                                                    several `make`); Genome objects the session holds
                                                                                                    compared with the table without SQL
  load_signatures                 HDF5Signatures: ids array, meta, open file        +  +  +  +  -   old: one opened file for several genome sets
                                                                                                    (multi share=sigs), not printed.  + sets of
                                                                                                    different size, both orders; ids, vars(meta),
                                                                                                    k-mer spec, every signature's bytes printed
  ReferenceDatabase(gset, sigs)   caller's in-memory AnnotatedSignatures (ids as    +  +  +  +  -   old: in-memory collections were single-use.
                                  list / tuple / array / strided view, meta,                        + `memsigs` slot reused for several genome sets
                                  SignatureList / SignatureArray)
                                  the result: genomes, sig_indices, signatures      +  +  +  +  -   old: re-read at every observation of multi.
                                                                                                    + compared after EVERY step with what they were
                                                                                                    at open; Genome rows against the table; kind
                                                                                                    load: re-read after the query of the same case
  genomes_by_id(_subset)          caller's ids container; the genome set            +  +  +  +  -   old: 3 calls, one attribute, fresh container.
                                                                                                    + one genome set x several attributes and
                                                                                                    containers, one container x several genome sets;
                                                                                                    `badmatch`: strict KeyError, bad attribute, a
                                                                                                    container that raises half-way; kind match:
                                                                                                    container printed before / after
  ReferenceDatabase(gset, sigs),  the ReferenceGenomeSet OBJECT and its session      +  +  .  +  -   old: the rows behind a genome set object never
  genomes_by_id(_subset)          when the rows behind it CHANGE between two calls                  changed while it was alive.  + (round 8) `gsetrw` +
                                  (anything remembered per genome set object)                       `edit`: construct / match, edit through the session
                                                                                                    (same count or not, same identifier set or not),
                                                                                                    construct / match again on the same objects, next
                                                                                                    to an untouched second genome set; several edits
                                                                                                    in a row and back to the first table
  jaccarddist_matrix              queries list, db.signatures, db.sig_indices,      +  +  +  +  +   old: harness-global query arrays, never printed.
                                  the returned matrix (out= is DOCUMENTED as                        + per-case copies handed to every call; matrices
                                  written to: judged so)                                            handed out earlier re-read at the end (no shared
                                                                                                    output buffer); `badquery`: wrong out= shape, a
                                                                                                    float query in the MIDDLE of the batch; kind load:
                                                                                                    query arrays printed before / after every case
  gambit.query.query              QueryParams object, queries, inputs list,         +  +  +  +  +   old: a fresh QueryParams per call.  + 2 params
                                  QueryResults (aliases params, genomeset, meta,                    objects per case handed to every query on
                                  AnnotatedGenome objects); **kw is copied by the                   databases of different size (report_closest above
                                  language                                                          / below the size); `badquery`: iterator that
                                                                                                    raises, no queries, inputs too short; results
                                                                                                    handed out earlier re-read at the end
  gambit -d DIR query             CLIContext (one per invocation); module / class   +  +  +  +  -   old: every invocation on a new path.  + the same
                                  state of the library                                              directory twice, two directories alternating, a
                                                                                                    failing directory in between, the same PATH after
                                                                                                    its files were replaced; same command, same output
  module / class / thread-local   whatever one call leaves for the next             +  .  +  +  +   all cases share one process, so old streams could
  state of gambit.db.refdb,                                                                         trip over it -- but their replay (one case) did not
  gambit.query, gambit.metric                                                                       reproduce.  A seq case carries the whole sequence.
  not driven / not judged         ONE database object used from two threads (SQLite connections are bound to their thread; not advertised), fork
                                  (the query command does not fork); exporters given one QueryResults twice (C15-C17); identity of returned objects;
                                  the NUMBER of closest genomes (only through "same call, same result"); what a failing call raises

GENUINE DEFECT found by this audit in the unchanged code, NOT repaired (proposed: repo_fixes/C04-load-creates-missing-genome-file.diff):
state that survives a FAILED call.  The genome file is opened read-write-create, so a load that names a genome file which does not
exist fails (OperationalError: no such table) AND LEAVES AN EMPTY FILE under that name.  Sequence: directory D = {genomes.gdb,
signatures.gs} loads; ReferenceDatabase.load(D/genomes.db, D/signatures.gs) (wrong extension) fails and creates D/genomes.db;
load_from_dir(D) now fails with "Multiple genome database files" although D was complete.  Same through a genome-file name that is a
broken symbolic link (the link's TARGET is created, possibly in another database directory).  Exactly these two cases are counted
('...KNOWN-DEFECT...') instead of judged: seq step `badload wrong-genome-name`, and kind dir when the only change of the directory is
that the target of a broken genome-file link came into being; with the proposed fix both counters stay at zero and everything is judged.

GENUINE DEFECT found by the audit in the code as found, repaired in /repo by a fix: commit (repo_fixes/C04-sqlite-url.diff):
a genome file whose NAME contains '?' (e.g. 'refs?x.gdb', the only .gdb/.db entry, next to one signature file).
gambit.db.sqla.file_sessionmaker and gambit.cli.common.CLIContext built the engine with f'sqlite:///{path}', so SQLAlchemy cut
the path at '?': load_from_dir failed (and CREATED an empty file 'refs' in the database directory), and if an entry 'refs'
existed and was a genome database THAT file was loaded although it is not a genome file of the directory.  The three
directories-special cases that showed it are kept and judged like every other case (counted as 'dir:question mark ...')."""
import itertools
import json
import os
import random
import shutil
import sqlite3

import numpy as np

PROP = 'C04'
RULE = ('load: genome rows (4 identifier columns, NULLs, rows outside the genome set) x signature file (identifiers '
        'in any order, unrelated extras, repeats, wrong type) x id_attr (4 names, None, other string) x chunksize; '
        'non-trivial: >=2 genomes in the set and the file is not simply "genome order, no extras" (or it is '
        'incomplete / ambiguous), pool distances to every query pairwise distinct so any misalignment shows. '
        'dir: directory listing from the name grammar; non-trivial: >=2 entries or an entry whose name is a near '
        'miss of a database file name. cli: query through the command line; non-trivial as load. '
        'Audit streams (same rules; see the table in the module docstring): identifier-values (falsy / extreme / near-miss '
        'identifiers), heavy-padding (30-300 unrelated signatures), size-structure (signatures of 0..6 k-mers from a second pool, so '
        'that lengths of neighbouring signatures in the file are equal, zero, or sums / differences of each other: enumerated layouts '
        'genome(a) unrelated(b) genome(c) for all a,b,c <= 3, adjacent genomes, two unrelated between, three-genome chains, and random '
        'layouts over small size palettes; the genomes\' own signatures differ pairwise in content unless empty and every small '
        'signature has its own vector of distances to the four queries, all four queries asked, so a genome compared through any '
        'other stored signature shows; file / constructor / load() / in-memory array and list, chunk sizes 1..5 / 1000 / None), id-storage (HDF5 string / integer widths / byte order, '
        'in-memory collections), entry-forms (load(), path forms, keyword calls, query call forms, repeated queries), '
        'not-identifier-attributes, compound-defects-and-harmless-oddities, directories-special (links, empty, many files, '
        'odd names, missing path), cli-forms (csv / archive / genome files / env var), database-layouts (the genome database file '
        'built by an op list: genome rows and annotation rows inserted in independent orders, explicit rowids, deleted and re-inserted '
        'rows, temporary rows / second genome set, taxa assigned later, VACUUM / ANALYZE, sparse primary keys, out-of-set rows anywhere; '
        'the logical content alone is judged; also non-trivial when the annotation rows are physically in another order than the genome '
        'rows). multi: 2-3 databases open together or '
        'sharing one signature object, non-trivial: >=2 databases one of which is non-trivial as load. match: '
        'genomes_by_id(_subset) called directly, non-trivial: >=2 genomes and >=2 identifiers. seq: a script of 4-12 calls (load / '
        'load_genomeset / load_signatures / constructor / matrix + query / matching functions / command line / close / files replaced / '
        'calls failing part-way / worker thread) over 2-3 genome databases of different size, 2-3 signature collections with their own '
        'id_attr, 2 QueryParams objects and 2 query lists made once per case; every step judged as load / match / cli on its own '
        'combination, plus: caller\'s objects, open databases and files unchanged after every step, same call same result, earlier '
        'results unchanged at the end; stream genome-set-edited-between-uses: the genome set is opened writable on a private copy and '
        'edited through its session between two constructions / matchings on the same genome set and signature objects (identifiers '
        'exchanged, re-pointed, set to NULL; members replaced, removed, added; commit or flush), every call judged on the table the set '
        'holds at that moment; non-trivial: >=2 steps ran, some shared object was used by >=2 steps and some step was non-trivial '
        'as load / match')
TRUSTED = ['SQLAlchemy/SQLite: `genomeset.genomes.join(...).add_columns(attr)` returns one row per AnnotatedGenome of '
           'the set with the stored column value; `.filter(attr == None).count()` counts the NULLs; `.count()` the rows; '
           'one ORM object per row (identity map) -- modelled as list operations over the harness\'s row table; that this does not '
           'depend on the physical order / history of the rows in the file is not assumed but driven (stream database-layouts)',
           'h5py/libhdf5: a string / integer dataset reads back as written (identifiers without NUL characters); '
           'metadata attribute id_attr reads back as written (None as h5py.Empty)',
           'pathlib.PurePath.suffix (CPython 3.12 source) and os.scandir: modelled by Model/C04.v suffix over code points; '
           'names of one directory are pairwise distinct',
           'NumPy float32 division of the exact intersection/union counts as the directly computed distance '
           '(cross-checked against gambit.metric.jaccarddist on the whole pool in setup)',
           'the small signature pool of stream size-structure (harness _small_pool): 1 empty + 8 signatures of each size 1..6 made of '
           'k-mers of the queries; setup fails unless their distance vectors over the four queries are pairwise distinct; their '
           'directly computed distances are cross-checked against gambit.metric.jaccarddist like the others; an empty stored '
           'signature is at distance 1 from every (non-empty) query',
           'harness/c04.py file construction (template database + sqlite3 inserts or LAYOUT OPS through sqlite3 / SQLAlchemy, '
           'dump_signatures); layout_walk: the finished file of an op list holds exactly the rows of the case\'s table',
           'kind seq: the interpreter _SeqRun (which slot holds what, closing order, prints obj_print / sigs_print / dir_print of the '
           'caller\'s objects); CPython copies **kw into a new dict (a callee cannot reach the caller\'s keyword dict)',
           'kind seq, step edit: _SeqRun._edit sets attributes of the loaded Genome objects, deletes / adds AnnotatedGenome objects and '
           'flushes or commits; it reads the genome set back through the same session and stops the case (harness failure, no verdict) '
           'unless the session then reports exactly the target table']
ASSUMPTIONS = ['rows of the genome set are distinct rows (hypothesis NoDup gs of C04_success_iff): primary keys are unique',
               'Python equality of identifier values is equality of (type, value): int vs str never equal; NumPy integers '
               'equal to Python ints of the same value',
               'jaccarddist_array(query, chunk) is map (jaccarddist query) chunk (property C05); chunksize is None or > 0',
               'the genome database holds exactly one genome set; files do not change while loaded, except that the caller may '
               'edit a genome set through the very session it was loaded with (kind seq, steps gsetrw / edit: flushed or committed '
               'before the next call; "the genome\'s value" is then the value the session reports at the time of the call)',
               'identifiers are Python / NumPy integers within int64 or strings without NUL (floats and bools, which Python '
               'equates with integers, are not identifiers)',
               'command-line genome-file queries: the query signature is the set of K-mers following the prefix on either strand '
               'of a record (harness own_kmers; that gambit computes this set is property C01/C06)',
               'kind seq: files are replaced only after everything opened from them was closed; a database object is used only in '
               'the thread that made it (a worker thread loads, queries and closes its own); out= of jaccarddist_matrix is '
               'documented as written to']
CORRESPONDENCES = ['load', 'dir', 'cli', 'multi', 'match', 'seq']
BATCH = 250
SHRINK = False      # cases are generated smallest-first; generic list shrinking breaks the case invariants

ATTRS = ['key', 'genbank_acc', 'refseq_acc', 'ncbi_id']
ATTR_CODE = {'key': 0, 'genbank_acc': 1, 'refseq_acc': 2, 'ncbi_id': 3}
K, PREFIX = 6, 'AT'
POOL_SEED = 40004
NPOOL, NQUERY = 20, 4
# the SMALL pool (stream size-structure): signatures of 0..SMALL_MAX k-mers, SMALL_VARIANTS of every size with pairwise different
# content; pool index NPOOL = the empty signature, small_index(size, variant) the others
SMALL_MAX, SMALL_VARIANTS = 6, 8
NPOOL_ALL = NPOOL + 1 + SMALL_MAX * SMALL_VARIANTS
ERRNAME = {1: 'id_attr None', 2: 'bad id_attr', 3: 'genomes without value', 4: 'unmatched genomes', 5: 'duplicated match',
           6: 'no genome file', 7: 'multiple genome files', 8: 'no signature file', 9: 'multiple signature files',
           10: 'not a genome db', 11: 'not a signature file'}

_S = {}


# ------------------------------------------------------------------------------------------------
# setup: signature pool, template database
# ------------------------------------------------------------------------------------------------

def setup(ctx):
	from vf import impl
	impl.check_import()
	try:     # the matrices here are tiny: 16 spinning OpenMP threads only cost time
		from gambit._cython.threads import omp_set_num_threads
		omp_set_num_threads(1)
	except Exception:
		pass
	_S['root'] = impl.scratch_dir('gambit-verif-c04-')
	_S['n'] = 0
	_pool()
	_template()


def _f32(x):
	return float(np.float32(x))


def _direct(a, b):
	"""directly computed Jaccard distance of two k-mer sets, one binary32 rounding"""
	u = len(a | b)
	if u == 0:
		return 0.0
	return _f32(np.float32(u - len(a & b)) / np.float32(u))


def _pool():
	"""NPOOL reference signatures and NQUERY query signatures (deterministic); for every query the distances to
	the pool are pairwise distinct, so a genome compared through a wrong signature is always visible"""
	if 'pool' in _S:
		return
	seed = POOL_SEED
	while True:
		rng = random.Random(seed)
		core = set(rng.sample(range(4 ** K), 150))
		sigs = []
		for i in range(NPOOL + NQUERY):
			keep = set(x for x in core if rng.random() < rng.choice([0.2, 0.5, 0.8]))
			own = set(rng.sample(range(4 ** K), rng.randint(10, 120)))
			sigs.append(keep | own)
		refs, qs = sigs[:NPOOL], sigs[NPOOL:]
		table = [[_direct(q, r) for r in refs] for q in qs]
		if all(len(set(row)) == NPOOL and all(0 < d < 1 for d in row) for row in table):
			break
		seed += 1
	small = _small_pool(qs)
	table = [row + [_direct(q, r) for r in small] for row, q in zip(table, qs)]
	_S['pool'] = [np.array(sorted(s), dtype=np.uint16) for s in refs + small]
	_S['queries'] = [np.array(sorted(s), dtype=np.uint16) for s in qs]
	_S['queries_pristine'] = [q.copy() for q in _S['queries']]
	_S['table'] = table
	# the directly computed distances are what the pairwise kernel (property C02) gives
	from gambit.metric import jaccarddist
	for qi, q in enumerate(_S['queries']):
		for ri, r in enumerate(_S['pool']):
			if _f32(jaccarddist(q, r)) != table[qi][ri]:
				raise RuntimeError(f'direct distance {table[qi][ri]} != jaccarddist {jaccarddist(q, r)} (pool {qi},{ri})')


def small_index(size, variant):
	"""pool index of the small signature with `size` k-mers, content number `variant` (all empty signatures are one)"""
	return NPOOL if size == 0 else NPOOL + 1 + (size - 1) * SMALL_VARIANTS + variant % SMALL_VARIANTS


def small_size(p):
	"""number of k-mers of pool signature p"""
	return len(_S['pool'][p])


def _small_pool(qs):
	"""the small pool: [empty] + SMALL_VARIANTS signatures of every size 1..SMALL_MAX (deterministic).  Their k-mers are taken from
	k-mers of the queries (every membership pattern over the four queries), so that the vector of directly computed distances to
	the four queries is pairwise different over the whole small pool (the empty signature: distance 1 to every query, every
	other one < 1 to some query): a genome compared through any OTHER small signature shows in some query's row."""
	rng = random.Random(POOL_SEED + 77)
	by_pattern = {}
	for x in sorted(set().union(*qs)):
		by_pattern.setdefault(tuple(x in q for q in qs), []).append(x)
	hot = []
	for pat in sorted(by_pattern):
		hot += rng.sample(by_pattern[pat], min(4, len(by_pattern[pat])))
	out, seen = [set()], {tuple(_direct(q, set()) for q in qs)}
	for size in range(1, SMALL_MAX + 1):
		have = 0
		for _ in range(100000):
			if have == SMALL_VARIANTS:
				break
			cand = set(rng.sample(hot, size))
			vec = tuple(_direct(q, cand) for q in qs)
			if vec in seen:
				continue
			seen.add(vec)
			out.append(cand)
			have += 1
		if have != SMALL_VARIANTS:
			raise RuntimeError(f'small pool: only {have} signatures of size {size} with distinct distance vectors')
	return out


def _template():
	from sqlalchemy import create_engine
	from sqlalchemy.orm import Session
	from gambit.db.models import Base, ReferenceGenomeSet, Taxon
	path = os.path.join(_S['root'], 'template.sqlite')
	eng = create_engine('sqlite:///' + path)
	Base.metadata.create_all(eng)
	with Session(eng) as s:
		gs = ReferenceGenomeSet(id=1, key='verif/c04', version='1.0', name='c04')
		s.add(gs)
		s.add(Taxon(id=1, key='t1', name='Taxon one', rank='species', genome_set=gs, distance_threshold=0.9, report=True))
		s.commit()
	eng.dispose()
	_S['template'] = path
	# query signatures for the command line
	from gambit.sigs import SignatureList, AnnotatedSignatures, SignaturesMeta, dump_signatures
	from gambit.kmers import KmerSpec
	qpath = os.path.join(_S['root'], 'queries.gs')
	ql = SignatureList(_S['queries'], KmerSpec(K, PREFIX))
	dump_signatures(qpath, AnnotatedSignatures(ql, np.array([f'q{i}' for i in range(NQUERY)]), SignaturesMeta()), 'hdf5')
	_S['qfile'] = qpath
	_fasta_queries()
	# the fixed small database used by the directory cases
	_S['dir_case'] = dict(attr='key',
	                      genomes=[[1, 'g1', None, None, None, None, True], [2, 'g2', None, None, None, None, True],
	                               [3, 'g3', None, None, None, None, True]],
	                      sigs=[['x', 7], ['g3', 2], ['g1', 0], ['y', 9], ['g2', 1]])
	d = os.path.join(_S['root'], 'dirsrc')
	os.makedirs(d)
	write_genome_db(os.path.join(d, 'genomes'), _S['dir_case']['genomes'])
	write_sig_file(os.path.join(d, 'sigs'), _S['dir_case']['sigs'], 'key')
	_S['dirsrc'] = d


NUC = 'ACGT'
COMP = {'A': 'T', 'C': 'G', 'G': 'C', 'T': 'A'}


def own_kmers(records):
	"""the harness's own reading of a signature: indices (A=0..T=3, first base most significant) of the K-mers that
	follow the prefix on either strand of any record"""
	found = set()
	for seq in records:
		rc = ''.join(COMP[x] for x in reversed(seq))
		for strand in (seq, rc):
			i = strand.find(PREFIX)
			while i >= 0:
				kmer = strand[i + len(PREFIX):i + len(PREFIX) + K]
				if len(kmer) == K:
					v = 0
					for ch in kmer:
						v = 4 * v + NUC.index(ch)
					found.add(v)
				i = strand.find(PREFIX, i + 1)
	return found


def _fasta_queries():
	"""one FASTA file per query (every k-mer of the query signature as its own record, prefix first) for the command
	line's genome-file route (query_parse); the distances expected there are computed from own_kmers of the records"""
	files, table = [], []
	pool_sets = [set(r.tolist()) for r in _S['pool']]
	for qi, q in enumerate(_S['queries']):
		base = []
		for v in q.tolist():
			base.append(PREFIX + ''.join(NUC[(v >> (2 * (K - 1 - j))) & 3] for j in range(K)))
		# reverse-strand k-mers of these records join the set; add a few random records until the distances to the pool
		# are pairwise distinct again (so that a genome compared through a wrong signature is visible here too)
		for salt in range(200):
			rng = random.Random(POOL_SEED + 1000 * qi + salt)
			recs = base + [PREFIX + ''.join(rng.choice(NUC) for _ in range(K)) for _ in range(salt % 7)]
			row = [_direct(own_kmers(recs), r) for r in pool_sets[:NPOOL]]
			if len(set(row)) == NPOOL and all(0 < x < 1 for x in row):
				break
		path = os.path.join(_S['root'], f'q{qi}.fasta')
		with open(path, 'w') as f:
			for j, r in enumerate(recs):
				f.write(f'>q{qi}_{j}\n{r}\n')
		files.append(path)
		mine = own_kmers(recs)
		table.append([_direct(mine, r) for r in pool_sets])
	_S['fa_files'] = files
	_S['fa_table'] = table
	_S['fa_distinct'] = all(len(set(row[:NPOOL])) == NPOOL for row in table)
	lst = os.path.join(_S['root'], 'queries.txt')
	with open(lst, 'w') as f:
		f.write(''.join(p + '\n' for p in files))
	_S['fa_list'] = lst


def write_genome_db(path, genomes, layout=None):
	"""genomes: [pk, key, genbank_acc, refseq_acc, ncbi_id, ncbi_db, in_set]; layout: None (every genome row inserted in list
	order, together with its annotation row) or dict(ops=[...], builder='sql'|'orm') -- see LAYOUT OPS below"""
	shutil.copyfile(_S['template'], path)
	if layout:
		if layout.get('builder', 'sql') == 'orm':
			_build_layout_orm(path, genomes, layout['ops'])
		else:
			_build_layout_sql(path, genomes, layout['ops'])
		return
	con = sqlite3.connect(path)
	try:
		for pk, key, gb, rs, nid, ndb, in_set in genomes:
			con.execute(INSERT_GENOME, (pk, key, f'genome {pk}', ndb, nid, gb, rs))
			if in_set:
				con.execute('INSERT INTO genome_annotations (genome_id, genome_set_id, taxon_id, organism) VALUES (?,1,1,?)',
				            (pk, f'organism {pk}'))
		con.commit()
	finally:
		con.close()


INSERT_GENOME = 'INSERT INTO genomes (id, key, description, ncbi_db, ncbi_id, genbank_acc, refseq_acc) VALUES (?,?,?,?,?,?,?)'

# ------------------------------------------------------------------------------------------------
# LAYOUT OPS: how the genome database file came to hold its rows (stream database-layouts).  The LOGICAL content of the
# finished file is always case['genomes'] (the genome rows with their identifier values; which of them are in genome set
# 1) -- the op list only decides in which physical order (and after which detours) the rows got there:
#   ['g', pk]                    INSERT the genome row pk of the case's table
#   ['tg', pk]                   INSERT a temporary genome row (not in the table; must be deleted again)
#   ['dg', pk]                   DELETE genome row pk and its annotation rows
#   ['a', pk, rowid, taxon]      INSERT the annotation row (genome pk, genome set 1); rowid None = SQLite chooses (largest + 1),
#                                else the explicit rowid; taxon None = not assigned yet (must be assigned by a later 't')
#   ['da', pk]                   DELETE that annotation row
#   ['t', pk, taxon]             UPDATE the annotation row's taxon
#   ['taxon', id]                INSERT a further taxon of genome set 1 (taxon 1 is in the template)
#   ['gs2'] ['a2', pk, rowid] ['da2', pk] ['dgs2']
#                                a second genome set, annotation rows for it, and its removal (with its annotation rows)
#   ['commit'] ['vacuum'] ['analyze']
# builder 'sql': the statements through sqlite3; 'orm': the same steps through gambit.db.models objects in a SQLAlchemy
# session, flushed after every op (no explicit rowids there).
# ------------------------------------------------------------------------------------------------

LAYOUT_BUILDERS = ('sql', 'orm')
ROWID_MAX = 2 ** 40


def tmp_key(pk):
	return f'temporary-row/{pk}'


def _is_int(x, lo, hi):
	return isinstance(x, int) and not isinstance(x, bool) and lo <= x <= hi


def layout_walk(genomes, layout):
	"""the harness's own reading of an op list -> (problem | None, pks of the annotation rows of genome set 1 in physical
	(rowid) order).  problem is None iff every op is applicable when it comes and the finished file holds exactly the
	case's genome rows, exactly the case's in-set genomes annotated in genome set 1 (each with a taxon), and nothing of a
	second genome set or of temporary rows."""
	if not isinstance(layout, dict) or layout.get('builder', 'sql') not in LAYOUT_BUILDERS or not isinstance(layout.get('ops'), list):
		return 'layout must be dict(ops=[...], builder=sql|orm)', []
	orm = layout.get('builder', 'sql') == 'orm'
	table = {g[0]: g for g in genomes}
	if any(str(g[1]).startswith('temporary-row/') for g in genomes):
		return 'a genome key collides with the keys of temporary rows', []
	present = {}          # pk -> 'real' | 'tmp'
	rows = {}             # rowid -> (pk, genome set)
	taxon_of = {}         # pk -> taxon of its set-1 annotation row
	taxa = {1}
	set2 = False
	vacuumed = False

	def find(pk, gs):
		for r, v in rows.items():
			if v == (pk, gs):
				return r
		return None

	def add_row(pk, gs, rowid):
		nonlocal vacuumed
		if rowid is None:
			rowid = max(rows) + 1 if rows else 1
		elif orm or vacuumed or not _is_int(rowid, 1, ROWID_MAX) or rowid in rows:
			return False
		rows[rowid] = (pk, gs)
		return True

	for op in layout['ops']:
		if not isinstance(op, list) or not op or not isinstance(op[0], str):
			return f'bad op {op!r}', []
		name, args = op[0], op[1:]
		bad = f'op {op!r} is not applicable here'
		if name == 'g' and len(args) == 1:
			if args[0] not in table or args[0] in present:
				return bad, []
			present[args[0]] = 'real'
		elif name == 'tg' and len(args) == 1:
			if not _is_int(args[0], 1, 2 ** 63 - 1) or args[0] in table or args[0] in present:
				return bad, []
			present[args[0]] = 'tmp'
		elif name == 'dg' and len(args) == 1:
			if args[0] not in present:
				return bad, []
			del present[args[0]]
			for r in [r for r, v in rows.items() if v[0] == args[0]]:
				del rows[r]
			taxon_of.pop(args[0], None)
		elif name == 'a' and len(args) == 3:
			pk, rowid, tx = args
			if pk not in present or find(pk, 1) is not None or not (tx is None or tx in taxa) or not add_row(pk, 1, rowid):
				return bad, []
			taxon_of[pk] = tx
		elif name == 'a2' and len(args) == 2:
			if not set2 or args[0] not in present or find(args[0], 2) is not None or not add_row(args[0], 2, args[1]):
				return bad, []
		elif name in ('da', 'da2') and len(args) == 1:
			r = find(args[0], 1 if name == 'da' else 2)
			if r is None:
				return bad, []
			del rows[r]
			if name == 'da':
				del taxon_of[args[0]]
		elif name == 't' and len(args) == 2:
			if find(args[0], 1) is None or args[1] not in taxa:
				return bad, []
			taxon_of[args[0]] = args[1]
		elif name == 'taxon' and len(args) == 1:
			if not _is_int(args[0], 2, 1000) or args[0] in taxa:
				return bad, []
			taxa.add(args[0])
		elif name == 'gs2' and not args:
			if set2:
				return bad, []
			set2 = True
		elif name == 'dgs2' and not args:
			if not set2:
				return bad, []
			set2 = False
			for r in [r for r, v in rows.items() if v[1] == 2]:
				del rows[r]
		elif name in ('commit', 'analyze') and not args:
			pass
		elif name == 'vacuum' and not args:
			vacuumed = True
			rows = {n + 1: rows[r] for n, r in enumerate(sorted(rows))}
		else:
			return f'bad op {op!r}', []
	order = [rows[r][0] for r in sorted(rows) if rows[r][1] == 1]
	if set2 or any(v[1] == 2 for v in rows.values()):
		return 'the second genome set is still there', order
	if set(present) != set(table) or any(v != 'real' for v in present.values()):
		return 'the genome rows of the finished file are not the rows of the case', order
	if sorted(order) != sorted(g[0] for g in genomes if g[6]):
		return 'the annotated genomes of the finished file are not the in-set genomes of the case', order
	if any(taxon_of.get(pk) is None for pk in order):
		return 'an annotation row was left without taxon', order
	return None, order


def layout_scrambled(case):
	"""does the physical order of the set's annotation rows differ from the order of the genome rows (primary key)?"""
	if not case.get('dblayout'):
		return False
	order = layout_walk(case['genomes'], case['dblayout'])[1]
	return order != sorted(order)


def _build_layout_sql(path, genomes, ops):
	table = {g[0]: g for g in genomes}
	con = sqlite3.connect(path)
	try:
		con.execute('PRAGMA synchronous=OFF')      # scratch files: no need to wait for the disk at every commit op
		for op in ops:
			name, args = op[0], op[1:]
			if name == 'g':
				pk, key, gb, rs, nid, ndb, _ = table[args[0]]
				con.execute(INSERT_GENOME, (pk, key, f'genome {pk}', ndb, nid, gb, rs))
			elif name == 'tg':
				con.execute(INSERT_GENOME, (args[0], tmp_key(args[0]), 'temporary', None, None, None, None))
			elif name == 'dg':
				con.execute('DELETE FROM genome_annotations WHERE genome_id=?', (args[0],))
				con.execute('DELETE FROM genomes WHERE id=?', (args[0],))
			elif name == 'a':
				con.execute('INSERT INTO genome_annotations (rowid, genome_id, genome_set_id, taxon_id, organism) VALUES (?,?,1,?,?)',
				            (args[1], args[0], args[2], f'organism {args[0]}'))
			elif name == 'a2':
				con.execute('INSERT INTO genome_annotations (rowid, genome_id, genome_set_id, taxon_id, organism) VALUES (?,?,2,NULL,?)',
				            (args[1], args[0], f'other organism {args[0]}'))
			elif name in ('da', 'da2'):
				con.execute('DELETE FROM genome_annotations WHERE genome_id=? AND genome_set_id=?', (args[0], 1 if name == 'da' else 2))
			elif name == 't':
				con.execute('UPDATE genome_annotations SET taxon_id=? WHERE genome_id=? AND genome_set_id=1', (args[1], args[0]))
			elif name == 'taxon':
				con.execute('INSERT INTO taxa (id, key, name, rank, genome_set_id, distance_threshold, report) VALUES (?,?,?,?,1,0.9,1)',
				            (args[0], f't{args[0]}', f'Taxon {args[0]}', 'species'))
			elif name == 'gs2':
				con.execute("INSERT INTO genome_sets (id, key, version, name) VALUES (2, 'verif/c04-other', '1.0', 'other')")
			elif name == 'dgs2':
				con.execute('DELETE FROM genome_annotations WHERE genome_set_id=2')
				con.execute('DELETE FROM genome_sets WHERE id=2')
			elif name == 'commit':
				con.commit()
			elif name in ('vacuum', 'analyze'):
				con.commit()
				con.execute(name.upper())
		con.commit()
	finally:
		con.close()


def _build_layout_orm(path, genomes, ops):
	from sqlalchemy import create_engine
	from sqlalchemy.orm import Session
	from gambit.db.models import ReferenceGenomeSet, Taxon, Genome, AnnotatedGenome
	table = {g[0]: g for g in genomes}
	eng = create_engine('sqlite:///' + path)
	try:
		with Session(eng) as s:
			for op in ops:
				name, args = op[0], op[1:]
				if name == 'g':
					pk, key, gb, rs, nid, ndb, _ = table[args[0]]
					s.add(Genome(id=pk, key=key, description=f'genome {pk}', ncbi_db=ndb, ncbi_id=nid, genbank_acc=gb, refseq_acc=rs))
				elif name == 'tg':
					s.add(Genome(id=args[0], key=tmp_key(args[0]), description='temporary'))
				elif name == 'dg':
					for ag in s.query(AnnotatedGenome).filter_by(genome_id=args[0]).all():
						s.delete(ag)
					s.flush()
					s.delete(s.get(Genome, args[0]))
				elif name == 'a':
					s.add(AnnotatedGenome(genome_id=args[0], genome_set_id=1, taxon_id=args[2], organism=f'organism {args[0]}'))
				elif name == 'a2':
					s.add(AnnotatedGenome(genome_id=args[0], genome_set_id=2, taxon_id=None, organism=f'other organism {args[0]}'))
				elif name in ('da', 'da2'):
					s.delete(s.get(AnnotatedGenome, (args[0], 1 if name == 'da' else 2)))
				elif name == 't':
					s.get(AnnotatedGenome, (args[0], 1)).taxon_id = args[1]
				elif name == 'taxon':
					s.add(Taxon(id=args[0], key=f't{args[0]}', name=f'Taxon {args[0]}', rank='species', genome_set_id=1, distance_threshold=0.9,
					            report=True))
				elif name == 'gs2':
					s.add(ReferenceGenomeSet(id=2, key='verif/c04-other', version='1.0', name='other'))
				elif name == 'dgs2':
					for ag in s.query(AnnotatedGenome).filter_by(genome_set_id=2).all():
						s.delete(ag)
					s.flush()
					s.delete(s.get(ReferenceGenomeSet, 2))
				elif name == 'commit':
					s.commit()
				elif name in ('vacuum', 'analyze'):
					s.commit()
					con = sqlite3.connect(path)
					try:
						con.execute(name.upper())
					finally:
						con.close()
				s.flush()
			s.commit()
	finally:
		eng.dispose()


STR_STORE = ('O', 'U', 'S')
INT_STORE = ('i1', 'i2', 'i4', 'i8', 'u1', 'u2', 'u4', 'u8', '>i2', '>i4', '>i8', '>u2', '>u8')     # '>': big-endian (non-native here)
SIG_DTYPES = ('u2', 'u4', 'u8', 'i4', 'i8')


def ids_array(ids, ids_as=None):
	"""the identifier array handed to dump_signatures / AnnotatedSignatures; ids_as: None (int64 / object, as the
	first harness wrote them), 'O' object, 'U' NumPy unicode, 'S' UTF-8 bytes (stored as HDF5 strings, read back as
	str), 'i1'..'u8' integer widths"""
	if not ids:
		return np.array([], dtype=np.int64 if ids_as is None or ids_as in INT_STORE else object)
	if all(isinstance(i, int) for i in ids):
		return np.array(ids, dtype=np.dtype(ids_as) if ids_as in INT_STORE else np.int64)
	strs = [str(i) for i in ids]
	if ids_as == 'U':
		return np.array(strs)
	if ids_as == 'S':
		return np.array([x.encode('utf-8') for x in strs])
	arr = np.empty(len(strs), dtype=object)
	arr[:] = strs
	return arr


def write_sig_file(path, sigs, attr, ids_as=None, sig_dtype=None):
	"""sigs: [identifier, pool index] in file order; attr: metadata id_attr (None = absent); sig_dtype: integer type
	the k-mer indices are stored in (default uint16)"""
	from gambit.sigs import SignatureList, AnnotatedSignatures, SignaturesMeta, dump_signatures
	from gambit.kmers import KmerSpec
	sl = SignatureList([_S['pool'][p] for _, p in sigs], KmerSpec(K, PREFIX), dtype=np.dtype(sig_dtype or 'u2'))
	arr = ids_array([i for i, _ in sigs], ids_as)
	dump_signatures(path, AnnotatedSignatures(sl, arr, SignaturesMeta(id_attr=attr, name='c04')), 'hdf5')


def mem_signatures(sigs, attr, sigs_form, ids_form, sig_dtype=None):
	"""the same collection as an in-memory AnnotatedSignatures (never written to a file)"""
	from gambit.sigs import SignatureList, SignatureArray, AnnotatedSignatures, SignaturesMeta
	from gambit.kmers import KmerSpec
	sl = SignatureList([_S['pool'][p] for _, p in sigs], KmerSpec(K, PREFIX), dtype=np.dtype(sig_dtype or 'u2'))
	coll = SignatureArray(sl) if sigs_form == 'array' else sl
	ids = [i for i, _ in sigs]
	if ids_form == 'list':
		idc = list(ids)
	elif ids_form == 'tuple':
		idc = tuple(ids)
	elif ids_form == 'npscalars':
		idc = list(ids_array(ids, None))
	elif ids_form == 'strided':      # a non-contiguous view: every second element of a twice as long array
		wide = ids_array([x for i in ids for x in (i, i)], None)
		idc = wide[::2]
	else:
		idc = ids_array(ids, ids_form)
	return AnnotatedSignatures(coll, idc, SignaturesMeta(id_attr=attr, name='c04'))


def _newdir():
	_S['n'] += 1
	d = os.path.join(_S['root'], f'case{_S["n"]}')
	os.makedirs(d)
	return d


# ------------------------------------------------------------------------------------------------
# the harness's own reading of a case (oracle) and its wire form
# ------------------------------------------------------------------------------------------------

def validate(case):
	g = case['genomes']
	if len({x[0] for x in g}) != len(g) or len({x[1] for x in g}) != len(g):
		return False
	for col in (2, 3):
		vals = [x[col] for x in g if x[col] is not None]
		if len(set(vals)) != len(vals):
			return False
	pairs = [(x[5], x[4]) for x in g if x[4] is not None and x[5] is not None]
	if len(set(pairs)) != len(pairs):
		return False
	ids = [s[0] for s in case['sigs']]
	if not (all(isinstance(i, int) and not isinstance(i, bool) for i in ids) or all(isinstance(i, str) and '\0' not in i for i in ids)):
		return False
	if any(not (0 <= s[1] < NPOOL_ALL) for s in case['sigs']):
		return False
	cs = case.get('chunksize')
	if not (cs is None or cs > 0):
		return False
	return _validate_forms(case, g, ids)


I64 = (-2 ** 63, 2 ** 63 - 1)
VIAS = ('dir', 'ctor', 'load', 'mem')
DIRARGS = ('str', 'path', 'slash', 'rel', 'symlink')
QFORMS = ('params', 'kw', 'default', 'inputs')
MEM_SIGS = ('list', 'array')
MEM_IDS = ('list', 'tuple', 'npscalars', 'strided') + STR_STORE + INT_STORE


def _fits(v, code):
	info = np.iinfo(np.dtype(code))
	return info.min <= v <= info.max


def _validate_forms(case, g, ids):
	"""the optional fields added by the coverage audit (absent = the behaviour of the first harness)"""
	for x in g:
		if not isinstance(x[1], str) or '\0' in x[1]:
			return False
		for col in (2, 3):
			if x[col] is not None and (not isinstance(x[col], str) or '\0' in x[col]):
				return False
		if x[4] is not None and (not isinstance(x[4], int) or isinstance(x[4], bool) or not I64[0] <= x[4] <= I64[1]):
			return False
	ints = bool(ids) and isinstance(ids[0], int)
	if ints and any(not I64[0] <= i <= I64[1] for i in ids):
		return False

	def store_ok(code):
		if code is None or not ids:
			return True
		if ints:
			return code in INT_STORE and all(_fits(i, code) for i in ids)
		return code in STR_STORE

	if not store_ok(case.get('ids_as')) or case.get('sig_dtype') not in (None,) + SIG_DTYPES:
		return False
	if case.get('via', 'dir') not in VIAS or case.get('dirarg', 'str') not in DIRARGS or case.get('qform', 'params') not in QFORMS:
		return False
	if case.get('via') == 'mem':
		m = case.get('mem') or ['list', 'list']
		if len(m) != 2 or m[0] not in MEM_SIGS or m[1] not in MEM_IDS:
			return False
		if m[1] in STR_STORE + INT_STORE and not store_ok(m[1]):
			return False
	names = case.get('names')
	if names is not None:
		if len(names) != 2 or names[0] == names[1] or not all(valid_name(n) for n in names):
			return False
		if case.get('via', 'dir') in ('dir', 'ctor') and not (has_ext(names[0], GEXT) and has_ext(names[1], SEXT)):
			return False
	if any(not (isinstance(q, int) and 0 <= q < NQUERY) for q in case.get('queries', [])):
		return False
	if case.get('dblayout') is not None and layout_walk(g, case['dblayout'])[0] is not None:
		return False
	return True


def value_of(grow, attr):
	return grow[1 + ATTRS.index(attr)]


def same_id(a, b):
	return type(a) is type(b) and a == b


def oracle(case):
	"""-> dict(must_fail=reason|None, must_load=bool, own={pk: [positions]}, inset=[rows])"""
	attr = case['attr']
	inset = [g for g in case['genomes'] if g[6]]
	if attr is None:
		return dict(must_fail='the metadata names no identifier attribute (id_attr is None)', must_load=False, own={}, inset=inset)
	if attr not in ATTRS:
		return dict(must_fail=f'the metadata names no identifier attribute ({attr!r} is not one)', must_load=False, own={}, inset=inset)
	own = {}
	reason = None
	for g in inset:
		v = value_of(g, attr)
		if v is None:
			reason = reason or f'genome {g[1]!r} has no value for {attr}'
			own[g[0]] = []
			continue
		own[g[0]] = [j for j, s in enumerate(case['sigs']) if same_id(s[0], v)]
		if not own[g[0]]:
			reason = reason or f'genome {g[1]!r} ({attr}={v!r}) has no signature in the file'
	vals = [value_of(g, attr) for g in inset]
	distinct = len({(type(v), v) for v in vals}) == len(vals)
	must_load = reason is None and distinct and all(len(p) == 1 for p in own.values())
	return dict(must_fail=reason, must_load=must_load, own=own, inset=inset)


def w_id(v):
	if v is None:
		return []
	if isinstance(v, int):
		return [[0, v]]
	return [[1] + [ord(c) for c in v]]


def w_genomes(case):
	return [[g[0], w_id(g[1]), w_id(g[2]), w_id(g[3]), w_id(g[4])] for g in sorted(case['genomes']) if g[6]]


def w_meta(attr):
	if attr is None:
		return []
	return [ATTR_CODE.get(attr, 9)]


def w_ids(case):
	return [w_id(s[0])[0] for s in case['sigs']]


def model_obs(ans):
	if ans[0] == 0:
		pks, idxs = ans[1]
		return ('ok', sorted(zip(idxs, pks)))
	if ans[0] == 1:
		return ('err', ERRNAME.get(ans[1], str(ans[1])))
	return ('bad', ans)


# ------------------------------------------------------------------------------------------------
# implementation side
# ------------------------------------------------------------------------------------------------

def _close(db):
	try:
		db.session.close()
		db.session.get_bind().dispose()
	except Exception:
		pass
	try:
		db.signatures.close()
	except Exception:
		pass
	cleanup = getattr(db, '_verif_cleanup', None)
	if cleanup:
		db._verif_cleanup = None
		cleanup()


def file_names(case):
	n = case.get('names')
	return (n[0], n[1]) if n else ('genomes.gdb', 'signatures.gs')


def write_case_files(case, d):
	"""the case's genome database and (unless the signatures stay in memory) signature file, in directory d"""
	gname, sname = file_names(case)
	write_genome_db(os.path.join(d, gname), case['genomes'], case.get('dblayout'))
	if case.get('via') != 'mem':
		write_sig_file(os.path.join(d, sname), case['sigs'], case['attr'], case.get('ids_as'), case.get('sig_dtype'))


def _dir_argument(case, d):
	"""the directory as the caller names it -> (argument, cleanup)"""
	import pathlib
	form = case.get('dirarg', 'str')
	if form == 'path':
		return pathlib.Path(d), None
	if form == 'slash':
		return d + os.sep, None
	if form == 'rel':
		old = os.getcwd()
		os.chdir(os.path.dirname(d))
		return os.path.basename(d), lambda: os.chdir(old)
	if form == 'symlink':
		link = d + '.lnk'
		os.symlink(d, link)
		return link, lambda: os.remove(link)
	return d, None


def open_db(case, d, shared_sigs=None):
	"""-> ('err', class) | ('ok', db).  via: dir = load_from_dir(directory argument in the case's form); ctor =
	locate_files + load_genomeset + load_signatures + constructor; load = ReferenceDatabase.load(genome file,
	signature file) (any file names; reached through the gambit.db.refdb module); mem = constructor on an in-memory
	AnnotatedSignatures.  shared_sigs: an already opened signature collection to hand to the constructor."""
	from gambit.db import ReferenceDatabase
	from gambit.db.refdb import load_genomeset
	from gambit.sigs import load_signatures
	import pathlib
	sigs = None
	cleanup = None
	via = case.get('via', 'dir')
	kwcall = bool(case.get('kwcall'))      # every argument by keyword
	gname, sname = file_names(case)
	try:
		if shared_sigs is not None:
			session, gset = load_genomeset(os.path.join(d, gname))
			return ('ok', ReferenceDatabase(gset, shared_sigs))
		if via == 'ctor':
			gf, sf = ReferenceDatabase.locate_files(path=d) if kwcall else ReferenceDatabase.locate_files(d)
			session, gset = load_genomeset(db_file=gf) if kwcall else load_genomeset(gf)
			sigs = load_signatures(sf)
			return ('ok', ReferenceDatabase(signatures=sigs, genomeset=gset) if kwcall else ReferenceDatabase(gset, sigs))
		if via == 'mem':
			m = case.get('mem') or ['list', 'list']
			session, gset = load_genomeset(pathlib.Path(d) / gname)
			ms = mem_signatures(case['sigs'], case['attr'], m[0], m[1], case.get('sig_dtype'))
			return ('ok', ReferenceDatabase(signatures=ms, genomeset=gset) if kwcall else ReferenceDatabase(gset, ms))
		if via == 'load':
			import gambit.db.refdb as refdb
			gf, sf = os.path.join(d, gname), os.path.join(d, sname)
			if case.get('dirarg', 'str') == 'path':
				gf, sf = pathlib.Path(gf), pathlib.Path(sf)
			if kwcall:
				return ('ok', refdb.ReferenceDatabase.load(signatures_file=sf, genomes_file=gf))
			return ('ok', refdb.ReferenceDatabase.load(gf, sf))
		arg, cleanup = _dir_argument(case, d)
		db = ReferenceDatabase.load_from_dir(path=arg) if kwcall else ReferenceDatabase.load_from_dir(arg)
		db._verif_cleanup, cleanup = cleanup, None     # a relative path stays meaningful until the database is closed
		return ('ok', db)
	except Exception as e:     # noqa: the property only says "fails with an error"
		if sigs is not None:
			try:
				sigs.close()
			except Exception:
				pass
		return ('err', type(e).__name__)
	finally:
		if cleanup:
			cleanup()


def run_query(case, db, qs):
	"""gambit.query.query in the case's call form"""
	from gambit.query import query, QueryParams
	form = case.get('qform', 'params')
	cs, rep = case.get('chunksize'), case.get('report', 3)
	if form == 'kw':      # keyword arguments instead of QueryParams, NumPy integers instead of Python ints
		return query(db, qs, chunksize=None if cs is None else np.int64(cs), report_closest=np.int32(rep))
	if form == 'default':
		return query(db, qs)
	if form == 'inputs':
		return query(db, tuple(qs), QueryParams(chunksize=cs, report_closest=rep), inputs=[f'in{i}' for i in range(len(qs))])
	return query(db, qs, QueryParams(chunksize=cs, report_closest=rep))


def observe(case, db):
	"""-> (pairs [(sig_index, pk)...] in list order, matrix rows | text | None, query observations | text | None, stored ids)"""
	from gambit.metric import jaccarddist_matrix
	pairs = [(int(k), int(g.genome_id)) for g, k in zip(db.genomes, db.sig_indices)]
	if len(db.genomes) != len(db.sig_indices):
		return (pairs, f'genomes and sig_indices differ in length ({len(db.genomes)} vs {len(db.sig_indices)})', None, None)
	stored = [x.item() if hasattr(x, 'item') else x for x in db.signatures.ids]
	qs = [_S['queries'][i] for i in case['queries']]
	mat = None
	qobs = None
	qs_was = obj_print(qs) if pairs and qs else None
	if pairs and qs:
		try:
			m = jaccarddist_matrix(qs, db.signatures, ref_indices=db.sig_indices, chunksize=case.get('chunksize'))
			mat = [[_f32(x) for x in row] for row in m]
		except Exception as e:     # noqa
			mat = f'jaccarddist_matrix raised {type(e).__name__}: {e}'
		try:
			res = run_query(case, db, qs)
			qobs = []
			for item in res.items:
				cm = item.classifier_result.closest_match
				qobs.append(dict(closest=[(int(mm.genome.genome_id), _f32(mm.distance)) for mm in item.closest_genomes],
				                 match=(int(cm.genome.genome_id), _f32(cm.distance))))
		except Exception as e:     # noqa
			qobs = f'query raised {type(e).__name__}: {e}'
		# state and aliasing audit: the caller's query signatures and the database's own lists are what they were
		if obj_print(qs) != qs_was:
			for i in case['queries']:
				_S['queries'][i] = _S['queries_pristine'][i].copy()
			if not isinstance(mat, str):
				mat = "the caller's query signatures were modified by jaccarddist_matrix / query"
		pairs_after = [(int(k), int(g.genome_id)) for g, k in zip(db.genomes, db.sig_indices)]
		if pairs_after != pairs and not isinstance(mat, str):
			mat = f'the genomes / sig_indices of the database changed while it was queried: {pairs} -> {pairs_after}'
	return (pairs, mat, qobs, stored)


def impl_load(case, d):
	"""-> ('err', class) | ('ok', [(sig_index, pk)...] in list order, matrix rows, query observations, stored ids)"""
	o = open_db(case, d)
	if o[0] == 'err':
		return o
	try:
		return ('ok',) + observe(case, o[1])
	finally:
		_close(o[1])


def judge_loaded(case, orc, pairs, mat, qobs):
	"""property predicate on a produced database; None if it holds"""
	inset = orc['inset']
	attr = case['attr']
	by_pk = {g[0]: g for g in inset}
	got = sorted(pk for _, pk in pairs)
	want = sorted(by_pk)
	if got != want:
		missing = [by_pk[p][1] for p in want if p not in got]
		twice = sorted({by_pk[p][1] for p in got if got.count(p) > 1 and p in by_pk})
		foreign = [p for p in got if p not in by_pk]
		return ('the loaded genomes are not the genome set: ' +
		        '; '.join(x for x in [f'without signature: {missing}' if missing else '', f'listed twice: {twice}' if twice else '',
		                              f'not in the set: {foreign}' if foreign else ''] if x))
	for k, pk in pairs:
		v = value_of(by_pk[pk], attr)
		if not (0 <= k < len(case['sigs'])) or not same_id(case['sigs'][k][0], v):
			sid = case['sigs'][k][0] if 0 <= k < len(case['sigs']) else None
			return f'genome {by_pk[pk][1]!r} ({attr}={v!r}) is paired with signature {k} stored under {sid!r}'
	if isinstance(mat, str):
		return mat
	if isinstance(qobs, str):
		return qobs
	ownpool = {pk: case['sigs'][orc['own'][pk][0]][1] for pk in by_pk}
	if mat is not None:
		for r, qi in enumerate(case['queries']):
			if len(mat[r]) != len(pairs):
				return f'matrix row {r} has {len(mat[r])} columns for {len(pairs)} genomes'
			for j, (k, pk) in enumerate(pairs):
				want_d = _S['table'][qi][ownpool[pk]]
				if mat[r][j] != want_d:
					return (f'query {qi}, genome {by_pk[pk][1]!r}: distance {mat[r][j]!r} reported, directly computed distance to its '
					        f'own signature is {want_d!r}')
	if qobs is not None:
		for r, qi in enumerate(case['queries']):
			best = min(_S['table'][qi][ownpool[pk]] for pk in by_pk)
			for pk, dd in qobs[r]['closest'] + [qobs[r]['match']]:
				if pk not in by_pk:
					return f'query {qi}: result names genome {pk} which is not in the set'
				if dd != _S['table'][qi][ownpool[pk]]:
					return (f'query {qi}: result reports distance {dd!r} for genome {by_pk[pk][1]!r}, directly computed '
					        f'distance to its own signature is {_S["table"][qi][ownpool[pk]]!r}')
			if qobs[r]['match'][1] != best or (qobs[r]['closest'] and qobs[r]['closest'][0][1] != best):
				return f'query {qi}: closest match at {qobs[r]["match"][1]!r}, the closest own signature is at {best!r}'
	return None


def nontrivial_load(case, orc):
	inset = orc['inset']
	if len(inset) < 2:
		return False
	if not orc['must_load']:
		return True
	order = [orc['own'][g[0]][0] for g in sorted(inset)]
	return order != list(range(len(inset))) or len(case['sigs']) > len(inset) or layout_scrambled(case)


def k_load(ctx, cases):
	cases = [c for c in cases if validate(c) or ctx.count('invalid-case-skipped')]
	reqs = []
	for c in cases:
		args = [w_genomes(c), w_meta(c['attr']), w_ids(c)]
		reqs += [(402, args), (401, args)]
		a = c['attr'] if c['attr'] in ATTRS else 'key'
		reqs.append((407, [ATTR_CODE[a], w_genomes(c), w_ids(c)]))
	ans = ctx.model(reqs)
	mreqs = []
	for n, c in enumerate(cases):
		m = model_obs(ans[3 * n])
		if m[0] == 'ok':
			mreqs.append((408, [[s[1] for s in c['sigs']], [k for k, _ in m[1]], [] if c.get('chunksize') is None else [c['chunksize']],
			                    list(c['queries'])]))
	mans = iter(ctx.model(mreqs))
	for n, c in enumerate(cases):
		orc = oracle(c)
		m_fixed, m_orig, spec = model_obs(ans[3 * n]), model_obs(ans[3 * n + 1]), ans[3 * n + 2]
		d = _newdir()
		try:
			write_case_files(c, d)
			o = impl_load(c, d)
		finally:
			shutil.rmtree(d, ignore_errors=True)
		ctx.case(c, nontrivial=nontrivial_load(c, orc))
		ctx.count('load:' + ('loads' if m_fixed[0] == 'ok' else 'fails: ' + m_fixed[1]))
		if o[0] == 'err':
			ctx.count('load:impl-error:' + o[1])
		# specification / oracle / model agree with each other (the harness's reading of the case is the theorem's)
		if c['attr'] in ATTRS and (spec == 1) != orc['must_load']:
			ctx.broke('harness oracle vs extracted specification completeb', f'{c}: oracle must_load={orc["must_load"]}, completeb={spec}')
		if (m_fixed[0] == 'ok') != orc['must_load']:
			ctx.broke('model init_fixed vs harness oracle', f'{c}: model {m_fixed}, oracle {orc["must_load"]}')
		mcols = next(mans) if m_fixed[0] == 'ok' else None
		# ---- the property on this input
		what = None
		if o[0] == 'ok':
			if orc['must_fail']:
				what = f'a database was produced although {orc["must_fail"]}'
			else:
				what = judge_loaded(c, orc, o[1], o[2], o[3])
		elif orc['must_load']:
			what = (f'loading failed with {o[1]} although every genome of the set has exactly one signature stored under its '
			        f'{c["attr"]} (file order / unrelated signatures must not matter)')
		if what:
			ctx.violation('load', c, what, impl=_show(o), spec=dict(must_fail=orc['must_fail'], must_load=orc['must_load'],
			              own_signature_positions=orc['own']), model=m_fixed, model_unrepaired=m_orig)
			continue
		# ---- the tie: implementation = model on the observable
		if o[0] == 'ok':
			if m_fixed[0] != 'ok' or sorted(o[1]) != m_fixed[1]:
				ctx.broke('load: implementation vs model (genome, signature index) pairs', f'{c}: impl {sorted(o[1])}, model {m_fixed}')
			elif mcols is not None and o[2] is not None:
				# model cell (query, pool index) -> direct distance
				if mcols[0] != 0:
					ctx.broke('load: model matrix', f'{c}: {mcols}')
				else:
					exp_sorted = [[_S['table'][q][p] for q, p in row] for row in mcols[1]]
					order = sorted(range(len(o[1])), key=lambda j: o[1][j][0])
					got_sorted = [[row[j] for j in order] for row in o[2]]
					if exp_sorted != got_sorted:
						ctx.broke('load: implementation vs model distance matrix', f'{c}: impl {got_sorted}, model {exp_sorted}')
		elif m_fixed[0] == 'ok':
			ctx.broke('load: implementation fails where the model loads', f'{c}: impl {o}, model {m_fixed}')


def _show(o):
	if o[0] == 'err':
		return dict(outcome='error', exception=o[1])
	return dict(outcome='database', pairs_sigindex_genomepk=o[1], matrix=o[2], query=o[3] if len(o) > 3 else None)


# ------------------------------------------------------------------------------------------------
# directories
# ------------------------------------------------------------------------------------------------

CONTENT_CODE = {'gdb': 0, 'sig': 1, 'dir': 2, 'junk': 3,
                # added by the coverage audit: what the entry IS for the loader (symbolic links are followed)
                'empty': 3, 'link-gdb': 0, 'link-sig': 1, 'link-dir': 2, 'link-broken': 3}
EFFECTIVE = {'empty': 'junk', 'link-gdb': 'gdb', 'link-sig': 'sig', 'link-dir': 'dir', 'link-broken': 'junk'}
GEXT, SEXT = ('.gdb', '.db'), ('.gs', '.h5')
EMPTY_SHA1 = 'da39a3ee5e6b4b0d3255bfef95601890afd80709'      # dir_print of a zero-length file


def valid_name(n):
	return (isinstance(n, str) and n not in ('', '.', '..') and '/' not in n and '\0' not in n
	        and len(n.encode('utf-8', 'surrogatepass')) <= 200)


def has_ext(n, exts):
	"""independent reading of "is a genome / signature file name": non-empty stem + extension"""
	return any(n.endswith(e) and len(n) > len(e) for e in exts)


def make_entry(d, name, kind):
	p = os.path.join(d, name)
	if kind == 'dir':
		os.makedirs(p)
	elif kind == 'gdb':
		shutil.copyfile(os.path.join(_S['dirsrc'], 'genomes'), p)
	elif kind == 'sig':
		shutil.copyfile(os.path.join(_S['dirsrc'], 'sigs'), p)
	elif kind == 'empty':
		open(p, 'w').close()
	elif kind == 'link-gdb':
		os.symlink(os.path.join(_S['dirsrc'], 'genomes'), p)
	elif kind == 'link-sig':
		os.symlink(os.path.join(_S['dirsrc'], 'sigs'), p)
	elif kind == 'link-dir':
		os.symlink(_S['dirsrc'], p)
	elif kind == 'link-broken':
		os.symlink(os.path.join(_S['dirsrc'], 'no-such-file'), p)
	else:
		with open(p, 'w') as f:
			f.write('not a database\n')


def k_dir_special(ctx, c):
	"""special = 'missing' (the path does not exist) | 'is-file' (it is a genome database file, not a directory):
	there is no directory content at all, so neither locate_files nor load_from_dir may return.  No model."""
	from gambit.db import ReferenceDatabase
	d = _newdir()
	try:
		if c['special'] == 'missing':
			target = os.path.join(d, 'nothing-here')
		else:
			target = os.path.join(d, 'refs.gdb')
			make_entry(d, 'refs.gdb', 'gdb')
		try:
			ReferenceDatabase.locate_files(target)
			o_loc = 'returned'
		except Exception as e:     # noqa
			o_loc = type(e).__name__
		o_load = impl_load(dict(_S['dir_case'], queries=[0], chunksize=2, dirarg='path' if c.get('arg') == 'path' else 'str'), target)
	finally:
		shutil.rmtree(d, ignore_errors=True)
	ctx.case(c, nontrivial=True)
	ctx.count('dir:special=' + c['special'])
	if o_loc == 'returned' or o_load[0] == 'ok':
		ctx.violation('dir', c, f'locate_files / load_from_dir returned for a path that is {c["special"]}',
		              impl=dict(locate=o_loc, load=_show(o_load)), spec='must fail')


def k_dir(ctx, cases):
	from gambit.db import ReferenceDatabase
	ok_cases = []
	for c in cases:
		if c.get('special') in ('missing', 'is-file') and not c.get('entries') and c.get('arg', 'str') in DIRARGS:
			k_dir_special(ctx, c)
			continue
		names = [e[0] for e in c['entries']]
		if (all(valid_name(n) for n in names) and len(set(names)) == len(names) and all(e[1] in CONTENT_CODE for e in c['entries'])
		        and c.get('arg', 'str') in DIRARGS and not c.get('special')):
			ok_cases.append(c)
		else:
			ctx.count('invalid-case-skipped')
	cases = ok_cases
	dc = _S['dir_case']
	reqs = []
	for c in cases:
		wdir = [[[ord(ch) for ch in n], CONTENT_CODE[k]] for n, k in c['entries']]
		reqs.append((405, [e[0] for e in wdir]))
		reqs.append((403, [wdir, w_genomes(dc), w_meta(dc['attr']), w_ids(dc)]))
	ans = ctx.model(reqs)
	want_pairs = sorted((oracle(dc)['own'][g[0]][0], g[0]) for g in dc['genomes'])
	for n, c in enumerate(cases):
		m_loc, m_load = ans[2 * n], model_obs(ans[2 * n + 1])
		d = _newdir()
		try:
			for name, kind in c['entries']:
				make_entry(d, name, kind)
			dir_was = dir_print(d)
			arg, cleanup = _dir_argument(dict(dirarg=c.get('arg', 'str')), d)
			try:
				gf, sf = ReferenceDatabase.locate_files(arg)
				o_loc = ('ok', os.path.basename(str(gf)), os.path.basename(str(sf)))
				if any(os.path.realpath(os.path.dirname(os.path.abspath(str(x)))) != os.path.realpath(d) for x in (gf, sf)):
					o_loc = ('ok', str(gf), str(sf))     # not an entry of this directory: shows up as a wrong name below
			except Exception as e:     # noqa
				o_loc = ('err', type(e).__name__)
			finally:
				if cleanup:
					cleanup()
			o_load = impl_load(dict(dc, queries=[0], chunksize=2, dirarg=c.get('arg', 'str')), d)
			dir_now = dir_print(d)
		finally:
			shutil.rmtree(d, ignore_errors=True)
			if os.path.exists(os.path.join(_S['dirsrc'], 'no-such-file')):      # see KNOWN DEFECT below: every case starts with the link broken
				os.remove(os.path.join(_S['dirsrc'], 'no-such-file'))
		names = [e[0] for e in c['entries']]
		kinds = dict((e[0], EFFECTIVE.get(e[1], e[1])) for e in c['entries'])
		gm = [x for x in names if has_ext(x, GEXT)]
		sm = [x for x in names if has_ext(x, SEXT)]
		near = any(('gdb' in x.lower() or 'db' in x.lower() or 'gs' in x.lower() or 'h5' in x.lower()) and not has_ext(x, GEXT + SEXT)
		           for x in names)
		ctx.case(c, nontrivial=len(names) >= 2 or near)
		ctx.count(f'dir:genome-files={min(len(gm), 2)}{"+" if len(gm) > 2 else ""},signature-files={min(len(sm), 2)}{"+" if len(sm) > 2 else ""}')
		exact = len(gm) == 1 and len(sm) == 1
		what = None
		# former defect (repaired in /repo, see the module docstring): a genome file whose name contains '?' was opened
		# through the URL 'sqlite:///<path>', which cut the path at the '?'.  Judged like every other directory; counted.
		if exact and '?' in gm[0]:
			ctx.count(f'dir:question mark in genome file name: genome file is {kinds[gm[0]]}, load {"returns" if o_load[0] == "ok" else "fails"}')
		if o_loc[0] == 'ok' and not exact:
			what = (f'locate_files returned {o_loc[1:]} although the directory holds {len(gm)} genome file(s) {gm} and '
			        f'{len(sm)} signature file(s) {sm}')
		elif o_loc[0] == 'ok' and (o_loc[1], o_loc[2]) != (gm[0], sm[0]):
			what = f'locate_files returned {o_loc[1:]}, the genome file is {gm[0]!r} and the signature file {sm[0]!r}'
		elif o_loc[0] == 'err' and exact:
			what = f'locate_files failed with {o_loc[1]} although {gm[0]!r} is the only genome file and {sm[0]!r} the only signature file'
		elif o_load[0] == 'ok' and not exact:
			what = f'load_from_dir produced a database from a directory with {len(gm)} genome file(s) and {len(sm)} signature file(s)'
		elif o_load[0] == 'ok' and (kinds[gm[0]] != 'gdb' or kinds[sm[0]] != 'sig'):
			what = f'load_from_dir produced a database although {gm[0]!r} is {kinds[gm[0]]} and {sm[0]!r} is {kinds[sm[0]]}'
		elif o_load[0] == 'ok':
			what = judge_loaded(dict(dc, queries=[0]), oracle(dc), o_load[1], o_load[2], o_load[3])
		elif exact and kinds[gm[0]] == 'gdb' and kinds[sm[0]] == 'sig':
			what = f'load_from_dir failed with {o_load[1]} on a directory with exactly one genome file and one signature file'
		if not what and dir_now != dir_was:      # state and aliasing audit: the next load must see the same directory
			born = [x[0] for x, y in zip(dir_was, dir_now) if x != y and x[0] == y[0] and x[1] == 'not a file' and y[1] == EMPTY_SHA1]
			if (len(dir_was) == len(dir_now) and born and all(x == y or x[0] in born for x, y in zip(dir_was, dir_now))
			        and all(dict(c['entries']).get(n) == 'link-broken' for n in born) and any(has_ext(n, GEXT) for n in born)):
				# KNOWN DEFECT (module docstring, repo_fixes/C04-load-creates-missing-genome-file.diff): the genome file is opened
				# read-write-create, so a genome-file name that is a broken link gets its TARGET created as an empty file
				ctx.count('dir:KNOWN-DEFECT a failing load created the missing genome file (target of a broken link); not judged')
			else:
				what = f'locate_files / load_from_dir changed the directory they read: {dir_was} -> {dir_now}'
		if what:
			ctx.violation('dir', c, what, impl=dict(locate=o_loc, load=_show(o_load)),
			              spec=dict(genome_files=gm, signature_files=sm), model=dict(locate=m_loc, load=m_load))
			continue
		# tie
		if m_loc[0] == 0:
			ml = ('ok', ''.join(map(chr, m_loc[1][0])), ''.join(map(chr, m_loc[1][1])))
		else:
			ml = ('err',)
		if ml[0] != o_loc[0] or (ml[0] == 'ok' and ml != o_loc):
			ctx.broke('dir: locate_files implementation vs model', f'{c}: impl {o_loc}, model {m_loc}')
		if (m_load[0] == 'ok') != (o_load[0] == 'ok') or (m_load[0] == 'ok' and (m_load[1] != sorted(o_load[1]) or m_load[1] != want_pairs)):
			ctx.broke('dir: load_from_dir implementation vs model', f'{c}: impl {_show(o_load)}, model {m_load}')


# ------------------------------------------------------------------------------------------------
# command line
# ------------------------------------------------------------------------------------------------

CLI_FMTS = ('json', 'csv', 'archive')
CLI_QIN = ('sigfile', 'fasta', 'listfile')


def cli_entries(fmt, path):
	"""what the output file reports -> per query: [(how the genome is named, name, distance), ...]; the first entry is
	the closest genome.  json / archive: every closest_genomes entry (archive also closest_match and primary_match of
	the classifier result), genomes named by key; csv: closest.distance / closest.description."""
	import csv
	if fmt == 'csv':
		with open(path, newline='') as f:
			rows = list(csv.DictReader(f))
		return [[('description', r['closest.description'], _f32(float(r['closest.distance'])))] for r in rows]
	with open(path) as f:
		data = json.load(f)
	out = []
	for item in data['items']:
		ent = [('key', mm['genome']['key'], _f32(mm['distance'])) for mm in item['closest_genomes']]
		if fmt == 'archive':
			cr = item['classifier_result']
			first = [('key', cr['closest_match']['genome']['key'], _f32(cr['closest_match']['distance']))]
			if cr.get('primary_match'):
				ent.append(('key', cr['primary_match']['genome']['key'], _f32(cr['primary_match']['distance'])))
			ent = first + ent
		out.append(ent)
	return out


def judge_cli(c, orc, data, table, gm, sm, r):
	"""the property on one `gambit query` run: data = cli_entries(...) (a list) when the command exited with 0, else anything
	else; table = the directly computed distances of the queries that were given; gm / sm = the genome-file / signature-file
	names of the directory; r = the click result (for the message).  None if it holds."""
	inset = orc['inset']
	exact = len(gm) == 1 and len(sm) == 1
	what = None
	ok = isinstance(data, list)
	if ok and not exact:
		what = f'gambit query produced results although the directory holds {len(gm)} genome file(s) {gm} and {len(sm)} signature file(s) {sm}'
	elif ok and orc['must_fail']:
		what = f'gambit query produced results although {orc["must_fail"]}'
	elif ok and inset:
		by_name = {'key': {g[1]: g for g in inset}, 'description': {f'genome {g[0]}': g for g in inset}}
		if len(data) != len(table):
			what = f'{len(data)} result items for {len(table)} queries'
		for qi, entries in enumerate(data):
			if what:
				break
			ownpool = {g[0]: c['sigs'][orc['own'][g[0]][0]][1] for g in inset if len(orc['own'][g[0]]) >= 1}
			best = min(table[qi][ownpool[g[0]]] for g in inset) if orc['must_load'] else None
			for j, (how, key, dd) in enumerate(entries):
				by_key = by_name[how]
				if key not in by_key:
					what = f'query q{qi}: result names genome {key!r} which is not in the set'
				elif not orc['must_load']:
					what = f'gambit query produced results from an ambiguous signature file ({key!r} listed)'
				elif dd != table[qi][ownpool[by_key[key][0]]]:
					what = (f'query q{qi}: distance {dd!r} reported for genome {key!r}, directly computed distance to its own '
					        f'signature is {table[qi][ownpool[by_key[key][0]]]!r}')
				elif j == 0 and dd != best:
					what = f'query q{qi}: closest genome reported at {dd!r}, the closest own signature is at {best!r}'
				if what:
					break
	elif not ok and orc['must_load'] and inset and exact:
		what = (f'gambit query failed (exit {getattr(r, "exit_code", None)}: {str(getattr(r, "exception", "") or getattr(r, "output", ""))[:200]}) '
		        'although every genome has exactly one signature stored under its identifier')
	return what


def k_cli(ctx, cases):
	"""optional fields (coverage audit): fmt json|csv|archive, strict, cores, progress, dbvia opt (-d DIR) | env
	(GAMBIT_DB_PATH), qin sigfile (-s) | fasta (positional genome files -> query_parse) | listfile (-l), names / ids_as
	as in load cases, extra = further directory entries [[name, content], ...]"""
	from click.testing import CliRunner
	import gambit.cli
	ok_cases = []
	for c in cases:
		ex = c.get('extra') or []
		allnames = list(file_names(c)) + [e[0] for e in ex]
		if (validate(c) and c.get('fmt', 'json') in CLI_FMTS and c.get('qin', 'sigfile') in CLI_QIN and c.get('dbvia', 'opt') in ('opt', 'env', 'long')
		        and all(valid_name(e[0]) and e[1] in CONTENT_CODE for e in ex) and len(set(allnames)) == len(allnames)
		        and c.get('via', 'dir') == 'dir'
		        and has_ext(allnames[0], GEXT) and has_ext(allnames[1], SEXT)):
			ok_cases.append(c)
		else:
			ctx.count('invalid-case-skipped')
	cases = ok_cases
	ans = ctx.model([(402, [w_genomes(c), w_meta(c['attr']), w_ids(c)]) for c in cases])
	for n, c in enumerate(cases):
		orc = oracle(c)
		m = model_obs(ans[n])
		d = _newdir()
		fmt = c.get('fmt', 'json')
		out = os.path.join(_S['root'], f'out{_S["n"]}.{fmt}')
		ex = c.get('extra') or []
		allnames = list(file_names(c)) + [e[0] for e in ex]
		gm = [x for x in allnames if has_ext(x, GEXT)]
		sm = [x for x in allnames if has_ext(x, SEXT)]
		exact = len(gm) == 1 and len(sm) == 1
		qin = c.get('qin', 'sigfile')
		table = _S['table'] if qin == 'sigfile' else _S['fa_table']
		try:
			write_case_files(c, d)
			for name, kind in ex:
				make_entry(d, name, kind)
			args, env = [], {}
			if c.get('dbvia', 'opt') == 'env':
				env['GAMBIT_DB_PATH'] = d
			elif c.get('dbvia') == 'long':
				args += ['--db', d]
			else:
				args += ['-d', d]
			args += ['query', '-f', fmt, '-o', out]
			if c.get('strict'):
				args.append('--strict')
			if c.get('cores') is not None:
				args += ['-c', str(c['cores'])]
			if c.get('progress') is False:
				args.append('--no-progress')
			if qin == 'sigfile':
				args += ['-s', _S['qfile']]
			elif qin == 'listfile':
				args += ['-l', _S['fa_list']]
			else:
				args += ['--'] + list(_S['fa_files'])
			r = CliRunner().invoke(gambit.cli.cli, args, env=env)
			data = None
			if r.exit_code == 0:
				data = cli_entries(fmt, out)
		except Exception as e:     # noqa
			r = None
			data = f'{type(e).__name__}: {e}'
		finally:
			shutil.rmtree(d, ignore_errors=True)
			if os.path.exists(out):
				os.remove(out)
		ctx.case(c, nontrivial=nontrivial_load(c, orc) or not exact)
		inset = orc['inset']
		ok = isinstance(data, list)
		ctx.count('cli:' + ('results' if ok else 'error exit'))
		ctx.count(f'cli:fmt={fmt},queries={qin},db={c.get("dbvia", "opt")}')
		what = judge_cli(c, orc, data, table, gm, sm, r)
		if what:
			ctx.violation('cli', c, what, impl=data, spec=dict(must_fail=orc['must_fail'], must_load=orc['must_load'], genome_files=gm,
			              signature_files=sm), model=m)
		elif inset and exact and ok != (m[0] == 'ok'):
			ctx.broke('cli: gambit query vs model', f'{c}: cli {"results" if ok else "error"}, model {m}')


# ------------------------------------------------------------------------------------------------
# several databases at once / objects reused across loads (property predicate only, no model)
# ------------------------------------------------------------------------------------------------

def judge_outcome(c, orc, o):
	"""the property on one load outcome o = ('err', cls) | ('ok', pairs, mat, qobs, ...); None if it holds"""
	if o[0] == 'ok':
		if orc['must_fail']:
			return f'a database was produced although {orc["must_fail"]}'
		return judge_loaded(c, orc, o[1], o[2], o[3])
	if orc['must_load']:
		return (f'loading failed with {o[1]} although every genome of the set has exactly one signature stored under its '
		        f'{c["attr"]} (file order / unrelated signatures must not matter)')
	return None


def k_multi(ctx, cases):
	"""case: dbs = [load case ...] (all loaded and kept open together), share = None | 'sigs' (ONE opened signature
	file handed to the constructor for every genome database; all dbs then carry the same sigs/attr) | 'dir' (every
	database is loaded from the same directory, i.e. dbs are equal), plan = [index into dbs ...]: the order in which the
	open databases are queried afterwards (a database may be queried several times).  Every load outcome and every
	observation of every step must satisfy the property for its own database.  Outside the Coq model (which has no
	notion of two databases): judged by the property predicate alone."""
	from gambit.sigs import load_signatures
	for mc in cases:
		dbs = mc.get('dbs') or []
		share = mc.get('share')
		if (not dbs or not all(validate(c) for c in dbs) or share not in (None, 'sigs', 'dir')
		        or any(not (0 <= i < len(dbs)) for i in mc.get('plan', []))
		        or (share and any((c['sigs'], c['attr'], c.get('ids_as')) != (dbs[0]['sigs'], dbs[0]['attr'], dbs[0].get('ids_as')) for c in dbs))
		        or (share == 'dir' and any(c['genomes'] != dbs[0]['genomes'] for c in dbs))
		        or (share and any(c.get('via', 'dir') == 'mem' for c in dbs))):
			ctx.count('invalid-case-skipped')
			continue
		orcs = [oracle(c) for c in dbs]
		opened = []
		dirs = []
		shared = None
		what = None
		where = None
		try:
			for i, c in enumerate(dbs):
				if share == 'dir' and i > 0:
					d = dirs[0]
				else:
					d = _newdir()
					dirs.append(d)
					if share == 'sigs':
						write_genome_db(os.path.join(d, file_names(c)[0]), c['genomes'], c.get('dblayout'))
						if i == 0:
							write_sig_file(os.path.join(d, file_names(c)[1]), c['sigs'], c['attr'], c.get('ids_as'), c.get('sig_dtype'))
							shared = load_signatures(os.path.join(d, file_names(c)[1]))
					else:
						write_case_files(c, d)
				o = open_db(c, d, shared_sigs=shared if share == 'sigs' else None)
				opened.append(o)
				if o[0] == 'err':
					what = judge_outcome(c, orcs[i], o)
					where = f'database {i} (load)'
					if what:
						break
			if not what:
				steps = list(range(len(dbs))) + list(mc.get('plan', []))
				for stepno, i in enumerate(steps):
					if opened[i][0] != 'ok':
						continue
					obs = observe(dbs[i], opened[i][1])
					what = judge_outcome(dbs[i], orcs[i], ('ok',) + obs)
					if what:
						where = f'database {i}, step {stepno} of {steps}'
						break
		finally:
			for o in opened:
				if o[0] == 'ok':
					if share == 'sigs':
						try:
							o[1].session.close()
							o[1].session.get_bind().dispose()
						except Exception:
							pass
					else:
						_close(o[1])
			if shared is not None:
				try:
					shared.close()
				except Exception:
					pass
			for d in dirs:
				shutil.rmtree(d, ignore_errors=True)
		ctx.case(mc, nontrivial=len(dbs) >= 2 and any(nontrivial_load(c, r) for c, r in zip(dbs, orcs)))
		ctx.count('multi:share=' + str(share))
		if what:
			ctx.violation('multi', mc, f'{where}: {what}', impl=[o[0] if o[0] == 'ok' else list(o) for o in opened],
			              spec=[dict(must_fail=r['must_fail'], must_load=r['must_load']) for r in orcs])


# ------------------------------------------------------------------------------------------------
# the public matching functions of gambit.db.refdb (property predicate only, no model)
# ------------------------------------------------------------------------------------------------

def judge_match(attr, ids, by_pk, owners, out):
	"""the matching functions where they RETURN: out = {'subset': [pks, positions] | exception name, 'by_id strict=False' /
	'by_id strict=True': [pk | None ...] | exception name}; owners[p] = genomes of the set carrying ids[p].  None if it holds."""
	what = None
	sub = out.get('subset')
	if isinstance(sub, list):
		pks, pos = sub
		if len(pks) != len(pos):
			what = f'genomes_by_id_subset returned {len(pks)} genomes and {len(pos)} positions'
		elif pos != sorted(set(pos)) or any(not 0 <= p < len(ids) for p in pos):
			what = f'genomes_by_id_subset returned positions {pos} for {len(ids)} identifiers'
		else:
			for pk, p in zip(pks, pos):
				if pk not in owners[p]:
					what = (f'genomes_by_id_subset pairs position {p} (identifier {ids[p]!r}) with genome {pk} '
					        f'({attr}={value_of(by_pk[pk], attr)!r})' if pk in by_pk else
					        f'genomes_by_id_subset pairs position {p} with genome {pk}, which is not in the genome set')
					break
			else:
				left = [p for p in range(len(ids)) if owners[p] and p not in pos]
				if left:
					what = f'genomes_by_id_subset left out position(s) {left} although genomes of the set carry those identifiers'
	for strict in (False, True):
		r = out.get(f'by_id strict={strict}')
		if what or not isinstance(r, list):
			continue
		if len(r) != len(ids):
			what = f'genomes_by_id(strict={strict}) returned {len(r)} entries for {len(ids)} identifiers'
			continue
		for p, pk in enumerate(r):
			if (pk is None and owners[p]) or (pk is not None and pk not in owners[p]):
				what = f'genomes_by_id(strict={strict}) gives genome {pk} for identifier {ids[p]!r} at position {p}; genomes of the set carrying it: {owners[p]}'
				break
	return what


def k_match(ctx, cases):
	"""case: attr, genomes, ids (the stored identifiers), attr_form 'str' | 'attribute' (Genome.<attr> itself),
	ids_form (a MEM_IDS container).  genomes_by_id_subset(genomeset, attr, ids) -> (genomes, positions) and
	genomes_by_id(..., strict=False / True).  Judged only where they RETURN (what they raise and when is their own
	contract, not the property's): every returned (genome, position) must be a genome of the set whose identifier
	equals ids[position], positions ascending, and no position whose identifier belongs to a genome of the set may be
	left out.  Outside the Coq model's entry points: property predicate alone."""
	from gambit.db.refdb import load_genomeset, genomes_by_id_subset, genomes_by_id
	from gambit.db.models import Genome
	for c in cases:
		probe = dict(c, sigs=[[i, 0] for i in c.get('ids', [])], queries=[])
		if (c.get('attr') not in ATTRS or c.get('attr_form') not in ('str', 'attribute') or c.get('ids_form') not in MEM_IDS
		        or not validate(dict(probe, via='mem', mem=['list', c['ids_form']]))):
			ctx.count('invalid-case-skipped')
			continue
		attr, ids = c['attr'], c['ids']
		inset = [g for g in c['genomes'] if g[6]]
		by_pk = {g[0]: g for g in inset}
		owners = [[g[0] for g in inset if value_of(g, attr) is not None and same_id(value_of(g, attr), v)] for v in ids]
		d = _newdir()
		session = None
		what = None
		out = {}
		try:
			write_genome_db(os.path.join(d, 'g.gdb'), c['genomes'], c.get('dblayout'))
			session, gset = load_genomeset(os.path.join(d, 'g.gdb'))
			a = getattr(Genome, attr) if c['attr_form'] == 'attribute' else attr
			idc = mem_signatures(probe['sigs'], attr, 'list', c['ids_form']).ids
			idc_was = obj_print(idc)

			def pk_of(g):
				return None if g is None else int(g.genome_id)
			try:
				gs, pos = genomes_by_id_subset(gset, a, idc)
				out['subset'] = [[pk_of(g) for g in gs], [int(p) for p in pos]]
			except Exception as e:     # noqa
				out['subset'] = type(e).__name__
			for strict in (False, True):
				try:
					out[f'by_id strict={strict}'] = [pk_of(g) for g in genomes_by_id(gset, a, idc, strict=strict)]
				except Exception as e:     # noqa
					out[f'by_id strict={strict}'] = type(e).__name__
			if obj_print(idc) != idc_was:      # state and aliasing audit
				out['container'] = f"the caller's identifier container was modified: {idc_was} -> {obj_print(idc)}"
		except Exception as e:     # noqa
			out['harness'] = f'{type(e).__name__}: {e}'
		finally:
			if session is not None:
				try:
					session.close()
					session.get_bind().dispose()
				except Exception:
					pass
			shutil.rmtree(d, ignore_errors=True)
		sub = out.get('subset')
		what = judge_match(attr, ids, by_pk, owners, out) or out.get('container')
		ctx.case(c, nontrivial=len(inset) >= 2 and len(ids) >= 2)
		ctx.count('match:subset ' + ('returns' if isinstance(sub, list) else f'raises {sub}'))
		if 'harness' in out:
			ctx.broke('match: harness could not run the case', f'{c}: {out["harness"]}')
		elif what:
			ctx.violation('match', c, what, impl=out, spec=dict(genomes_of_the_set_carrying_each_identifier=owners))


# ------------------------------------------------------------------------------------------------
# sequences: a short script of calls over a small pool of SHARED objects (state and aliasing audit; property predicate
# only, no model -- the Coq model has no notion of a second call).  See "STATE AND ALIASING" in the module docstring.
#
# case = dict(gsets=[genome table ...]            2-3 genome databases (rows as in load cases; the same logical genomes, i.e.
#                                                 the same identifier values, under DIFFERENT primary keys and with different
#                                                 genome sets of different sizes)
#             sigfiles=[dict(attr, sigs, ids_as, sig_dtype) ...]
#                                                 2-3 signature collections (own id_attr, own order / padding / coverage, and
#                                                 an own assignment of pool signatures to the logical genomes, so that a
#                                                 genome seen through the signature of ANOTHER collection shows)
#             dirs=[dict(g, s, names) ...]        database directories: genome file of gsets[g] + signature file of sigfiles[s]
#             params=[dict(chunksize, report, strict) ...]   QueryParams OBJECTS made once per case and handed to every query
#             queries=[[query index ...] ...]     lists of query arrays made once per case and handed to every query
#             steps=[[op, ...] ...])
# steps (h, g, s = slot numbers 0..3 of open databases / loaded genome sets / signature objects; d = directory; p, q = index
# into params / queries):
#   ['load', h, d, via, kw]          h := database of directory d (via dir = load_from_dir, load = ReferenceDatabase.load,
#                                    ctor = locate_files + load_genomeset + load_signatures + constructor; kw = keyword call)
#   ['gset', g, d]                   g := load_genomeset(genome file of d)   (session + genome set kept open)
#   ['sigs', s, d]                   s := load_signatures(signature file of d)   (kept open)
#   ['memsigs', s, si, sf, idf]      s := in-memory AnnotatedSignatures of sigfiles[si] (sf list|array, idf an ids form)
#   ['make', h, g, s, kw]            h := ReferenceDatabase(genome set slot g, signature object slot s)
#   ['observe', h, p, q, form]       jaccarddist_matrix through sig_indices + query() on h with the pooled params object p and
#                                    the pooled query list q; form params | kw | inputs
#   ['match', g, attr, si, idf, af]  genomes_by_id_subset / genomes_by_id(strict False, True) on genome set slot g with the
#                                    pooled identifier container (ids of sigfiles[si] in form idf); af str | attribute
#   ['fresh', d, via, p, q, thread]  load + observe + close in one go; thread = in a worker thread
#   ['cli', d, fmt]                  gambit -d <d> query -s QUERIES -f fmt -o OUT in process
#   ['close', h]
#   ['rewrite', d, g, s, names]      everything opened from d is closed, its files are removed and written anew from
#                                    gsets[g] / sigfiles[s] under the names SEQ_NAMES[names]
#   ['badquery', h, how, p, q]       a query that fails part-way (SEQ_BADQ)
#   ['badmatch', g, how, si]         a matching call that fails part-way (SEQ_BADM)
#   ['badload', d, how]              load_from_dir on a damaged COPY of d (SEQ_BADL)
#   ['gsetrw', g, gi]                g := the genome set of a PRIVATE writable copy of genome database gsets[gi], opened with
#                                    file_sessionmaker(path, readonly=False) + only_genomeset (session + genome set kept open;
#                                    the copy is in no database directory, so nothing else ever reads it)
#   ['edit', g, gi2, how]            the genome set in slot g (opened by gsetrw) is EDITED through its own ORM session until it
#                                    holds the table gsets[gi2] (same primary keys; identifier values of Genome objects set,
#                                    AnnotatedGenome objects deleted / added), then how = commit | flush.  Databases made from the
#                                    slot before are dropped (the property says nothing about them); from now on the slot is
#                                    judged as gsets[gi2].  Skipped when the slot is not writable or the primary keys differ.
# A step whose slot is not open (hand-edited replay) is skipped and counted.
# ------------------------------------------------------------------------------------------------

SEQ_VIAS = ('dir', 'load', 'ctor')
SEQ_QFORMS = ('params', 'kw', 'inputs')
SEQ_BADQ = ('iter-raises', 'empty', 'float-query', 'inputs-short', 'out-shape')
SEQ_BADM = ('strict-missing', 'bad-attr', 'ids-raise')
SEQ_BADL = ('truncated-sigs', 'junk-sigs', 'junk-genomes', 'no-sigs', 'two-sigs', 'missing-dir', 'wrong-genome-name')
SEQ_NAMES = [['genomes.gdb', 'signatures.gs'], ['refs.db', 'refs.h5'], ['a#b.gdb', 'x.tar.gs'], ['g.db', 's.gs']]
SEQ_EDIT_HOWS = ('commit', 'flush')
SEQ_SLOTS = 4
SEQ_IDFORMS = ('list', 'tuple', 'npscalars', 'strided') + STR_STORE + ('i8', 'u8')


def seq_combined(case, gi, si, p=None, q=None):
	"""the load case that genome database gi and signature collection si make together"""
	sf = case['sigfiles'][si]
	P = case['params'][p] if p is not None else dict(chunksize=None, report=3)
	return dict(attr=sf['attr'], genomes=case['gsets'][gi], sigs=sf['sigs'], ids_as=sf.get('ids_as'), sig_dtype=sf.get('sig_dtype'),
	            chunksize=P.get('chunksize'), report=P.get('report', 3), queries=list(case['queries'][q]) if q is not None else [])


def seq_validate(case):
	def idx(x, n):
		return _is_int(x, 0, n - 1)
	try:
		gsets, sigfiles, dirs, params, queries, steps = (case[k] for k in ('gsets', 'sigfiles', 'dirs', 'params', 'queries', 'steps'))
		if not (gsets and sigfiles and dirs and params and queries and isinstance(steps, list)):
			return False
		for P in params:
			if not ((P.get('chunksize') is None or _is_int(P['chunksize'], 1, 10 ** 6)) and _is_int(P.get('report', 3), 1, 1000)):
				return False
		if any(not q or any(not idx(x, NQUERY) for x in q) for q in queries):
			return False
		for gi in range(len(gsets)):
			for si in range(len(sigfiles)):
				if sigfiles[si].get('attr') not in ATTRS or not validate(seq_combined(case, gi, si, 0, 0)):
					return False
		for d in dirs:
			if not (idx(d['g'], len(gsets)) and idx(d['s'], len(sigfiles)) and idx(d['names'], len(SEQ_NAMES))):
				return False
		for st in steps:
			op, a = st[0], st[1:]
			ok = False
			if op == 'load':
				ok = len(a) == 4 and idx(a[0], SEQ_SLOTS) and idx(a[1], len(dirs)) and a[2] in SEQ_VIAS
			elif op in ('gset', 'sigs'):
				ok = len(a) == 2 and idx(a[0], SEQ_SLOTS) and idx(a[1], len(dirs))
			elif op == 'memsigs':
				ok = (len(a) == 4 and idx(a[0], SEQ_SLOTS) and idx(a[1], len(sigfiles)) and a[2] in MEM_SIGS and a[3] in SEQ_IDFORMS
				      and validate(dict(seq_combined(case, 0, a[1], 0, 0), via='mem', mem=[a[2], a[3]])))
			elif op == 'make':
				ok = len(a) == 4 and all(idx(x, SEQ_SLOTS) for x in a[:3])
			elif op == 'observe':
				ok = len(a) == 4 and idx(a[0], SEQ_SLOTS) and idx(a[1], len(params)) and idx(a[2], len(queries)) and a[3] in SEQ_QFORMS
			elif op == 'match':
				ok = (len(a) == 5 and idx(a[0], SEQ_SLOTS) and a[1] in ATTRS and idx(a[2], len(sigfiles)) and a[3] in SEQ_IDFORMS
				      and a[4] in ('str', 'attribute') and validate(dict(seq_combined(case, 0, a[2], 0, 0), via='mem', mem=['list', a[3]])))
			elif op == 'fresh':
				ok = (len(a) == 5 and idx(a[0], len(dirs)) and a[1] in SEQ_VIAS and idx(a[2], len(params)) and idx(a[3], len(queries)))
			elif op == 'cli':
				ok = len(a) == 2 and idx(a[0], len(dirs)) and a[1] in CLI_FMTS
			elif op == 'close':
				ok = len(a) == 1 and idx(a[0], SEQ_SLOTS)
			elif op == 'rewrite':
				ok = len(a) == 4 and idx(a[0], len(dirs)) and idx(a[1], len(gsets)) and idx(a[2], len(sigfiles)) and idx(a[3], len(SEQ_NAMES))
			elif op == 'badquery':
				ok = len(a) == 4 and idx(a[0], SEQ_SLOTS) and a[1] in SEQ_BADQ and idx(a[2], len(params)) and idx(a[3], len(queries))
			elif op == 'badmatch':
				ok = len(a) == 3 and idx(a[0], SEQ_SLOTS) and a[1] in SEQ_BADM and idx(a[2], len(sigfiles))
			elif op == 'badload':
				ok = len(a) == 2 and idx(a[0], len(dirs)) and a[1] in SEQ_BADL
			elif op == 'gsetrw':
				ok = len(a) == 2 and idx(a[0], SEQ_SLOTS) and idx(a[1], len(gsets))
			elif op == 'edit':
				ok = len(a) == 3 and idx(a[0], SEQ_SLOTS) and idx(a[1], len(gsets)) and a[2] in SEQ_EDIT_HOWS
			if not ok:
				return False
		return True
	except Exception:     # noqa: a malformed case is not a case
		return False


def obj_print(x):
	"""a value that changes whenever the observable content (values AND their types) of a caller's object changes"""
	import hashlib
	if isinstance(x, np.ndarray):
		body = repr(x.tolist()) if x.dtype.kind == 'O' else hashlib.sha1(x.tobytes()).hexdigest()
		return ['ndarray', x.dtype.str, list(x.shape), body]
	if isinstance(x, (list, tuple)):
		return [type(x).__name__, [obj_print(y) for y in x]]
	if isinstance(x, np.generic):
		return ['numpy ' + type(x).__name__, x.item()]
	if isinstance(x, dict):
		return ['dict', [[k, obj_print(v)] for k, v in x.items()]]
	return [type(x).__name__, x if isinstance(x, (int, str, float, bool, type(None))) else repr(x)]


def sigs_print(s):
	"""identifiers, metadata and signature data of a signature object"""
	import hashlib
	h = hashlib.sha1()
	n = len(s)
	for i in range(n):
		a = np.asarray(s[i])
		h.update(a.dtype.str.encode() + b':' + a.tobytes() + b'|')
	return [type(s).__name__, n, obj_print(s.ids), obj_print(dict(vars(s.meta))),
	        str(s.kmerspec), h.hexdigest()]


def sigs_print_safe(s):
	"""sigs_print, or ['unreadable', why] (e.g. the library handed out a collection whose file it had closed)"""
	try:
		return sigs_print(s)
	except Exception as e:     # noqa
		return ['unreadable', f'{type(e).__name__}: {e}']


def dir_print(path):
	import hashlib
	out = []
	for name in sorted(os.listdir(path)):
		p = os.path.join(path, name)
		if os.path.isfile(p):
			with open(p, 'rb') as f:
				out.append([name, hashlib.sha1(f.read()).hexdigest()])
		else:
			out.append([name, 'not a file'])
	return out


class _RaisingIds:
	"""an identifier container of the caller that fails in the middle of being read"""

	def __init__(self, ids, after):
		self.ids, self.after = list(ids), after

	def __len__(self):
		return len(self.ids)

	def __iter__(self):
		for n, x in enumerate(self.ids):
			if n == self.after:
				raise RuntimeError("the caller's identifier container failed")
			yield x

	def __getitem__(self, i):
		if isinstance(i, int) and i >= self.after:
			raise RuntimeError("the caller's identifier container failed")
		return self.ids[i]


class _SeqRun:
	"""interpreter of one sequence case; .what = None or the first thing that went wrong (a property violation)"""

	def __init__(self, ctx, case):
		from gambit.query import QueryParams
		self.ctx, self.case = ctx, case
		self.root = _newdir()
		self.dirs = []
		for n, d in enumerate(case['dirs']):
			path = os.path.join(self.root, f'd{n}')
			os.makedirs(path)
			self.dirs.append(dict(path=path, g=d['g'], s=d['s'], names=d['names']))
			self._write_dir(n)
		self.handles, self.gslots, self.sslots = {}, {}, {}
		self.params = [QueryParams(classify_strict=bool(P.get('strict')), chunksize=P.get('chunksize'), report_closest=P.get('report', 3))
		               for P in case['params']]
		self.params_was = [dict(vars(P)) for P in self.params]
		self.queries = [[_S['queries'][i].copy() for i in q] for q in case['queries']]
		self.queries_was = [obj_print(q) for q in self.queries]
		self.inputs = [[f'in{i}' for i in range(len(q))] for q in case['queries']]
		self.inputs_was = [obj_print(x) for x in self.inputs]
		self.containers = {}       # (si, form) -> [container, print]
		self.seen = {}             # same call -> what it gave
		self.kept = []             # [description, extract(), what it gave at the time]
		self.trace = []
		self.what = None
		self.generation = 0
		self.used = {}             # shared object -> number of steps that used it
		self.nontrivial = False
		self.evaluated = 0
		self.nrw = 0

	# ---- files -----------------------------------------------------------------------------------------
	def _paths(self, n):
		d = self.dirs[n]
		gname, sname = SEQ_NAMES[d['names']]
		return os.path.join(d['path'], gname), os.path.join(d['path'], sname)

	def _master(self, kind, i):
		"""each genome database / signature file of the case is built once and copied from then on"""
		path = os.path.join(self.root, f'master-{kind}{i}')
		if not os.path.exists(path):
			if kind == 'g':
				write_genome_db(path, self.case['gsets'][i])
			else:
				S = self.case['sigfiles'][i]
				write_sig_file(path, S['sigs'], S['attr'], S.get('ids_as'), S.get('sig_dtype'))
		return path

	def _write_dir(self, n):
		d = self.dirs[n]
		for name in os.listdir(d['path']):
			os.remove(os.path.join(d['path'], name))
		gf, sf = self._paths(n)
		shutil.copyfile(self._master('g', d['g']), gf)
		shutil.copyfile(self._master('s', d['s']), sf)
		d['print'] = dir_print(d['path'])

	def _use(self, *names):
		for n in names:
			self.used[n] = self.used.get(n, 0) + 1

	# ---- closing ---------------------------------------------------------------------------------------
	def _close_handle(self, h):
		H = self.handles.pop(h, None)
		if H and H['owns']:
			_close(H['db'])

	def _close_gslot(self, g):
		G = self.gslots.pop(g, None)
		if G:
			for h in [h for h, H in self.handles.items() if H.get('gslot') is G]:
				self._close_handle(h)
			try:
				G['session'].close()
				G['session'].get_bind().dispose()
			except Exception:
				pass

	def _close_sslot(self, s):
		X = self.sslots.pop(s, None)
		if X:
			for h in [h for h, H in self.handles.items() if H.get('sslot') is X]:
				self._close_handle(h)
			try:
				X['obj'].close()
			except Exception:
				pass

	def close_all(self):
		for h in list(self.handles):
			self._close_handle(h)
		for g in list(self.gslots):
			self._close_gslot(g)
		for s in list(self.sslots):
			self._close_sslot(s)
		shutil.rmtree(self.root, ignore_errors=True)

	# ---- what is seen of the objects -------------------------------------------------------------------
	def _genome_rows(self, session, annotated):
		"""(primary key, the four identifier values) of AnnotatedGenome objects, read through the ORM objects (one SELECT
		brings every Genome row into the session's identity map, the attributes are then read from the objects)"""
		from gambit.db.models import Genome
		keep = session.query(Genome).all()      # noqa: referenced until the rows have been read
		rows = [[int(a.genome_id), a.genome.key, a.genome.genbank_acc, a.genome.refseq_acc, a.genome.ncbi_id] for a in annotated]
		del keep
		return rows

	def _loaded_rows(self, session):
		"""the same for whatever Genome objects the session holds already -- no SQL at all"""
		from gambit.db.models import Genome
		rows = []
		for obj in list(session.identity_map.values()):
			if isinstance(obj, Genome):
				dd = obj.__dict__
				if all(k in dd for k in ('id', 'key', 'genbank_acc', 'refseq_acc', 'ncbi_id')):
					rows.append([int(dd['id']), dd['key'], dd['genbank_acc'], dd['refseq_acc'], dd['ncbi_id']])
		return rows

	def _rows_wrong(self, rows, gi, who):
		table = {g[0]: g[:5] for g in self.case['gsets'][gi]}
		for r in rows:
			if r[0] not in table:
				return f'{who}: genome {r[0]} is not a row of its genome database'
			if list(table[r[0]]) != r:
				return f'{who}: genome {r[0]} reads {r[1:]} through the ORM, the database file holds {list(table[r[0]][1:])}'
		return None

	def _handle_state(self, H):
		db = H['db']
		pairs = [(int(k), int(g.genome_id)) for g, k in zip(db.genomes, db.sig_indices)]
		if len(db.genomes) != len(db.sig_indices):
			return pairs, f'genomes and sig_indices differ in length ({len(db.genomes)} vs {len(db.sig_indices)})'
		return pairs, self._rows_wrong(self._genome_rows(db.session, db.genomes), H['g'], 'an open database')

	def invariants(self):
		"""the caller's objects are what they were; open databases and the files are what they were"""
		for n, P in enumerate(self.params):
			now = dict(vars(P))
			if now != self.params_was[n]:
				return f"the caller's QueryParams object {n} was modified: {self.params_was[n]} -> {now}"
		for n, q in enumerate(self.queries):
			if obj_print(q) != self.queries_was[n]:
				return f"the caller's list of query signatures {n} was modified"
		for n, x in enumerate(self.inputs):
			if obj_print(x) != self.inputs_was[n]:
				return f"the caller's list of inputs {n} was modified: {x}"
		for key, (cont, was) in self.containers.items():
			if obj_print(cont) != was:
				return f"the caller's identifier container {list(key)} was modified: {was} -> {obj_print(cont)}"
		for s, X in self.sslots.items():
			now = sigs_print_safe(X['obj'])
			if now != X['print']:
				return f"the caller's signature object (slot {s}) was modified: {X['print']} -> {now}"
		for g, G in self.gslots.items():
			bad = self._rows_wrong(self._loaded_rows(G['session']), G['g'], f'genome set slot {g}')
			if bad:
				return bad
		for h, H in self.handles.items():
			pairs, bad = self._handle_state(H)
			if bad:
				return bad
			if pairs != H['pairs']:
				return f'the genomes / sig_indices of open database {h} changed: {H["pairs"]} -> {pairs}'
			if H['sigprint'] is not None and sigs_print_safe(H['db'].signatures) != H['sigprint']:
				return f'the signature object of open database {h} changed: {H["sigprint"]} -> {sigs_print_safe(H["db"].signatures)}'
		for n, d in enumerate(self.dirs):
			now = dir_print(d['path'])
			if now != d['print']:
				return f'database directory {n} was changed by reading it: {d["print"]} -> {now}'
		return None

	# ---- steps -----------------------------------------------------------------------------------------
	def _opened(self, h, db, gi, si, owns, **more):
		"""judge a produced database by its pairs and register it"""
		self._close_handle(h)
		H = dict(db=db, g=gi, s=si, owns=owns, **more)
		self.generation += 1
		H['gen'] = self.generation
		self.handles[h] = H
		pairs, bad = self._handle_state(H)
		H['pairs'] = pairs
		H['sigprint'] = sigs_print_safe(db.signatures) if owns else None
		if owns and H['sigprint'][0] == 'unreadable' and not bad:
			bad = f'the signatures of the database just produced cannot be read: {H["sigprint"][1]}'
		cc = seq_combined(self.case, gi, si)
		return bad or judge_outcome(cc, oracle(cc), ('ok', pairs, None, None))

	def _failed(self, gi, si, err):
		cc = seq_combined(self.case, gi, si)
		return judge_outcome(cc, oracle(cc), ('err', err))

	def _observe(self, db, gi, si, p, q, form):
		"""-> (observation, what)"""
		from gambit.metric import jaccarddist_matrix
		from gambit.query import query
		P, Q, Pd = self.params[p], self.queries[q], self.case['params'][p]
		cc = seq_combined(self.case, gi, si, p, q)
		orc = oracle(cc)
		pairs = [(int(k), int(g.genome_id)) for g, k in zip(db.genomes, db.sig_indices)]
		mat = qobs = None
		m = res = None
		if pairs:
			try:
				m = jaccarddist_matrix(Q, db.signatures, ref_indices=db.sig_indices, chunksize=P.chunksize)
				mat = [[_f32(x) for x in row] for row in m]
			except Exception as e:     # noqa
				mat = f'jaccarddist_matrix raised {type(e).__name__}: {e}'
			try:
				if form == 'kw':
					cs = Pd.get('chunksize')
					res = query(db, Q, chunksize=None if cs is None else np.int64(cs), report_closest=np.int32(Pd.get('report', 3)),
					            classify_strict=bool(Pd.get('strict')))
				elif form == 'inputs':
					res = query(db, Q, P, inputs=self.inputs[q])
				else:
					res = query(db, Q, P)
				qobs = self._extract(res)
			except Exception as e:     # noqa
				qobs = f'query raised {type(e).__name__}: {e}'
		what = judge_outcome(cc, orc, ('ok', pairs, mat, qobs))
		if not what and nontrivial_load(cc, orc):
			self.nontrivial = True
		obs = [pairs, mat, qobs]
		if m is not None and not isinstance(mat, str):
			self.kept.append(['a distance matrix returned earlier', lambda m=m: [[_f32(x) for x in row] for row in m], mat])
		if res is not None and not isinstance(qobs, str):
			self.kept.append(['a QueryResults object returned earlier', lambda res=res: self._extract(res), qobs])
		return obs, what

	@staticmethod
	def _extract(res):
		out = []
		for item in res.items:
			cm = item.classifier_result.closest_match
			out.append(dict(closest=[(int(mm.genome.genome_id), _f32(mm.distance)) for mm in item.closest_genomes],
			                match=(int(cm.genome.genome_id), _f32(cm.distance))))
		return out

	def _same(self, key, obs, text):
		key = json.dumps(key)
		if key in self.seen and self.seen[key] != obs:
			return f'{text} gave another result than the same call gave before: {self.seen[key]} -> {obs}'
		self.seen[key] = obs
		return None

	def _container(self, si, form):
		key = (si, form)
		if key not in self.containers:
			S = self.case['sigfiles'][si]
			cont = mem_signatures(S['sigs'], S['attr'], 'list', form).ids
			self.containers[key] = [cont, obj_print(cont)]
		return self.containers[key][0]

	def step(self, st):
		"""-> None | 'skipped'; sets self.what"""
		from gambit.db import ReferenceDatabase
		from gambit.db.refdb import load_genomeset, genomes_by_id_subset, genomes_by_id
		from gambit.db.models import Genome
		from gambit.sigs import load_signatures
		op, a = st[0], st[1:]
		case = self.case
		if op == 'load':
			h, dn, via, kw = a
			d = self.dirs[dn]
			cc = dict(seq_combined(case, d['g'], d['s']), via=via, kwcall=bool(kw), names=SEQ_NAMES[d['names']])
			o = open_db(cc, d['path'])
			self._use(f'dir{dn}')
			self.trace.append(f'{st}: {o[0] if o[0] == "ok" else o}')
			self.ctx.count('seq:load ' + ('gives a database' if o[0] == 'ok' else 'fails'))
			if o[0] == 'ok':
				self.what = self._opened(h, o[1], d['g'], d['s'], True, src=dn)
			else:
				self._close_handle(h)
				self.what = self._failed(d['g'], d['s'], o[1])
		elif op == 'gset':
			g, dn = a
			self._close_gslot(g)
			self._use(f'dir{dn}')
			try:
				session, gset = load_genomeset(self._paths(dn)[0])
			except Exception as e:     # noqa
				self.trace.append(f'{st}: {type(e).__name__}')
				self.what = f'load_genomeset failed with {type(e).__name__} ({e}) on a genome database file that holds exactly one genome set'
			else:
				self.gslots[g] = dict(session=session, gset=gset, g=self.dirs[dn]['g'], src=dn)
				self.trace.append(f'{st}: ok')
		elif op == 'sigs':
			s, dn = a
			self._close_sslot(s)
			self._use(f'dir{dn}')
			try:
				obj = load_signatures(self._paths(dn)[1])
			except Exception as e:     # noqa
				self.trace.append(f'{st}: {type(e).__name__}')
				self.what = f'load_signatures failed with {type(e).__name__} ({e}) on a signature file written by dump_signatures'
			else:
				self.sslots[s] = dict(obj=obj, s=self.dirs[dn]['s'], src=dn, print=sigs_print_safe(obj))
				self.trace.append(f'{st}: ok')
		elif op == 'memsigs':
			s, si, sform, idf = a
			self._close_sslot(s)
			S = case['sigfiles'][si]
			obj = mem_signatures(S['sigs'], S['attr'], sform, idf, S.get('sig_dtype'))
			self.sslots[s] = dict(obj=obj, s=si, src=None, print=sigs_print_safe(obj))
			self.trace.append(f'{st}: ok')
		elif op == 'make':
			h, g, s, kw = a
			if g not in self.gslots or s not in self.sslots:
				return 'skipped'
			G, X = self.gslots[g], self.sslots[s]
			self._use(f'gslot{g}:{G["src"]}', f'sslot{s}:{X["src"]}:{X["s"]}')
			try:
				db = ReferenceDatabase(signatures=X['obj'], genomeset=G['gset']) if kw else ReferenceDatabase(G['gset'], X['obj'])
			except Exception as e:     # noqa: the property only says "fails with an error"
				self._close_handle(h)
				self.trace.append(f'{st}: {type(e).__name__}')
				self.ctx.count('seq:make fails')
				self.what = self._failed(G['g'], X['s'], type(e).__name__)
			else:
				self.trace.append(f'{st}: ok')
				self.ctx.count('seq:make gives a database')
				self.what = self._opened(h, db, G['g'], X['s'], False, gslot=G, sslot=X)
		elif op == 'observe':
			h, p, q, form = a
			if h not in self.handles:
				return 'skipped'
			H = self.handles[h]
			self._use(f'handle{H["gen"]}', f'params{p}', f'queries{q}')
			obs, self.what = self._observe(H['db'], H['g'], H['s'], p, q, form)
			self.trace.append(f'{st}: {obs}')
			if not self.what and obs[0] != H['pairs']:
				self.what = f'the genomes / sig_indices of open database {h} changed: {H["pairs"]} -> {obs[0]}'
			self.what = self.what or self._same(['observe', H['gen'], p, q, form], obs, f'observing open database {h}')
		elif op == 'match':
			g, attr, si, idf, af = a
			if g not in self.gslots:
				return 'skipped'
			G = self.gslots[g]
			self._use(f'gslot{g}:{G["src"]}', f'container{si}:{idf}')
			idc = self._container(si, idf)
			ids = [s[0] for s in case['sigfiles'][si]['sigs']]
			inset = [r for r in case['gsets'][G['g']] if r[6]]
			by_pk = {r[0]: r for r in inset}
			owners = [[r[0] for r in inset if value_of(r, attr) is not None and same_id(value_of(r, attr), v)] for v in ids]
			aa = getattr(Genome, attr) if af == 'attribute' else attr
			out = {}

			def pk_of(x):
				return None if x is None else int(x.genome_id)
			try:
				gs, pos = genomes_by_id_subset(G['gset'], aa, idc)
				out['subset'] = [[pk_of(x) for x in gs], [int(x) for x in pos]]
			except Exception as e:     # noqa
				out['subset'] = type(e).__name__
			for strict in (False, True):
				try:
					out[f'by_id strict={strict}'] = [pk_of(x) for x in genomes_by_id(G['gset'], aa, idc, strict=strict)]
				except Exception as e:     # noqa
					out[f'by_id strict={strict}'] = type(e).__name__
			self.trace.append(f'{st}: {out}')
			self.what = judge_match(attr, ids, by_pk, owners, out) or self._same(['match', G['g'], attr, si, idf, af], out,
			                                                                 'the matching functions')
			if len(inset) >= 2 and len(ids) >= 2 and isinstance(out['subset'], list):
				self.nontrivial = True
		elif op == 'fresh':
			dn, via, p, q, thread = a
			d = self.dirs[dn]
			self._use(f'dir{dn}', f'params{p}', f'queries{q}')
			box = {}

			def run():
				cc = dict(seq_combined(case, d['g'], d['s'], p, q), via=via, names=SEQ_NAMES[d['names']])
				o = open_db(cc, d['path'])
				if o[0] == 'err':
					box['o'] = o
					return
				try:
					pairs, bad = self._handle_state(dict(db=o[1], g=d['g']))
					obs, what = self._observe(o[1], d['g'], d['s'], p, q, 'params')
					box['o'], box['obs'], box['what'] = o, obs, bad or what
				finally:
					_close(o[1])
			if thread:
				# SQLite connections must be finalised in the thread that made them: no automatic garbage collection while the
				# worker runs (it would finalise sessions leaked by failed loads of the main thread there); where the load is
				# expected to fail, the main thread's garbage is collected before and the worker's own at its end
				import threading
				import gc
				cc0 = seq_combined(case, d['g'], d['s'])
				fails = not oracle(cc0)['must_load']
				if fails:
					gc.collect()
				gc.disable()

				def guarded():
					try:
						try:
							from gambit._cython.threads import omp_set_num_threads
							omp_set_num_threads(1)
						except Exception:
							pass
						run()
					except BaseException as e:     # noqa
						box['crash'] = f'{type(e).__name__}: {e}'
					finally:
						if fails:
							gc.collect()
				try:
					t = threading.Thread(target=guarded)
					t.start()
					t.join(120)
				finally:
					gc.enable()
				if t.is_alive():
					box['crash'] = 'the worker thread did not finish within 120 s'
			else:
				run()
			if 'crash' in box:
				self.trace.append(f'{st}: {box["crash"]}')
				self.what = f'loading and querying in a worker thread broke down: {box["crash"]}'
			elif box['o'][0] == 'err':
				self.ctx.count('seq:fresh fails' + (' (worker thread)' if thread else ''))
				self.trace.append(f'{st}: {box["o"]}')
				self.what = self._failed(d['g'], d['s'], box['o'][1])
			else:
				self.ctx.count('seq:fresh gives a database' + (' (worker thread)' if thread else ''))
				self.trace.append(f'{st}: {box["obs"]}')
				self.what = box['what'] or self._same(['fresh', d['g'], d['s'], d['names'], p, q], box['obs'], 'loading and querying the same files')
		elif op == 'cli':
			dn, fmt = a
			d = self.dirs[dn]
			self._use(f'dir{dn}')
			self.what = self._cli(st, d, fmt)
		elif op == 'close':
			if a[0] not in self.handles:
				return 'skipped'
			self._close_handle(a[0])
			self.trace.append(f'{st}: ok')
		elif op == 'rewrite':
			dn, gi, si, names = a
			for h in [h for h, H in self.handles.items() if H.get('src') == dn]:
				self._close_handle(h)
			for g in [g for g, G in self.gslots.items() if G['src'] == dn]:
				self._close_gslot(g)
			for s in [s for s, X in self.sslots.items() if X['src'] == dn]:
				self._close_sslot(s)
			self.dirs[dn].update(g=gi, s=si, names=names)
			self._write_dir(dn)
			self.trace.append(f'{st}: ok')
		elif op == 'badquery':
			h, how, p, q = a
			if h not in self.handles:
				return 'skipped'
			self._use(f'handle{self.handles[h]["gen"]}', f'params{p}', f'queries{q}')
			r = self._bad_query(self.handles[h]["db"], how, self.params[p], self.queries[q])
			self.ctx.count(f'seq:badquery {how}: {r}')
			self.trace.append(f'{st}: {r}')
		elif op == 'badmatch':
			g, how, si = a
			if g not in self.gslots:
				return 'skipped'
			G = self.gslots[g]
			S = case['sigfiles'][si]
			ids = [s[0] for s in S['sigs']]
			try:
				if how == 'strict-missing':
					r = genomes_by_id(G['gset'], S['attr'], ids + [foreign_id(S['attr'], 777)], strict=True)
				elif how == 'bad-attr':
					r = genomes_by_id_subset(G['gset'], 'description', ids)
				else:
					r = genomes_by_id_subset(G['gset'], S['attr'], _RaisingIds(ids, len(ids) // 2))
				self.trace.append(f'{st}: returned {len(r)} items')
				self.ctx.count(f'seq:badmatch {how}: returned')
			except Exception as e:     # noqa
				self.trace.append(f'{st}: {type(e).__name__}')
				self.ctx.count(f'seq:badmatch {how}: {type(e).__name__}')
		elif op == 'badload':
			self.what = self._bad_load(st, a[0], a[1])
		elif op == 'gsetrw':
			from gambit.db.sqla import file_sessionmaker
			from gambit.db.models import only_genomeset
			g, gi = a
			self._close_gslot(g)
			self.nrw += 1
			path = os.path.join(self.root, f'rw{self.nrw}.gdb')
			shutil.copyfile(self._master('g', gi), path)
			try:
				session = file_sessionmaker(path, readonly=False)()
				gset = only_genomeset(session)
			except Exception as e:     # noqa
				self.trace.append(f'{st}: {type(e).__name__}')
				self.what = f'only_genomeset failed with {type(e).__name__} ({e}) on a genome database file that holds exactly one genome set'
			else:
				self.gslots[g] = dict(session=session, gset=gset, g=gi, src=f'rw{self.nrw}', rw=True)
				self.trace.append(f'{st}: ok')
		elif op == 'edit':
			g, gi2, how = a
			G = self.gslots.get(g)
			if not G or not G.get('rw') or {r[0] for r in case['gsets'][G['g']]} != {r[0] for r in case['gsets'][gi2]}:
				return 'skipped'
			for h in [h for h, H in self.handles.items() if H.get('gslot') is G]:
				self._close_handle(h)
			self._use(f'gslot{g}:{G["src"]}')
			n = self._edit(G, gi2, how)
			self.ctx.count(f'seq:edit {how}: ' + ('nothing to change' if not n else 'genome set changed'))
			self.trace.append(f'{st}: {n} changes')
		else:
			return 'skipped'
		self.evaluated += 1
		if not self.what:
			bad = self.invariants()
			if bad:
				self.what = 'after this step ' + bad
		return None

	def _edit(self, G, gi2, how):
		"""the caller edits the genome set of slot G through its ORM session until it holds the table gsets[gi2]; -> number of
		changes.  Values under a UNIQUE constraint are first moved out of the way (flush), so that two genomes may exchange their
		values.  The harness then reads the set back through the same session (its own check, RuntimeError if the edit did not
		arrive: a harness failure, not a verdict)."""
		from gambit.db.models import Genome, AnnotatedGenome, Taxon
		session, gset = G['session'], G['gset']
		cur = {r[0]: r for r in self.case['gsets'][G['g']]}
		tgt = {r[0]: r for r in self.case['gsets'][gi2]}
		objs = {int(o.id): o for o in session.query(Genome).all()}
		if set(objs) != set(cur):
			raise RuntimeError(f'edit: the session holds genomes {sorted(objs)}, the table {sorted(cur)}')
		cols = {1: 'key', 2: 'genbank_acc', 3: 'refseq_acc', 4: 'ncbi_id'}
		changed = [(pk, c) for pk in sorted(cur) for c in cols if cur[pk][c] != tgt[pk][c] or type(cur[pk][c]) is not type(tgt[pk][c])]
		if changed:
			for pk, c in changed:
				setattr(objs[pk], cols[c], f'being-edited/{pk}' if c == 1 else None)
			session.flush()
			for pk, c in changed:
				setattr(objs[pk], cols[c], tgt[pk][c])
		n = len(changed)
		annotated = {int(x.genome_id): x for x in gset.genomes}
		taxon = session.query(Taxon).order_by(Taxon.id).first()
		for pk in sorted(cur):
			if cur[pk][6] and not tgt[pk][6]:
				session.delete(annotated[pk])
				n += 1
			elif tgt[pk][6] and not cur[pk][6]:
				session.add(AnnotatedGenome(genome_set=gset, genome=objs[pk], taxon=taxon, organism=f'organism {pk}'))
				n += 1
		if how == 'commit':
			session.commit()
		else:
			session.flush()
		G['g'] = gi2
		rows = sorted(self._genome_rows(session, gset.genomes.all()))
		want = sorted(list(r[:5]) for r in tgt.values() if r[6])
		if rows != want:
			raise RuntimeError(f'edit: the genome set reads {rows} through its session after the edit, the table says {want}')
		return n

	def _bad_query(self, db, how, P, Q):
		from gambit.query import query
		from gambit.metric import jaccarddist_matrix
		try:
			if how == 'iter-raises':
				def it():
					yield Q[0]
					raise RuntimeError("the caller's iterator failed")
				query(db, it(), P)
			elif how == 'empty':
				query(db, [], P)
			elif how == 'float-query':      # fails in the middle of the matrix, after the first row has been computed
				query(db, [Q[0], Q[0].astype(float), Q[0]], P)
			elif how == 'inputs-short':
				query(db, Q + Q, P, inputs=['only-one'])
			else:
				jaccarddist_matrix(Q, db.signatures, ref_indices=db.sig_indices, out=np.empty((len(Q) + 1, 1), np.float32), chunksize=P.chunksize)
			return 'returned'
		except Exception as e:     # noqa
			return type(e).__name__

	def _bad_load(self, st, dn, how):
		d = self.dirs[dn]
		copy = os.path.join(self.root, 'damaged')
		shutil.rmtree(copy, ignore_errors=True)
		shutil.copytree(d['path'], copy)
		gname, sname = SEQ_NAMES[d['names']]
		target = copy
		if how == 'truncated-sigs':
			size = os.path.getsize(os.path.join(copy, sname))
			with open(os.path.join(copy, sname), 'r+b') as f:
				f.truncate(size // 2)
		elif how in ('junk-sigs', 'junk-genomes'):
			with open(os.path.join(copy, sname if how == 'junk-sigs' else gname), 'w') as f:
				f.write('not a database\n')
		elif how == 'no-sigs':
			os.remove(os.path.join(copy, sname))
		elif how == 'two-sigs':
			shutil.copyfile(os.path.join(copy, sname), os.path.join(copy, 'second.h5'))
		elif how == 'wrong-genome-name':
			return self._wrong_genome_name(st, d, copy, gname, sname)
		else:
			target = os.path.join(copy, 'nothing-here')
		cc = dict(seq_combined(self.case, d['g'], d['s'], 0, 0), via='dir')
		o = open_db(cc, target)
		what = None
		try:
			if o[0] == 'ok':
				if how in ('no-sigs', 'two-sigs', 'missing-dir', 'junk-sigs', 'junk-genomes'):
					what = f'load_from_dir produced a database from a damaged directory ({how})'
				else:      # what such a file still yields is not the property's business; the pairing is
					pairs = [(int(k), int(g.genome_id)) for g, k in zip(o[1].genomes, o[1].sig_indices)]
					what = judge_outcome(cc, oracle(cc), ('ok', pairs, None, None))
		finally:
			if o[0] == 'ok':
				_close(o[1])
			shutil.rmtree(copy, ignore_errors=True)
		self.trace.append(f'{st}: {o[0] if o[0] == "ok" else o}')
		self.ctx.count(f'seq:badload {how}: ' + ('gives a database' if o[0] == 'ok' else o[1]))
		return what

	def _wrong_genome_name(self, st, d, copy, gname, sname):
		"""ReferenceDatabase.load is given the name of a genome file that does not exist (the other extension); it must fail,
		and the directory must load afterwards exactly as it would have before"""
		from gambit.db import ReferenceDatabase
		stem, ext = os.path.splitext(gname)
		wrong = stem + ('.db' if ext == '.gdb' else '.gdb')
		was = dir_print(copy)
		try:
			db = ReferenceDatabase.load(os.path.join(copy, wrong), os.path.join(copy, sname))
			_close(db)
			first = 'gives a database'
		except Exception as e:     # noqa
			first = type(e).__name__
		now = dir_print(copy)
		cc = dict(seq_combined(self.case, d['g'], d['s'], 0, 0), via='dir')
		o = open_db(cc, copy)
		what = None
		try:
			if first == 'gives a database':
				what = f'ReferenceDatabase.load produced a database from the genome file {wrong!r}, which does not exist'
			elif o[0] == 'ok':
				what = self._observe(o[1], d['g'], d['s'], 0, 0, 'params')[1]
			else:
				what = self._failed(d['g'], d['s'], o[1])
			if first != 'gives a database' and now == sorted(was + [[wrong, EMPTY_SHA1]]):
				# KNOWN DEFECT (module docstring, repo_fixes/C04-load-creates-missing-genome-file.diff): the failed call created an
				# empty file under the wrong name; the directory now holds two genome files and no longer loads
				self.ctx.count('seq:KNOWN-DEFECT a failing load created the missing genome file' +
				               (', the directory no longer loads' if what else '') + '; not judged')
				what = None
			elif not what and now != was:
				what = f'a failing ReferenceDatabase.load changed the directory: {was} -> {now}'
		finally:
			if o[0] == 'ok':
				_close(o[1])
			shutil.rmtree(copy, ignore_errors=True)
		self.trace.append(f'{st}: load({wrong!r}, ...) {first}, directory afterwards {[x[0] for x in now]}, load_from_dir then {o[0] if o[0] == "ok" else o}')
		self.ctx.count(f'seq:badload wrong-genome-name: {first}, load_from_dir afterwards ' + ('gives a database' if o[0] == 'ok' else 'fails'))
		return what

	def _cli(self, st, d, fmt):
		from click.testing import CliRunner
		import gambit.cli
		cc = seq_combined(self.case, d['g'], d['s'])
		orc = oracle(cc)
		_S['n'] += 1
		out = os.path.join(_S['root'], f'out{_S["n"]}.{fmt}')
		gname, sname = SEQ_NAMES[d['names']]
		r = None
		try:
			r = CliRunner().invoke(gambit.cli.cli, ['-d', d['path'], 'query', '-f', fmt, '-o', out, '--no-progress', '-s', _S['qfile']])
			data = cli_entries(fmt, out) if r.exit_code == 0 else None
		except Exception as e:     # noqa
			data = f'{type(e).__name__}: {e}'
		finally:
			if os.path.exists(out):
				os.remove(out)
		self.trace.append(f'{st}: {data if isinstance(data, list) else "error exit"}')
		self.ctx.count('seq:cli ' + ('results' if isinstance(data, list) else 'error exit'))
		what = judge_cli(cc, orc, data, _S['table'], [gname], [sname], r)
		if not what and isinstance(data, list) and nontrivial_load(cc, orc):
			self.nontrivial = True
		return what or self._same(['cli', d['g'], d['s'], d['names'], fmt], data if isinstance(data, list) else 'error', 'the same command line')

	def finish(self):
		"""results handed out earlier still say what they said"""
		for text, extract, was in self.kept:
			try:
				now = extract()
			except Exception:     # noqa: e.g. an ORM object whose session is gone; not judged
				self.ctx.count('seq:earlier result could not be read again')
				continue
			if now != was:
				return f'{text} changed after later calls: {was} -> {now}'
		return None


def k_seq(ctx, cases):
	"""sequence cases (see the comment block above): every step is judged by the property predicate of the single-call
	kinds on the load case that the genome database and the signature collection it uses make together; after every step the
	caller's objects, the open databases and the files must be what they were; the same call must give the same result;
	results handed out earlier must not change."""
	for c in cases:
		if not seq_validate(c):
			ctx.count('invalid-case-skipped')
			continue
		run = _SeqRun(ctx, c)
		where = None
		try:
			for n, st in enumerate(c['steps']):
				if run.step(st) == 'skipped':
					ctx.count('seq:step-skipped (slot not open)')
					continue
				ctx.count('seq:step:' + st[0])
				if run.what:
					where = f'step {n} {st}'
					break
			if not run.what:
				run.what = run.finish()
				where = 'at the end'
		except Exception as e:     # noqa: the harness could not run the script
			import traceback
			ctx.broke('seq: harness could not run the case', f'{c}: {type(e).__name__}: {e} {traceback.format_exc()[-600:]}')
			run.what = None
		finally:
			run.close_all()
		reused = sum(1 for v in run.used.values() if v >= 2)
		ctx.case(c, nontrivial=run.evaluated >= 2 and reused >= 1 and run.nontrivial)
		ctx.count('seq:shared objects used by >= 2 steps', reused)
		if run.what:
			ctx.violation('seq', c, f'{where}: {run.what}', impl=run.trace, spec='every step judged on its own genome database + signature collection; '
			              "caller's objects, open databases and files unchanged; same call, same result")


KINDS = {'load': k_load, 'dir': k_dir, 'cli': k_cli, 'multi': k_multi, 'match': k_match, 'seq': k_seq}


# ------------------------------------------------------------------------------------------------
# generators
# ------------------------------------------------------------------------------------------------

def mk_genomes(n, extra_rows=0, holes=None, ncbi_dbs=('assembly',)):
	"""n genomes in the set + extra_rows genome rows outside it; every identifier column filled unless `holes`
	maps (row, column) to None"""
	rows = []
	for i in range(n + extra_rows):
		pk = i + 1
		row = [pk, f'key/{pk}', f'GCA_{100 + pk}.1', f'GCF_{100 + pk}.1', 5000 + pk, ncbi_dbs[i % len(ncbi_dbs)], i < n]
		rows.append(row)
	for (r, col), v in (holes or {}).items():
		rows[r][col] = v
	return rows


def sig_ids_for(genomes, attr_col):
	return [g[attr_col] for g in genomes]


def foreign_id(attr, j):
	return 900000 + j if attr == 'ncbi_id' else f'unrelated-{j}'


def load_case(attr, genomes, sigs, chunksize=None, queries=(0, 1), via='dir', report=3):
	return dict(attr=attr, genomes=genomes, sigs=[list(s) for s in sigs], chunksize=chunksize, queries=list(queries), via=via, report=report)


def complete_sigs(genomes, attr, order, extras_at=()):
	"""one signature per in-set genome (genome i gets pool signature i), in `order`, with unrelated signatures
	inserted at the positions `extras_at`"""
	col = 1 + ATTRS.index(attr)
	inset = [g for g in genomes if g[6]]
	sigs = [[inset[i][col], i] for i in order]
	for n, pos in enumerate(sorted(extras_at)):
		sigs.insert(min(pos, len(sigs)), [foreign_id(attr, n), NPOOL - 1 - (n % 6)])
	return sigs


STR_ODD = ['', ' ', 'a', 'A', 'a ', ' a', 'a\t', '\u00e9', 'e\u0301', '\u00c9', 'key/1', 'key/10', 'key/01', 'KEY/1', '5001', '05001',
           '5001.0', '-1', '0', 'None', 'null', 'NULL', 'nan', 'x' * 300, 'a b', 'a,b', "a'b", 'a"b', 'a\\b', 'a/b', 'a\nb',
           '\u540d\u524d', '\U0001f600', 'GCA_000001.1', 'GCA_000001.2', 'GCA_000001', 'gca_000001.1', ' GCA_000001.1', '%', '_', 'a%',
           'a_', 'True', 'b\'x\'']
INT_ODD = [0, -1, 1, 2, 10, -2 ** 63, 2 ** 63 - 1, 2 ** 31, 2 ** 31 - 1, -2 ** 31, 2 ** 32, 2 ** 32 + 1, 255, 256, 65535, 65536, 5001,
           5010, 50010, 501, -5001]
NOT_ID_ATTRS = ['', ' ', 'Key', 'KEY', ' key', 'key ', 'key\n', 'keys', 'ke', 'genome_id', 'genome.key', 'Genome.key', 'ncbi_db',
                'description', 'id', 'extra', 'annotations', 'ID_ATTRS', 'metadata', '__tablename__', 'genbank', 'refseq', 'ncbi',
                'ncbi_id,key', 'NCBI_ID', 'refseq_acc ', 'organism', 'taxon', 'None', '0', 'k\u0435y']


def values_genomes(attr, values, extra_values=()):
	"""genome rows whose `attr` column holds `values` (in the set) and `extra_values` (rows outside the set); the other
	identifier columns keep the plain values of mk_genomes"""
	rows = mk_genomes(len(values), extra_rows=len(extra_values))
	col = 1 + ATTRS.index(attr)
	for r, v in zip(rows, list(values) + list(extra_values)):
		r[col] = v
	return rows


def pad_randomly(rng, sigs, pad_ids, first_pool):
	"""insert unrelated signatures (identifiers pad_ids, pool signatures first_pool..NPOOL-1) at random positions"""
	out = [list(x) for x in sigs]
	for v in pad_ids:
		out.insert(rng.randint(0, len(out)), [v, rng.randrange(first_pool, NPOOL) if first_pool < NPOOL else NPOOL - 1])
	return out


def odd_values_case(rng, attr, force_falsy=False, cross=False):
	odd = INT_ODD if attr == 'ncbi_id' else STR_ODD
	n = rng.choice([1, 2, 3, 4, 6])
	vals = rng.sample(odd, n + rng.choice([0, 1, 2]))
	inset, outset = vals[:n], vals[n:]
	if force_falsy:
		falsy = 0 if attr == 'ncbi_id' else ''
		if falsy not in inset:
			outset = [v for v in outset if v != falsy]
			inset[0] = falsy
	genomes = values_genomes(attr, inset, outset)
	if cross and attr != 'ncbi_id':
		# the OTHER string identifier columns hold the same values, shifted by one genome: an identifier of genome i under
		# the named attribute is also the identifier of genome i+1 under another attribute
		col = 1 + ATTRS.index(attr)
		allv = [g[col] for g in genomes]
		for shift, oc in enumerate([c for c in (1, 2, 3) if c != col], 1):
			for r, g in enumerate(genomes):
				g[oc] = allv[(r + shift) % len(allv)]
	order = list(range(n))
	rng.shuffle(order)
	sigs = [[inset[j], j] for j in order]
	rest = [v for v in odd if v not in inset]
	pads = rng.sample(rest, min(len(rest), rng.choice([0, 2, 5, 12])))
	sigs = pad_randomly(rng, sigs, pads, n)
	r = rng.random()
	if r < 0.12:       # the genome's signature is missing: only near misses of its identifier remain
		victim = rng.choice(inset)
		sigs = [x for x in sigs if not same_id(x[0], victim)]
	elif r < 0.2:      # ... or is stored twice
		sigs.insert(rng.randint(0, len(sigs)), [rng.choice(inset), NPOOL - 1])
	return genomes, sigs


def gen_identifier_values(ctx, rng):
	"""identifier VALUES: falsy but present (0, ''), extreme integers, white space, letter case, Unicode (composed vs
	decomposed), digit strings, long strings; the unrelated signatures carry near misses of the genomes' identifiers;
	the same strings also stored in the other identifier columns of other genomes"""
	n_v = 0
	for i in range(ctx.pick(100, 1200)):
		attr = ATTRS[i % 4]
		genomes, sigs = odd_values_case(rng, attr, force_falsy=(i < 8 or rng.random() < 0.3), cross=(i % 3 == 2))
		if not sigs:
			sigs = [[foreign_id(attr, 0), NPOOL - 1]]
		if attr == 'ncbi_id':
			store = rng.choice([None, 'i8', '>i8'] + (['u8'] if all(x[0] >= 0 for x in sigs) else []))
		else:
			store = rng.choice([None, 'O', 'U', 'S'])
		via = rng.choice(['dir', 'dir', 'ctor', 'mem'])
		c = load_case(attr, genomes, sigs, rng.choice([None, 1, 2, 5]), rng.sample(range(NQUERY), 2), via=via, report=rng.choice([1, 3, 10]))
		if via == 'mem':
			c['mem'] = [rng.choice(MEM_SIGS), rng.choice(['list', 'tuple', 'npscalars', 'strided'] + (['O'] if attr != 'ncbi_id' else ['i8']))]
		else:
			c['ids_as'] = store
		yield 'load', c
		n_v += 1
	ctx.count('stream:identifier-values', n_v)


def gen_heavy_padding(ctx, rng):
	"""however many unrelated signatures: tens to hundreds of them, some stored under the identifiers of genome rows
	that are NOT in the genome set, rows outside the set without a value (NULL) for the attribute"""
	n_h = 0
	for i in range(ctx.pick(28, 200)):
		attr = ATTRS[i % 4]
		col = 1 + ATTRS.index(attr)
		n = [1, 3, 8, 14][(i // 4) % 4]
		n_out = rng.choice([0, 2, 5])
		holes = {}
		if attr != 'key':
			for r in range(n, n + n_out):
				if rng.random() < 0.5:
					holes[(r, col)] = None
		genomes = mk_genomes(n, extra_rows=n_out, holes=holes)
		if attr == 'ncbi_id':     # rows outside the set carrying the ncbi_id of a genome of the set (other ncbi_db)
			for r in range(n, n + n_out):
				if genomes[r][4] is not None and rng.random() < 0.6:
					genomes[r][4], genomes[r][5] = genomes[(r - n) % n][4], f'db{r}'
		order = list(range(n))
		rng.shuffle(order)
		sigs = [[genomes[j][col], j] for j in order]
		n_pad = rng.choice([30, 60, 120, 300]) if ctx.quick else rng.choice([30, 300, 1000, 3000])
		pads = [foreign_id(attr, j) for j in range(n_pad)]
		inset_vals = [g[col] for g in genomes[:n]]
		pads += [g[col] for g in genomes[n:] if g[col] is not None and g[col] not in inset_vals]      # identifiers of rows outside the set
		where = rng.choice(['random', 'front', 'back', 'between'])
		if where == 'random':
			sigs = pad_randomly(rng, sigs, pads, n)
		else:
			padsigs = [[v, rng.randrange(n, NPOOL)] for v in pads]
			if where == 'front':
				sigs = padsigs + sigs
			elif where == 'back':
				sigs = sigs + padsigs
			else:
				sigs = sigs[:1] + padsigs + sigs[1:]
		if rng.random() < 0.15:
			victim = genomes[rng.randrange(n)][col]
			sigs = [x for x in sigs if not same_id(x[0], victim)]
		yield 'load', load_case(attr, genomes, sigs, rng.choice([None, 1, 3, 16, 1000]), [rng.randrange(NQUERY)],
		                        via=rng.choice(['dir', 'ctor']), report=rng.choice([1, 5, 50]))
		n_h += 1
	ctx.count('stream:heavy-padding', n_h)


SIZE_PALETTES = [(0, 1), (0, 1, 2), (1, 2, 3), (0, 1, 2, 3), (1, 1, 2), (2, 4, 6), (3,), (0, 0, 1, 5), (1, 2, 3, 4, 5, 6), (0, 1, 2, 3, 4, 5, 6)]
SIZE_VIAS = [('dir', None), ('ctor', None), ('mem', ['array', 'list']), ('load', None), ('dir', None), ('mem', ['list', 'tuple']),
             ('ctor', None), ('mem', ['array', 'npscalars'])]
SIZE_CHUNKS = [None, 1, 2, 1000, 3, None, 2, 5]
GENOME_VARIANTS = 5      # contents 0..4 of a size go to genomes, 5..SMALL_VARIANTS-1 to unrelated signatures


def size_layouts():
	"""the enumerated part of stream size-structure: file layouts [(is a genome's signature, number of k-mers) ...] in which sums and
	differences of the sizes of neighbouring signatures coincide in every way a small scope allows"""
	out = []
	for a, b, c in itertools.product(range(4), repeat=3):                 # g(a) x(b) g(c): a+b=c, a=b+c, a=c, b=0, a=0 ... all of them
		out.append([(True, a), (False, b), (True, c)])
	for a, c in itertools.product(range(SMALL_MAX + 1), repeat=2):        # g(a) g(c): adjacent genomes, equal sizes, zero-length ones
		if a == c or a == 0 or c == 0 or abs(a - c) == 1:
			out.append([(True, a), (True, c)])
	for a, b, c in itertools.product(range(3), repeat=3):                 # g(a) x(b) x(c) g(a+b+c) and its mirror image
		out.append([(True, a), (False, b), (False, c), (True, a + b + c)])
		out.append([(True, a + b + c), (False, b), (False, c), (True, a)])
	for a in range(1, 4):                                                 # g(a) x(a) g(2a) x(2a) g(4a)...: three genomes, repeated coincidence
		out.append([(True, a), (False, a), (True, 2 * a), (False, a), (True, min(3 * a, SMALL_MAX))])
		out.append([(True, a), (False, a), (True, a), (False, a), (True, a)])
		out.append([(True, a), (True, a), (False, a), (True, 2 * a)])
		out.append([(False, a), (True, a), (False, 2 * a), (True, 2 * a), (True, a)])
	for a, b in itertools.product(range(3), repeat=2):                    # three genomes g(a) x(b) g(a+b) x(a) g(2a+b) and g x g g
		out.append([(True, a), (False, b), (True, a + b), (False, a), (True, 2 * a + b)])
		out.append([(True, a), (False, b), (True, a + b), (True, b)])
	return out


def size_case(rng, attr, layout, chunksize, via, mem=None, drop=None, big_pads=0):
	"""layout [(is genome, size) ...] in file order -> load case: genome j of the set owns the j-th genome signature of a random
	permutation, every genome signature has its own content (variants 0..GENOME_VARIANTS-1 of its size; an empty signature is
	empty), unrelated signatures take the other variants"""
	n = sum(1 for g, _ in layout if g)
	genomes = mk_genomes(n, extra_rows=rng.choice([0, 1]))
	col = 1 + ATTRS.index(attr)
	owner = list(range(n))
	rng.shuffle(owner)
	used = {}
	sigs, gi = [], 0
	for pos, (is_g, size) in enumerate(layout):
		if is_g:
			v = used.get(size, 0)
			used[size] = v + 1
			sigs.append([genomes[owner[gi]][col], small_index(size, v % GENOME_VARIANTS)])
			gi += 1
		else:
			sigs.append([foreign_id(attr, pos), small_index(size, GENOME_VARIANTS + rng.randrange(SMALL_VARIANTS - GENOME_VARIANTS))])
	for j in range(big_pads):      # ordinary (long) unrelated signatures around the small ones
		sigs.insert(rng.choice([0, len(sigs), rng.randint(0, len(sigs))]), [foreign_id(attr, 500 + j), rng.randrange(NPOOL)])
	if drop is not None and n:
		victim = genomes[drop % n][col]
		sigs = [x for x in sigs if not same_id(x[0], victim)]
	c = load_case(attr, genomes, sigs, chunksize, list(range(NQUERY)), via=via, report=rng.choice([1, 3, 10]))
	if via == 'mem':
		c['mem'] = list(mem or ['array', 'list'])
	return c


def gen_size_structure(ctx, rng):
	"""SIZE STRUCTURE of the signature file: the k-mer COUNTS of neighbouring signatures (genomes' and unrelated ones) stand in
	arithmetic relations -- equal, zero, one the sum / difference of others -- which signatures of random length never show.
	Whatever the sizes, every genome must still be compared through its own signature: the selection of the genomes' signatures out
	of the file (HDF5 data set or in-memory array / list) works on offsets into ONE concatenated array of k-mers, where such
	coincidences decide which ranges look contiguous.  Enumerated layouts (size_layouts), with and without further signatures in
	front, then random layouts over small size palettes; all four identifier attributes, file / constructor / load() / in-memory
	SignatureArray and SignatureList, chunk sizes 1 / 2 / 3 / 5 / 1000 / None, k-mers stored as u2 / u4 / u8 / i4 / i8, all four
	queries; a few through the command line and with a genome's signature missing (must fail)."""
	n_s = 0
	layouts = size_layouts()
	for i, layout in enumerate(layouts * ctx.pick(1, 4)):
		lay = list(layout)
		r = i % 4
		if r == 1:      # something stored in front: the first genome signature does not start at offset 0
			lay = [(False, rng.choice([0, 1, 2, 3]))] + lay
		elif r == 2:
			lay = lay + [(False, rng.choice([0, 1, 2]))]
		elif r == 3 and rng.random() < 0.5:
			lay = [(True, rng.choice([0, 1, 2]))] + lay
		via, mem = SIZE_VIAS[(i // 4 + i) % len(SIZE_VIAS)]
		n = sum(1 for g, _ in lay if g)
		cs = SIZE_CHUNKS[(i // 3) % len(SIZE_CHUNKS)]
		if cs == 1 and i % 2:      # the genomes of a coincidence have to meet in one chunk to be selected together
			cs = n
		c = size_case(rng, ATTRS[i % 4], lay, cs, via, mem, big_pads=2 if i % 9 == 4 else 0)
		if i % 5 == 0:
			c['sig_dtype'] = SIG_DTYPES[(i // 5) % len(SIG_DTYPES)]
		yield 'load', c
		n_s += 1
	ctx.count('stream:size-structure enumerated layouts', n_s)
	n_r = 0
	for i in range(ctx.pick(250, 2500)):
		pal = SIZE_PALETTES[i % len(SIZE_PALETTES)]
		n = rng.choice([2, 3, 4, 6, 9])
		left = {s: GENOME_VARIANTS for s in set(pal)}
		lay, have = [], 0
		while have < n:
			if rng.random() < 0.45:
				lay.append((False, rng.choice(pal)))
				continue
			ok = [s for s in pal if s == 0 or left[s] > 0]
			if not ok:
				break
			s = rng.choice(ok)
			left[s] -= 1
			lay.append((True, s))
			have += 1
		for _ in range(rng.choice([0, 0, 1, 3])):
			lay.append((False, rng.choice(pal)))
		via, mem = SIZE_VIAS[rng.randrange(len(SIZE_VIAS))]
		c = size_case(rng, ATTRS[i % 4], lay, rng.choice([None, None, 1, 2, 3, 4, 1000]), via, mem,
		              drop=rng.randrange(100) if rng.random() < 0.06 else None, big_pads=rng.choice([0, 0, 0, 1, 4]))
		if rng.random() < 0.25:
			c['sig_dtype'] = rng.choice(SIG_DTYPES)
		if via != 'mem' and rng.random() < 0.3:
			c['ids_as'] = rng.choice(['i8', '>i8', 'u8']) if c['attr'] == 'ncbi_id' else rng.choice(STR_STORE)
		if i % 25 == 7 and via == 'dir':
			c['fmt'] = rng.choice(['json', 'archive'])
			yield 'cli', c
		else:
			yield 'load', c
		n_r += 1
	ctx.count('stream:size-structure random palettes', n_r)
	ctx.count('stream:size-structure', n_s + n_r)


def gen_id_storage(ctx, rng):
	"""how the identifiers are STORED: HDF5 strings written from object / NumPy unicode / bytes arrays, every integer
	width (signed and unsigned), and in-memory collections (SignatureList / SignatureArray; identifiers as list, tuple,
	NumPy scalars, arrays) handed to the constructor"""
	n_s = 0
	forms = []
	for attr in ATTRS[:3]:
		forms += [(attr, 'file', st) for st in STR_STORE]
		forms += [(attr, 'mem', [MEM_SIGS[j % 2], idf]) for j, idf in enumerate(('list', 'tuple', 'npscalars', 'strided', 'O', 'U'))]
	forms += [('ncbi_id', 'file', st) for st in INT_STORE]
	forms += [('ncbi_id', 'mem', [MEM_SIGS[j % 2], idf]) for j, idf in enumerate(('list', 'tuple', 'npscalars', 'strided', 'i8', 'i4', 'u8', 'u2', 'i1', '>i4', '>u8'))]
	reps = ctx.pick(2, 12)
	for attr, where, form in forms:
		for rep in range(reps):
			n = rng.choice([2, 3, 5])
			col = 1 + ATTRS.index(attr)
			code = form if where == 'file' else form[1]
			if attr == 'ncbi_id':
				info = np.iinfo(np.dtype(code)) if code in INT_STORE else np.iinfo(np.int64)
				lo, hi = max(info.min, -2 ** 63), min(info.max, 2 ** 63 - 1)
				space = sorted({lo, hi, 0, 1, min(hi, 100), max(lo, -7) if lo < 0 else 7} | {rng.randint(lo, hi) for _ in range(n + 8)})
				vals = rng.sample(space, n + 4)
				genomes = values_genomes(attr, vals[:n], vals[n:n + 1])
				pads = vals[n + 1:]
			else:
				genomes = mk_genomes(n, extra_rows=1)
				pads = [foreign_id(attr, j) for j in range(3)]
			order = list(range(n))
			rng.shuffle(order)
			sigs = pad_randomly(rng, [[genomes[j][col], j] for j in order], pads[:rng.choice([0, 1, 3])], n)
			if rep % 2 == 1 and rng.random() < 0.5:
				del sigs[rng.randrange(len(sigs))]
			c = load_case(attr, genomes, sigs, rng.choice([None, 2]), [rng.randrange(NQUERY)], via='dir' if where == 'file' else 'mem')
			if where == 'file':
				c['ids_as'] = form
				c['via'] = rng.choice(['dir', 'ctor'])
			else:
				c['mem'] = list(form)
			c['sig_dtype'] = rng.choice((None,) + SIG_DTYPES)
			yield 'load', c
			n_s += 1
	ctx.count('stream:id-storage', n_s)


FILE_NAMES = [['g.db', 's.h5'], ['refs.gdb', 'refs.h5'], ['refs.db', 'refs.gs'], ['\u00e9 x.gdb', 'x.tar.h5'], ['.a.db', 'b..gs'],
              ['a#b.gdb', 'a#b.gs'], ['a%41.db', 'a%41.h5'], ['a&b=c;d.gdb', "q'\"x.gs"], ['a\nb.gdb', 'a\nb.h5'], ['-d.db', '-o.gs']]
LOAD_NAMES = [['genomes.sqlite', 'signatures.hdf5'], ['a', 'b'], ['x.gs', 'y.gdb'], ['db.gdb.bak', 'db.gs.bak'], ['G', 'g'], ['1.db', '2.db'],
              ['s.h5', 's.gs']]


def gen_entry_forms(ctx, rng):
	"""the ways in: ReferenceDatabase.load(genome file, signature file) with any file names (str / Path),
	load_from_dir with the directory as str / Path / with a trailing separator / relative / through a symbolic link, every
	accepted extension pair and unusual file names, query() in its call forms (QueryParams / keyword arguments / defaults
	/ inputs=), the same query given more than once"""
	n_e = 0
	combos = [dict(via='load', names=nm, dirarg=da) for nm in LOAD_NAMES for da in ('str', 'path')]
	combos += [dict(via='dir', names=nm, dirarg=DIRARGS[i % len(DIRARGS)]) for i, nm in enumerate(FILE_NAMES)]
	combos += [dict(via='dir', dirarg=da) for da in DIRARGS]
	combos += [dict(via='ctor', names=nm) for nm in FILE_NAMES[:4]]
	combos += [dict(via='mem', mem=[sf, 'list']) for sf in MEM_SIGS]
	for i, extra in enumerate(combos * ctx.pick(2, 8)):
		attr = ATTRS[i % 4]
		col = 1 + ATTRS.index(attr)
		n = rng.choice([2, 3, 6])
		genomes = mk_genomes(n, extra_rows=rng.choice([0, 1]))
		order = list(range(n))
		rng.shuffle(order)
		sigs = pad_randomly(rng, [[genomes[j][col], j] for j in order], [foreign_id(attr, j) for j in range(rng.choice([0, 2, 4]))], n)
		r = rng.random()
		if r < 0.1:
			del sigs[rng.randrange(len(sigs))]
		elif r < 0.15:
			sigs.append([genomes[0][col], NPOOL - 1])
		qs = [rng.randrange(NQUERY) for _ in range(rng.choice([1, 2, 3, 5]))]      # repeats on purpose
		c = load_case(None if r > 0.96 else attr, genomes, sigs, rng.choice([None, 1, 2, 4]), qs, report=rng.choice([1, 2, 10]))
		c.update(extra)
		c['qform'] = QFORMS[i % len(QFORMS)]
		c['kwcall'] = (i // 2) % 2 == 1
		yield 'load', c
		n_e += 1
	ctx.count('stream:entry-forms', n_e)


def gen_not_id_attrs(ctx, rng):
	"""the metadata names something that is not one of the four identifier attributes -- including real columns and
	attributes of the genome table (description, id, ncbi_db ...) whose VALUES the signature file then carries, near
	misses of the four names, the empty string"""
	n_a = 0
	for name in NOT_ID_ATTRS:
		n = rng.choice([1, 2, 3])
		genomes = mk_genomes(n, extra_rows=1)
		if name.strip().lower() in ATTRS or name in ('keys', 'ke', 'k\u0435y', 'genome.key', 'Genome.key'):
			stored = [[g[1 + ATTRS.index(name.strip().lower())] if name.strip().lower() in ATTRS else g[1], j] for j, g in enumerate(genomes[:n])]
		elif name == 'description':
			stored = [[f'genome {g[0]}', j] for j, g in enumerate(genomes[:n])]
		elif name in ('id', 'genome_id'):
			stored = [[g[0], j] for j, g in enumerate(genomes[:n])]
		elif name == 'ncbi_db':
			stored = [[g[5], j] for j, g in enumerate(genomes[:1])]
		elif name == 'organism':
			stored = [[f'organism {g[0]}', j] for j, g in enumerate(genomes[:n])]
		else:
			stored = [[g[1], j] for j, g in enumerate(genomes[:n])]
		stored.reverse()
		for via in ('dir', ('ctor', 'mem')[n_a % 2]):
			c = load_case(name, genomes, stored, None, [0], via=via)
			if via == 'mem':
				c['mem'] = ['list', 'list']
			yield 'load', c
			n_a += 1
	ctx.count('stream:not-identifier-attributes', n_a)


def simple_case(rng, attr=None, n=None, defect=None, **kw):
	"""a complete (or, with defect, broken) shuffled and padded case"""
	attr = attr or rng.choice(ATTRS)
	col = 1 + ATTRS.index(attr)
	n = n or rng.choice([2, 3, 5])
	genomes = mk_genomes(n, extra_rows=1)
	order = list(range(n))
	rng.shuffle(order)
	sigs = pad_randomly(rng, [[genomes[j][col], j] for j in order], [foreign_id(attr, j) for j in range(rng.choice([0, 1, 3]))], n)
	if defect == 'missing':
		victim = genomes[rng.randrange(n)][col]
		sigs = [x for x in sigs if not same_id(x[0], victim)]
	elif defect == 'repeat':
		sigs.append([genomes[rng.randrange(n)][col], NPOOL - 1])
	elif defect == 'noattr':
		attr = None
	return load_case(attr, genomes, sigs, kw.pop('chunksize', rng.choice([None, 1, 2])), kw.pop('queries', [rng.randrange(NQUERY)]), **kw)


def gen_compound(ctx, rng):
	"""several things at once: two or three completeness defects in one file (two genomes missing, one missing and
	another stored twice, a NULL value and a missing signature, wrong attribute and a repeat ...), and harmless
	oddities that must NOT stop loading (an unrelated identifier stored several times, unrelated signatures that are
	copies of a genome's signature, rows outside the set without values)"""
	n_c = 0
	defects = ['missing', 'missing', 'repeat', 'null', 'foreign-for-own', 'outset-for-own']
	harmless = ['repeat-unrelated', 'copy-of-own-signature', 'outset-null', 'many-unrelated-same-signature']
	for i in range(ctx.pick(96, 800)):
		attr = ATTRS[i % 4]
		col = 1 + ATTRS.index(attr)
		n = rng.choice([2, 3, 5, 8])
		genomes = mk_genomes(n, extra_rows=2)
		order = list(range(n))
		rng.shuffle(order)
		sigs = pad_randomly(rng, [[genomes[j][col], j] for j in order], [foreign_id(attr, j) for j in range(rng.choice([1, 3]))], n)
		todo = rng.sample(defects, rng.choice([2, 2, 3])) if i % 3 else []
		todo += rng.sample(harmless, rng.choice([1, 2]))
		for what in todo:
			own = [k for k, x in enumerate(sigs) if any(g[col] is not None and same_id(x[0], g[col]) for g in genomes[:n])]
			if what == 'missing' and own:
				del sigs[rng.choice(own)]
			elif what == 'repeat' and own:
				sigs.insert(rng.randint(0, len(sigs)), [sigs[rng.choice(own)][0], NPOOL - 1])
			elif what == 'null' and attr != 'key':
				genomes[rng.randrange(n)][col] = None
			elif what == 'foreign-for-own' and own:
				sigs[rng.choice(own)][0] = foreign_id(attr, 50 + i)
			elif what == 'outset-for-own' and own:
				k = rng.choice(own)
				if not any(same_id(x[0], genomes[n][col]) for x in sigs):
					sigs[k][0] = genomes[n][col]
			elif what == 'repeat-unrelated':
				sigs.insert(rng.randint(0, len(sigs)), [foreign_id(attr, 0), NPOOL - 2])
				sigs.insert(rng.randint(0, len(sigs)), [foreign_id(attr, 0), NPOOL - 3])
			elif what == 'copy-of-own-signature':
				sigs.insert(rng.randint(0, len(sigs)), [foreign_id(attr, 70), rng.randrange(n)])
			elif what == 'outset-null' and attr != 'key':
				genomes[n + 1][col] = None
			elif what == 'many-unrelated-same-signature':
				for j in range(5):
					sigs.insert(rng.randint(0, len(sigs)), [foreign_id(attr, 80 + j), NPOOL - 1])
		yield 'load', load_case(attr, genomes, sigs, rng.choice([None, 1, 2, 3]), [rng.randrange(NQUERY)], via=rng.choice(['dir', 'ctor']),
		                        report=rng.choice([1, 3, 20]))
		n_c += 1
	ctx.count('stream:compound-defects-and-harmless-oddities', n_c)


def gen_multi(ctx, rng):
	"""several databases open at the same time and objects reused across loads: different databases side by side
	(some of which fail to load), one opened signature file handed to the constructor for several genome databases
	(same identifiers, different genome sets), the same directory loaded twice; then the open databases queried in
	an interleaved order, some of them repeatedly"""
	n_m = 0
	for i in range(ctx.pick(36, 300)):
		share = [None, None, 'sigs', 'dir'][i % 4]
		k = rng.choice([2, 2, 3])
		if share is None:
			dbs = [simple_case(rng, defect=rng.choice([None, None, None, 'missing', 'repeat', 'noattr']),
			                   via=rng.choice(['dir', 'ctor', 'load', 'mem'])) for _ in range(k)]
			for c in dbs:
				if c['via'] == 'mem':
					c['mem'] = [rng.choice(MEM_SIGS), 'list']
		elif share == 'dir':
			c = simple_case(rng, defect=rng.choice([None, None, None, 'missing']), via='dir')
			dbs = [dict(c, via=rng.choice(['dir', 'ctor']), chunksize=rng.choice([None, 1, 2]), queries=[rng.randrange(NQUERY)]) for _ in range(k)]
		else:
			# one signature file: 6 identifiers; each genome database's set is a different subset of them, in its own row order
			attr = ATTRS[(i // 4) % 4]
			col = 1 + ATTRS.index(attr)
			base = mk_genomes(6)
			order = list(range(6))
			rng.shuffle(order)
			sigs = pad_randomly(rng, [[base[j][col], j] for j in order], [foreign_id(attr, j) for j in range(2)], 6)
			dbs = []
			for _ in range(k):
				members = set(rng.sample(range(6), rng.choice([2, 3, 4, 6])))
				rows = [list(g[:6]) + [g[0] - 1 in members] for g in base]
				if rng.random() < 0.2:     # a set that the file does not cover
					rows.append([7, 'key/7', 'GCA_107.1', 'GCF_107.1', 5007, 'assembly', True])
				dbs.append(load_case(attr, rows, sigs, rng.choice([None, 1, 2]), [rng.randrange(NQUERY)], via='ctor'))
		plan = [rng.randrange(len(dbs)) for _ in range(rng.choice([0, 2, 4]))]
		yield 'multi', dict(dbs=dbs, share=share, plan=plan)
		n_m += 1
	ctx.count('stream:several-databases-open-shared-objects', n_m)


def gen_match(ctx, rng):
	"""gambit.db.refdb.genomes_by_id_subset / genomes_by_id called directly: attribute given by name or as the
	Genome.<attr> object, identifiers in every container form, unrelated / repeated / out-of-set identifiers"""
	n_g = 0
	for i in range(ctx.pick(64, 600)):
		attr = ATTRS[i % 4]
		col = 1 + ATTRS.index(attr)
		n = rng.choice([1, 2, 4, 7])
		genomes = mk_genomes(n, extra_rows=rng.choice([0, 2]))
		if attr == 'ncbi_id' and n >= 2 and rng.random() < 0.2:
			genomes[1][4], genomes[1][5] = genomes[0][4], 'nuccore'      # shared ncbi_id
		ids = [g[col] for g in genomes] + [foreign_id(attr, j) for j in range(rng.choice([0, 1, 3]))]
		if rng.random() < 0.3:
			ids.append(genomes[0][col])
		if rng.random() < 0.25 and len(ids) > 1:
			del ids[rng.randrange(len(ids))]
		rng.shuffle(ids)
		forms = ['list', 'tuple', 'npscalars'] + (['i8', 'i4', 'u8'] if attr == 'ncbi_id' else ['O', 'U'])
		yield 'match', dict(attr=attr, genomes=genomes, ids=ids, attr_form=['str', 'attribute'][(i // 4) % 2], ids_form=rng.choice(forms))
		n_g += 1
	ctx.count('stream:matching-functions', n_g)


# ---- database layouts -------------------------------------------------------------------------------

LAYOUT_SHAPES = {
	# shape: dict(phased = every genome row before the first annotation row, g = order of the genome-row inserts, a = order of the
	#             annotation-row inserts, rowids = explicit rowids, later = taxa assigned in a separate pass, detours = what else happens)
	'annotated-later': dict(phased=True, g='pk', a='random'),
	'annotated-in-reverse': dict(phased=True, g='pk', a='reverse'),
	'registered-in-any-order': dict(phased=True, g='random', a='random'),
	'interleaved': dict(phased=False, g='random', a='random'),
	'explicit-rowids': dict(phased=False, g='pk', a='pk', rowids=True),
	'taxa-assigned-later': dict(phased=True, g='pk', a='random', later=True, detours=('taxon', 'taxon', 't')),
	'deleted-and-reinserted': dict(phased=False, g='pk', a='pk', detours=('da', 'da', 'dg')),
	'temporary-rows': dict(phased=False, g='pk', a='pk', detours=('tg', 'tg', 'atmp', 'atmp', 'dgtmp', 'da')),
	'two-genome-sets': dict(phased=False, g='pk', a='random', detours=('gs2', 'a2', 'a2', 'a2', 'da2', 'dgs2')),
	'maintenance': dict(phased=True, g='pk', a='random', detours=('commit', 'vacuum', 'analyze', 'da')),
	'in-one-pass': dict(phased=False, g='pk', a='pk'),      # what every other stream does (control)
}
ALL_DETOURS = ('tg', 'atmp', 'dgtmp', 'da', 'dg', 'gs2', 'a2', 'a2', 'da2', 'dgs2', 'taxon', 't', 'commit', 'vacuum', 'analyze')


def _ordered(rng, xs, how):
	xs = sorted(xs)
	if how == 'reverse':
		xs.reverse()
	elif how == 'random':
		rng.shuffle(xs)
	return xs


def random_layout(rng, genomes, shape):
	"""an op list (see LAYOUT OPS) that ends in the logical content `genomes`, as a random walk: the pending genome-row
	and annotation-row inserts are issued in their chosen orders, mixed with the shape's detours (temporary rows, deletions
	that put a row back on the pending list, a second genome set, taxa, maintenance); what the detours left behind is
	cleared away at the end"""
	if shape == 'mixed':
		f = dict(phased=rng.random() < 0.4, g=rng.choice(['pk', 'random', 'reverse']), a=rng.choice(['pk', 'random', 'random', 'reverse']),
		         rowids=rng.random() < 0.3, later=rng.random() < 0.3, detours=tuple(rng.sample(ALL_DETOURS, rng.randint(2, 8))))
	else:
		f = LAYOUT_SHAPES[shape]
	builder = 'orm' if not f.get('rowids') and rng.random() < 0.25 else 'sql'
	table = {g[0]: g for g in genomes}
	inset = {g[0] for g in genomes if g[6]}
	pend_g = _ordered(rng, table, f['g'])
	pend_a = _ordered(rng, inset, f['a'])
	detours = list(f.get('detours', ()))
	budget = rng.randint(2, 4 + len(table)) if detours else 0
	rowid_style = rng.choice(['descending', 'random', 'sparse'])
	next_desc = [rng.choice([50, 1000, ROWID_MAX])]
	ops = []
	present, tmp = set(), set()
	rows = {}            # rowid -> (pk, genome set)
	taxon_of = {}        # pk -> taxon of its current set-1 annotation row
	taxa = [1]
	set2 = vacuumed = False
	had_set2 = False

	def annotated(gs):
		return {v[0] for v in rows.values() if v[1] == gs}

	def insert_row(pk, gs):
		rowid = None
		if f.get('rowids') and not vacuumed and rng.random() < 0.8:
			if rowid_style == 'descending':
				next_desc[0] -= rng.randint(1, 3)
				rowid = next_desc[0]
			elif rowid_style == 'random':
				rowid = rng.randint(1, 3 * len(table) + 6)
			else:
				rowid = rng.choice([rng.randint(1, 40), rng.randint(2 ** 31 - 5, 2 ** 31 + 5), rng.randint(2 ** 32, ROWID_MAX)])
			if rowid < 1 or rowid in rows:
				rowid = None
		rows[rowid if rowid is not None else (max(rows) + 1 if rows else 1)] = (pk, gs)
		return rowid

	def drop_rows(pred):
		for r in [r for r, v in rows.items() if pred(v)]:
			del rows[r]

	while pend_g or pend_a or budget > 0:
		ready = [pk for pk in pend_a if pk in present] if not (f['phased'] and pend_g) else []
		choices = (['g'] * 3 if pend_g else []) + (['a'] * 3 if ready else [])
		if budget > 0:
			choices += detours
		what = rng.choice(choices)
		if what == 'g':
			pk = pend_g.pop(0)
			ops.append(['g', pk])
			present.add(pk)
			continue
		if what == 'a':
			pend_a.remove(ready[0])
			tx = None if f.get('later') else rng.choice(taxa)
			ops.append(['a', ready[0], insert_row(ready[0], 1), tx])
			taxon_of[ready[0]] = tx
			continue
		budget -= 1
		a1, a2 = annotated(1), annotated(2)
		if what == 'tg':
			space = [x for x in list(range(1, 4 * len(table) + 8)) + [max(table) + 1, max(table) + 2] if x not in table and x not in present]
			pk = rng.choice(space)
			ops.append(['tg', pk])
			present.add(pk)
			tmp.add(pk)
		elif what == 'atmp' and tmp - a1:
			pk = rng.choice(sorted(tmp - a1))
			ops.append(['a', pk, insert_row(pk, 1), rng.choice(taxa)])
			taxon_of[pk] = taxa[0]      # any non-None: temporary rows are deleted again
		elif what == 'dgtmp' and tmp:
			pk = rng.choice(sorted(tmp))
			ops.append(['dg', pk])
			tmp.discard(pk)
			present.discard(pk)
			drop_rows(lambda v: v[0] == pk)
		elif what == 'da' and a1:
			pk = rng.choice(sorted(a1))
			ops.append(['da', pk])
			drop_rows(lambda v: v == (pk, 1))
			if pk in inset:
				pend_a.insert(rng.randint(0, len(pend_a)), pk)
		elif what == 'dg' and present - tmp:
			pk = rng.choice(sorted(present - tmp))
			ops.append(['dg', pk])
			present.discard(pk)
			drop_rows(lambda v: v[0] == pk)
			pend_g.insert(rng.randint(0, len(pend_g)), pk)
			if pk in inset and pk not in pend_a:
				pend_a.insert(rng.randint(0, len(pend_a)), pk)
		elif what == 'gs2' and not set2 and not had_set2:
			ops.append(['gs2'])
			set2 = had_set2 = True
		elif what == 'a2' and set2 and present - a2:
			pk = rng.choice(sorted(present - a2))
			ops.append(['a2', pk, insert_row(pk, 2)])
		elif what == 'da2' and a2:
			pk = rng.choice(sorted(a2))
			ops.append(['da2', pk])
			drop_rows(lambda v: v == (pk, 2))
		elif what == 'dgs2' and set2 and a2:
			ops.append(['dgs2'])
			set2 = False
			drop_rows(lambda v: v[1] == 2)
		elif what == 'taxon' and len(taxa) < 4:
			taxa.append(max(taxa) + rng.randint(1, 5))
			ops.append(['taxon', taxa[-1]])
		elif what == 't' and a1:
			ops.append(['t', rng.choice(sorted(a1)), rng.choice(taxa)])
			taxon_of[ops[-1][1]] = ops[-1][2]
		elif what in ('commit', 'vacuum', 'analyze'):
			ops.append([what])
			if what == 'vacuum':
				vacuumed = True
				rows = {n + 1: rows[r] for n, r in enumerate(sorted(rows))}
	# clear away what the detours left behind, assign the taxa that are still open
	tail = [['dg', pk] for pk in _ordered(rng, tmp, 'random')]
	if set2:
		tail.append(['dgs2'])
	rng.shuffle(tail)
	ops += tail
	ops += [['t', pk, rng.choice(taxa)] for pk in _ordered(rng, [pk for pk in annotated(1) if taxon_of.get(pk) is None], 'random')]
	if 'analyze' in detours and rng.random() < 0.5:
		ops.append(['analyze'])
	ops.append(['commit'])
	return dict(ops=ops, builder=builder)


BIG_PKS = [2 ** 31 - 1, 2 ** 31, 2 ** 32 + 5, 2 ** 40 + 3, 2 ** 53 + 1, 2 ** 62]


def layout_genomes(rng, attr, n, n_out):
	"""n genomes in the set and n_out genome rows outside it, the two kinds INTERLEAVED in primary-key order; primary keys
	dense, with gaps, or huge; identifier values not monotone in the primary key; rows outside the set may lack the
	attribute or (ncbi_id) share the number of a genome of the set under another ncbi_db"""
	total = n + n_out
	style = rng.choice(['dense', 'gaps', 'gaps', 'big'])
	if style == 'dense':
		pks = list(range(1, total + 1))
	else:
		pks = rng.sample(range(1, 4 * total + 3), total)
		if style == 'big':
			for j, v in zip(rng.sample(range(total), min(total, rng.randint(1, 3))), rng.sample(BIG_PKS, 3)):
				pks[j] = v
	pks.sort()
	logical = list(range(1, total + 1))
	rng.shuffle(logical)
	members = set(rng.sample(range(total), n))
	col = 1 + ATTRS.index(attr)
	rows = []
	for r, (pk, j) in enumerate(zip(pks, logical)):
		rows.append([pk, f'key/{j}', f'GCA_{100 + j}.1', f'GCF_{100 + j}.1', 5000 + j, 'assembly', r in members])
	ins = [r for r in rows if r[6]]
	for r in rows:
		if not r[6]:
			if attr != 'key' and rng.random() < 0.3:
				r[col] = None
			elif attr == 'ncbi_id' and ins and rng.random() < 0.3:
				r[4], r[5] = rng.choice(ins)[4], f'db{r[0]}'
	return rows


def layout_sigs(rng, attr, genomes, defect=None):
	"""a signature file for the set: every in-set genome gets its own pool signature (random assignment), the file is
	shuffled and padded with unrelated signatures (some under the identifiers of rows outside the set)"""
	col = 1 + ATTRS.index(attr)
	ins = [g for g in genomes if g[6]]
	pool = rng.sample(range(NPOOL), len(ins))
	spare = [p for p in range(NPOOL) if p not in pool] or [NPOOL - 1]
	sigs = [[g[col], p] for g, p in zip(ins, pool)]
	rng.shuffle(sigs)
	mine = [g[col] for g in ins]
	pads = [foreign_id(attr, j) for j in range(rng.choice([0, 1, 3, 6]))]
	pads += [g[col] for g in genomes if not g[6] and g[col] is not None and g[col] not in mine and rng.random() < 0.6]
	for v in dict.fromkeys(pads):
		sigs.insert(rng.randint(0, len(sigs)), [v, rng.choice(spare)])
	if defect == 'missing' and ins:
		victim = rng.choice(mine)
		sigs = [x for x in sigs if not same_id(x[0], victim)]
	elif defect == 'repeat' and ins:
		sigs.insert(rng.randint(0, len(sigs)), [rng.choice(mine), rng.choice(spare)])
	if not sigs:
		sigs = [[foreign_id(attr, 0), spare[0]]]
	return sigs


def layout_case(rng, attr, shape, n=None, n_out=None, defect=None, **kw):
	n = n if n is not None else rng.choice([2, 3, 5, 8, 12])
	n_out = n_out if n_out is not None else rng.choice([0, 1, 3, 6])
	genomes = layout_genomes(rng, attr, n, n_out)
	c = load_case(attr, genomes, layout_sigs(rng, attr, genomes, defect), kw.pop('chunksize', rng.choice([None, 1, 2, 5])),
	              kw.pop('queries', rng.sample(range(NQUERY), rng.choice([1, 2]))), report=rng.choice([1, 3, 10]), **kw)
	if c['via'] == 'mem':
		c['mem'] = [rng.choice(MEM_SIGS), rng.choice(['list', 'tuple', 'npscalars'])]
	c['dblayout'] = random_layout(rng, genomes, shape)
	return c


def gen_db_layouts(ctx, rng):
	"""how the genome database FILE came to hold the genome set: genome rows and annotation rows inserted in independent
	orders (genomes registered first and added to the set later, a set built from some of the genomes already in the table,
	inserts of both kinds interleaved), annotation rows with explicit out-of-order rowids, rows deleted and re-inserted,
	temporary rows and a temporary second genome set that leave holes, taxa assigned in a separate pass, VACUUM / ANALYZE,
	sparse and huge primary keys, rows outside the set anywhere in primary-key order -- built with sqlite3 or through the
	ORM.  The logical content (which genome has which identifiers, which genomes are in the set) is all the property speaks
	of; every load / command-line / several-databases / matching-function case is judged by the same predicates as
	elsewhere."""
	n_l = 0
	shapes = list(LAYOUT_SHAPES) + ['mixed']

	def checked(kind, c, layouts):
		bad = [layout_walk(g, lay)[0] for g, lay in layouts]
		if any(bad):
			ctx.count('layout-generator-rejected')
			return None
		return kind, c

	# small scope, complete: 3 genomes of the set + 1 row outside it between them; every insertion order of the annotation
	# rows x every order of the signatures in the file; then every insertion order of the annotation rows of 4 genomes
	n_x = 0
	for n in (3, 4):
		pks = [2, 3, 5, 7][:n]
		for a_order in itertools.permutations(pks):
			for f_order in (itertools.permutations(range(n)) if n == 3 else [None]):
				attr = ATTRS[n_x % 4]
				col = 1 + ATTRS.index(attr)
				genomes = [[pk, f'key/{pk}', f'GCA_{100 + pk}.1', f'GCF_{100 + pk}.1', 5000 + pk, 'assembly', pk != 4] for pk in pks + [4]]
				genomes.sort()
				ins = [g for g in genomes if g[6]]
				f_order = list(f_order) if f_order else rng.sample(range(n), n)
				sigs = [[ins[j][col], j] for j in f_order]
				sigs.insert(n_x % (n + 1), [genomes[2][col] if n_x % 2 else foreign_id(attr, 0), NPOOL - 1])
				ops = [['g', g[0]] for g in genomes] + [['a', pk, None, 1] for pk in a_order] + [['commit']]
				c = load_case(attr, genomes, sigs, [None, 1, 2][n_x % 3], [n_x % NQUERY], via=['dir', 'ctor', 'load'][n_x % 3])
				c['dblayout'] = dict(ops=ops, builder='orm' if n_x % 5 == 4 else 'sql')
				got = checked('load', c, [(genomes, c['dblayout'])])
				if got:
					yield got
					n_x += 1
	n_l += n_x
	ctx.count('layout:enumerated-annotation-orders', n_x)

	# every shape, every attribute, the ways in
	n_load = ctx.pick(220, 2600)
	for i in range(n_load):
		shape = shapes[i % len(shapes)] if i < 4 * len(shapes) else rng.choice(shapes + ['mixed'] * 6)
		attr = ATTRS[(i // len(shapes)) % 4] if i < 4 * len(shapes) else rng.choice(ATTRS)
		defect = rng.choice([None] * 8 + ['missing', 'repeat']) if i >= 4 * len(shapes) else None
		c = layout_case(rng, attr, shape, defect=defect, via=rng.choice(['dir', 'dir', 'ctor', 'load', 'mem']))
		got = checked('load', c, [(c['genomes'], c['dblayout'])])
		if got:
			ctx.count('layout:' + shape)
			yield got
			n_l += 1

	# through the command line
	for i in range(ctx.pick(24, 200)):
		shape = shapes[i % len(shapes)]
		c = layout_case(rng, ATTRS[i % 4], shape, n=rng.choice([3, 5, 7]), defect=[None, None, None, None, None, 'missing'][i % 6],
		                chunksize=None, queries=[0])
		c['fmt'] = CLI_FMTS[i % 3]
		c['qin'] = CLI_QIN[(i // 3) % 3]
		if c['qin'] != 'sigfile':
			c['cores'] = 1
		got = checked('cli', c, [(c['genomes'], c['dblayout'])])
		if got:
			ctx.count('layout:cli:' + shape)
			yield got
			n_l += 1

	# several databases open together: each with its own layout; one signature file for several differently laid out sets
	for i in range(ctx.pick(24, 200)):
		share = [None, 'sigs', 'dir'][i % 3]
		k = rng.choice([2, 2, 3])
		if share is None:
			dbs = [layout_case(rng, rng.choice(ATTRS), rng.choice(shapes), n=rng.choice([2, 3, 5]), defect=rng.choice([None, None, None, 'missing']),
			                   via=rng.choice(['dir', 'ctor', 'load'])) for _ in range(k)]
		elif share == 'dir':
			c = layout_case(rng, rng.choice(ATTRS), rng.choice(shapes), n=rng.choice([3, 5]), via='dir')
			dbs = [dict(c, via=rng.choice(['dir', 'ctor']), chunksize=rng.choice([None, 1, 2]), queries=[rng.randrange(NQUERY)]) for _ in range(k)]
		else:
			attr = ATTRS[(i // 3) % 4]
			base = layout_genomes(rng, attr, 6, 2)
			six = [g for g in base if g[6]]
			sigs = layout_sigs(rng, attr, base)
			dbs = []
			for _ in range(k):
				members = {g[0] for g in rng.sample(six, rng.choice([2, 3, 4, 6]))}
				rows = [list(g[:6]) + [g[0] in members] for g in base]
				c = load_case(attr, rows, sigs, rng.choice([None, 1, 2]), [rng.randrange(NQUERY)], via='ctor')
				c['dblayout'] = random_layout(rng, rows, rng.choice(shapes))
				dbs.append(c)
		plan = [rng.randrange(len(dbs)) for _ in range(rng.choice([0, 2, 3]))]
		got = checked('multi', dict(dbs=dbs, share=share, plan=plan), [(c['genomes'], c['dblayout']) for c in dbs])
		if got:
			ctx.count('layout:multi:share=' + str(share))
			yield got
			n_l += 1

	# the matching functions directly
	for i in range(ctx.pick(48, 400)):
		attr = ATTRS[i % 4]
		col = 1 + ATTRS.index(attr)
		shape = shapes[(i // 4) % len(shapes)]
		genomes = layout_genomes(rng, attr, rng.choice([2, 4, 7]), rng.choice([0, 2, 4]))
		ids = list(dict.fromkeys(g[col] for g in genomes if g[col] is not None)) + [foreign_id(attr, j) for j in range(rng.choice([0, 1, 3]))]
		if rng.random() < 0.25 and len(ids) > 1:
			del ids[rng.randrange(len(ids))]
		rng.shuffle(ids)
		forms = ['list', 'tuple', 'npscalars'] + (['i8'] if attr == 'ncbi_id' else ['O', 'U'])
		c = dict(attr=attr, genomes=genomes, ids=ids, attr_form=['str', 'attribute'][i % 2], ids_form=rng.choice(forms),
		         dblayout=random_layout(rng, genomes, shape))
		got = checked('match', c, [(genomes, c['dblayout'])])
		if got:
			ctx.count('layout:match:' + shape)
			yield got
			n_l += 1
	ctx.count('stream:database-layouts', n_l)


def gen_dir_special(ctx, rng):
	"""directory contents the name grammar does not reach: the empty directory, symbolic links (to a genome database,
	a signature file, a directory, nothing) and zero-length files under database names, many unrelated files, names with
	URL / shell characters, the directory given as str / Path / with trailing separator / relative / through a link,
	a path that does not exist or is a file"""
	n_s = 0
	yield 'dir', dict(entries=[])
	n_s += 1
	for arg in DIRARGS:
		yield 'dir', dict(entries=[], arg=arg)
		yield 'dir', dict(entries=[['refs.gdb', 'gdb'], ['refs.gs', 'sig']], arg=arg)
		yield 'dir', dict(entries=[['refs.gdb', 'gdb'], ['refs.gs', 'sig'], ['old.h5', 'sig']], arg=arg)
		yield 'dir', dict(entries=[['refs.db', 'gdb'], ['old.gdb', 'junk'], ['refs.gs', 'sig']], arg=arg)
		n_s += 4
	for sp in ('missing', 'is-file'):
		for arg in ('str', 'path'):
			yield 'dir', dict(entries=[], special=sp, arg=arg)
			n_s += 1
	kinds = ['gdb', 'link-gdb', 'empty', 'link-broken', 'link-dir', 'link-sig']
	for gk in kinds:
		for sk in ['sig', 'link-sig', 'empty', 'link-broken', 'link-dir', 'link-gdb']:
			yield 'dir', dict(entries=[['refs.gdb', gk], ['refs.h5', sk]])
			n_s += 1
	for extra, kind in [('old.gdb', 'link-broken'), ('old.db', 'empty'), ('old.gs', 'link-dir'), ('old.h5', 'link-sig'), ('x.db', 'link-gdb'),
	                    ('x.gs', 'empty'), ('x.h5', 'link-broken'), ('notes.txt', 'link-gdb'), ('sub', 'link-dir'), ('refs', 'link-gdb'),
	                    ('gdb', 'gdb'), ('gs', 'sig')]:
		yield 'dir', dict(entries=[['refs.gdb', 'gdb'], ['refs.gs', 'sig'], [extra, kind]])
		n_s += 1
	special_names = [['a#b.gdb', 'a#b.gs'], ['a%41.db', 'a%41.h5'], ['a%.db', '%s.gs'], ['a&b=c;d.gdb', "q'\"x.gs"], ['a\nb.gdb', 'a\nb.h5'],
	                 ['-d.db', '-o.gs'], ['a*.gdb', '[a].gs'], ['$HOME.db', '~.h5'], ['a\\b.gdb', 'a|b.gs'], ['x' * 190 + '.gdb', 'y' * 190 + '.gs'],
	                 [':memory:.db', 'a:b.gs'], ['\U0001f600.gdb', '\u540d.h5'], ['s.gs?x.gdb', 'g.gdb?x.gs'], ['a.gdb', 'a?b.gs']]
	for gn, sn in special_names:
		yield 'dir', dict(entries=[[gn, 'gdb'], [sn, 'sig']])
		yield 'dir', dict(entries=[[gn, 'gdb'], [sn, 'sig'], ['z' + gn, 'junk']])
		n_s += 2
	# the genuine defect found by the audit (repaired in /repo; judged like every other case): '?' in the genome file's name
	yield 'dir', dict(entries=[['refs?x.gdb', 'gdb'], ['s.gs', 'sig']])
	yield 'dir', dict(entries=[['refs', 'gdb'], ['refs?x.gdb', 'junk'], ['s.gs', 'sig']])
	yield 'dir', dict(entries=[['refs?x.gdb', 'gdb'], ['other.db', 'gdb'], ['s.gs', 'sig']])
	n_s += 3
	for _ in range(ctx.pick(6, 40)):
		m = rng.choice([20, 60, 150])
		ents = [[f'file{j:03d}' + rng.choice(['.txt', '.gdbx', '.gs.bak', '', '.fasta', '.db-journal', '.h5~']), 'junk'] for j in range(m)]
		k = rng.random()
		ents.insert(rng.randrange(m), [rng.choice(['refs.gdb', 'refs.db']), 'gdb'])
		if k < 0.8:
			ents.insert(rng.randrange(m), [rng.choice(['refs.gs', 'refs.h5']), 'sig'])
		if k < 0.25:
			ents.insert(rng.randrange(m), [rng.choice(['zz.gs', 'zz.h5', 'zz.gdb', 'zz.db']), rng.choice(['sig', 'gdb', 'junk', 'empty'])])
		yield 'dir', dict(entries=ents, arg=rng.choice(DIRARGS))
		n_s += 1
	ctx.count('stream:directories-special', n_s)


def gen_cli_forms(ctx, rng):
	"""the command line beyond `-d DIR query -s FILE -f json`: csv and archive output, --strict, -c, --no-progress, the
	directory through GAMBIT_DB_PATH, queries as genome files (positional and -l: query_parse), other file names and
	extensions, identifier storage forms, database directories holding further database-named entries (must fail)"""
	n_c = 0
	base = []
	for fmt in CLI_FMTS:
		for qin in CLI_QIN:
			base.append(dict(fmt=fmt, qin=qin))
	combos = [dict(b, dbvia=['opt', 'env', 'long'][i % 3], strict=(i % 3 == 1), cores=[None, 1, 2][i % 3] if b['qin'] == 'sigfile' else 1,
	               progress=(i % 2 == 0)) for i, b in enumerate(base)]
	for i, extra in enumerate(combos * ctx.pick(2, 6)):
		attr = ATTRS[i % 4]
		defect = [None, None, None, 'missing', None, 'repeat', None][i % 7]
		c = simple_case(rng, attr=attr, n=rng.choice([3, 5, 7]), defect=defect, chunksize=None, queries=[0])
		if i % 4 == 2:      # unusual identifier values on the command line too
			c['genomes'], c['sigs'] = odd_values_case(rng, attr, force_falsy=True)
			if not c['sigs']:
				c['sigs'] = [[foreign_id(attr, 0), NPOOL - 1]]
		c.update(extra)
		c['names'] = FILE_NAMES[i % len(FILE_NAMES)]
		if attr == 'ncbi_id':
			c['ids_as'] = rng.choice([None, 'i8', '>i8'])
		else:
			c['ids_as'] = rng.choice([None, 'U', 'S'])
		yield 'cli', c
		n_c += 1
	for extra_entries in ([['old.gdb', 'gdb']], [['old.h5', 'sig']], [['old.db', 'junk']], [['old.gs', 'dir']], [['notes.txt', 'junk'], ['sub', 'dir']],
	                      [['x.gdb', 'link-broken'], ['readme', 'junk']]):
		c = simple_case(rng, chunksize=None, queries=[0])
		c['extra'] = extra_entries
		c['fmt'] = rng.choice(CLI_FMTS)
		yield 'cli', c
		n_c += 1
	ctx.count('stream:cli-forms', n_c)


# ---- generator of sequence cases ---------------------------------------------------------------------

def seq_universe(rng):
	"""the shared part of a sequence case: L logical genomes (fixed identifier values); 2-3 genome databases holding all of
	them under their own primary keys with genome sets of DIFFERENT sizes; 2-3 signature collections (the first covers
	every genome, the others the union of some of the genome sets, now and then less one genome or with a repeated
	identifier), each with its own id_attr, order, padding, storage form and its own assignment of pool signatures;
	directories pairing them; two QueryParams descriptions (one reports more genomes than the small database has); two query
	lists"""
	L = rng.choice([5, 6, 7, 8])
	logical = [[f'key/{j + 1}', f'GCA_{101 + j}.1', f'GCF_{101 + j}.1', 5001 + j] for j in range(L)]
	n_g, n_s = rng.choice([2, 2, 3]), rng.choice([2, 2, 3])
	sizes = rng.sample([2, 3, 4, L], n_g)
	gsets, members = [], []
	for t in range(n_g):
		pks = rng.sample(range(1, 3 * L + 1), L)
		mem = set(rng.sample(range(L), sizes[t]))
		rows = [[pks[j]] + list(logical[j]) + ['assembly', j in mem] for j in range(L)]
		if rng.random() < 0.15:      # a genome of the set without value for one of the other attributes
			rows[rng.choice(sorted(mem))][rng.choice([2, 3, 4])] = None
		rows.sort()
		gsets.append(rows)
		members.append(mem)
	sigfiles = []
	attrs = rng.sample(ATTRS, 4)
	for b in range(n_s):
		attr = attrs[b] if rng.random() < 0.8 else attrs[0]
		col = ATTRS.index(attr)
		if b == 0:
			cover = set(range(L))
		else:
			cover = set().union(*rng.sample(members, rng.randint(1, n_g)))
			if rng.random() < 0.3 and len(cover) > 1:
				cover.discard(rng.choice(sorted(cover)))
		pool = rng.sample(range(NPOOL), L)
		spare = [x for x in range(NPOOL) if x not in pool]
		sigs = [[logical[j][col], pool[j]] for j in sorted(cover)]
		rng.shuffle(sigs)
		sigs = pad_randomly(rng, sigs, [foreign_id(attr, j) for j in range(rng.choice([0, 1, 3]))], NPOOL)
		for x in sigs:
			if x[1] == NPOOL - 1 and x[1] in pool and not any(same_id(x[0], logical[j][col]) for j in range(L)):
				x[1] = rng.choice(spare)
		if rng.random() < 0.1:
			sigs.insert(rng.randint(0, len(sigs)), [rng.choice(sigs)[0], rng.choice(spare)])
		if attr == 'ncbi_id':
			store = rng.choice([None, 'i8', 'u8', '>i8'])
		else:
			store = rng.choice([None, 'O', 'U', 'S'])
		sigfiles.append(dict(attr=attr, sigs=sigs, ids_as=store, sig_dtype=rng.choice((None,) + SIG_DTYPES)))
	n_d = rng.choice([2, 3])
	dirs = [dict(g=k % n_g, s=0 if k == 0 else rng.randrange(n_s), names=rng.randrange(len(SEQ_NAMES))) for k in range(n_d)]
	params = [dict(chunksize=rng.choice([None, 1, 2]), report=rng.choice([3, L, 10]), strict=False),
	          dict(chunksize=rng.choice([1, 3, 1000]), report=rng.choice([1, 2]), strict=rng.random() < 0.3)]
	queries = [rng.sample(range(NQUERY), 2), [rng.randrange(NQUERY)]]
	return dict(gsets=gsets, sigfiles=sigfiles, dirs=dirs, params=params, queries=queries, steps=[])


def seq_idform(rng, case, si):
	ints = isinstance(case['sigfiles'][si]['sigs'][0][0], int)
	return rng.choice(['list', 'tuple', 'npscalars', 'strided'] + (['i8'] if ints else ['O', 'U']))


def seq_random_steps(rng, u):
	"""a random script: opened things are used again and again, failing calls in between"""
	n_d, n_g, n_s = len(u['dirs']), len(u['gsets']), len(u['sigfiles'])
	steps = []
	handles, gslots, sslots = set(), set(), set()
	n_cli = 0

	def pq():
		return rng.randrange(len(u['params'])), rng.randrange(len(u['queries']))
	for _ in range(rng.randint(4, 9)):
		moves = ['load'] * 3 + ['slots'] * 2 + ['fresh'] * 2 + ['badload', 'rewrite']
		if handles:
			moves += ['observe'] * 6 + ['badquery'] * 2 + ['close']
		if gslots and sslots:
			moves += ['make'] * 4
		if gslots:
			moves += ['match'] * 3 + ['badmatch']
		if n_cli < 2:
			moves += ['cli']
		m = rng.choice(moves)
		if m == 'load':
			h = rng.randrange(3)
			steps.append(['load', h, rng.randrange(n_d), rng.choice(SEQ_VIAS), rng.random() < 0.3])
			handles.add(h)
		elif m == 'slots':
			k = rng.random()
			if k < 0.45:
				g = rng.randrange(2)
				steps.append(['gset', g, rng.randrange(n_d)])
				gslots.add(g)
			elif k < 0.75:
				s = rng.randrange(2)
				steps.append(['sigs', s, rng.randrange(n_d)])
				sslots.add(s)
			else:
				s, si = rng.randrange(2), rng.randrange(n_s)
				steps.append(['memsigs', s, si, rng.choice(MEM_SIGS), seq_idform(rng, u, si)])
				sslots.add(s)
		elif m == 'make':
			h = rng.randrange(3)
			steps.append(['make', h, rng.choice(sorted(gslots)), rng.choice(sorted(sslots)), rng.random() < 0.3])
			handles.add(h)
		elif m == 'observe':
			steps.append(['observe', rng.choice(sorted(handles))] + list(pq()) + [rng.choice(SEQ_QFORMS)])
		elif m == 'match':
			si = rng.randrange(n_s)
			steps.append(['match', rng.choice(sorted(gslots)), rng.choice([u['sigfiles'][si]['attr']] * 2 + ATTRS), si, seq_idform(rng, u, si),
			              rng.choice(['str', 'attribute'])])
		elif m == 'fresh':
			steps.append(['fresh', rng.randrange(n_d), rng.choice(SEQ_VIAS)] + list(pq()) + [rng.random() < 0.4])
		elif m == 'cli':
			steps.append(['cli', rng.randrange(n_d), rng.choice(CLI_FMTS)])
			n_cli += 1
		elif m == 'close':
			h = rng.choice(sorted(handles))
			steps.append(['close', h])
			handles.discard(h)
		elif m == 'rewrite':
			dn = rng.randrange(n_d)
			steps.append(['rewrite', dn, rng.randrange(n_g), rng.randrange(n_s), rng.randrange(len(SEQ_NAMES))])
			if rng.random() < 0.8:      # and the same path is read again
				steps.append(rng.choice([['load', rng.randrange(3), dn, rng.choice(SEQ_VIAS), False], ['fresh', dn, rng.choice(SEQ_VIAS)] + list(pq()) + [False]]))
				if steps[-1][0] == 'load':
					handles.add(steps[-1][1])
		elif m == 'badquery':
			steps.append(['badquery', rng.choice(sorted(handles)), rng.choice(SEQ_BADQ)] + list(pq()))
		elif m == 'badmatch':
			steps.append(['badmatch', rng.choice(sorted(gslots)), rng.choice(SEQ_BADM), rng.randrange(n_s)])
		elif m == 'badload':
			steps.append(['badload', rng.randrange(n_d), rng.choice(SEQ_BADL)])
	# what is open at the end is looked at once more
	for h in sorted(handles):
		steps.append(['observe', h] + list(pq()) + ['params'])
	return steps


def seq_templates(rng, u):
	"""scripts aimed at one kind of hidden state each, every one in both orders of its two databases; A = directory 0 (the
	signature collection that covers everything), B = directory 1"""
	n_s = len(u['sigfiles'])
	s1 = u['dirs'][1]['s']
	other_s = (u['dirs'][0]['s'] + 1) % n_s
	other_g = (u['dirs'][0]['g'] + 1) % len(u['gsets'])
	out = []
	for a, b in ((0, 1), (1, 0)):
		# one params object and one query list for databases of different size
		out.append(('params-object-for-two-databases',
		            [['load', 0, a, 'dir', False], ['load', 1, b, 'load', False], ['observe', 0, 0, 0, 'params'], ['observe', 1, 0, 0, 'params'],
		             ['observe', 0, 0, 0, 'params'], ['observe', 1, 1, 0, 'inputs'], ['observe', 0, 1, 0, 'inputs'], ['observe', 1, 0, 0, 'params']]))
		# one signature object for two genome sets
		out.append(('signature-object-for-two-genome-sets',
		            [['sigs', 0, 0], ['gset', 0, a], ['gset', 1, b], ['make', 0, 0, 0, False], ['make', 1, 1, 0, True], ['observe', 0, 0, 0, 'params'],
		             ['observe', 1, 0, 0, 'params'], ['observe', 0, 0, 0, 'params']]))
		out.append(('in-memory-signature-object-for-two-genome-sets',
		            [['memsigs', 0, 0, rng.choice(MEM_SIGS), seq_idform(rng, u, 0)], ['gset', 0, a], ['gset', 1, b], ['make', 0, 0, 0, False],
		             ['make', 1, 1, 0, False], ['observe', 1, 0, 1, 'kw'], ['observe', 0, 0, 1, 'kw'], ['make', 2, 0, 0, False], ['observe', 2, 1, 0, 'params']]))
		# one genome set for two signature objects (other id_attr, other order)
		out.append(('genome-set-for-two-signature-objects',
		            [['gset', 0, a], ['sigs', 0, a], ['memsigs', 1, other_s, 'list', seq_idform(rng, u, other_s)], ['make', 0, 0, 0, False],
		             ['make', 1, 0, 1, False], ['observe', 0, 0, 0, 'params'], ['observe', 1, 0, 0, 'params'], ['make', 2, 0, 0, False],
		             ['observe', 2, 0, 0, 'params']]))
		# the matching functions: one genome set, several attributes and containers; one container, several genome sets
		out.append(('matching-functions-reused',
		            [['gset', 0, a], ['gset', 1, b], ['match', 0, u['sigfiles'][0]['attr'], 0, seq_idform(rng, u, 0), 'str'],
		             ['match', 0, u['sigfiles'][other_s]['attr'], other_s, 'list', 'attribute'], ['match', 1, u['sigfiles'][0]['attr'], 0, 'list', 'str'],
		             ['match', 0, u['sigfiles'][0]['attr'], 0, 'list', 'str'], ['match', 1, u['sigfiles'][other_s]['attr'], other_s, 'list', 'str'],
		             ['match', 0, u['sigfiles'][other_s]['attr'], other_s, 'list', 'attribute']]))
		# calls that fail part-way, then the good call again on the same objects
		out.append(('failed-calls-in-between',
		            [['load', 0, a, 'ctor', False], ['observe', 0, 0, 0, 'params'], ['badquery', 0, 'float-query', 0, 0], ['observe', 0, 0, 0, 'params'],
		             ['badload', b, 'junk-sigs'], ['badquery', 0, 'out-shape', 0, 0], ['load', 1, b, 'dir', False], ['observe', 1, 0, 0, 'params'],
		             ['badload', a, 'truncated-sigs'], ['badload', b, 'wrong-genome-name'], ['observe', 0, 0, 0, 'params'], ['fresh', b, 'dir', 0, 0, False]]))
		out.append(('failed-constructions-in-between',
		            [['sigs', 0, a], ['gset', 0, a], ['gset', 1, b], ['memsigs', 1, other_s, 'array', 'list'], ['make', 0, 1, 1, False], ['make', 0, 0, 1, False],
		             ['badmatch', 0, 'strict-missing', 0], ['badmatch', 1, 'ids-raise', 0], ['make', 1, 0, 0, False], ['observe', 1, 0, 0, 'params'],
		             ['make', 2, 1, 0, False], ['observe', 2, 0, 0, 'params']]))
		# the files of a directory replaced between two loads (other genome set, other collection, other file names)
		out.append(('directory-rewritten-between-loads',
		            [['load', 0, a, 'dir', False], ['observe', 0, 0, 0, 'params'], ['fresh', a, 'dir', 0, 0, False], ['cli', a, 'json'],
		             ['rewrite', a, other_g, s1, (u['dirs'][a]['names'] + 1) % len(SEQ_NAMES)], ['load', 0, a, 'dir', False], ['observe', 0, 0, 0, 'params'],
		             ['fresh', a, 'load', 0, 0, False], ['cli', a, 'json'], ['rewrite', a, u['dirs'][b]['g'], 0, u['dirs'][a]['names']],
		             ['fresh', a, 'ctor', 0, 0, False], ['cli', a, 'json']]))
		# worker threads next to databases open in the main thread
		out.append(('worker-threads',
		            [['load', 0, a, 'dir', False], ['fresh', a, 'dir', 0, 0, True], ['fresh', b, 'load', 0, 0, True], ['observe', 0, 0, 0, 'params'],
		             ['fresh', a, 'ctor', 0, 0, True], ['fresh', b, 'dir', 1, 1, False], ['fresh', b, 'dir', 1, 1, True]]))
		# the command line twice, a failing directory in between
		out.append(('command-line-repeated',
		            [['cli', a, 'json'], ['cli', b, 'archive'], ['badload', a, 'no-sigs'], ['cli', a, 'json'], ['cli', b, 'archive']]))
	return out


def gen_seq(ctx, rng):
	"""sequences of calls over shared objects (see STATE AND ALIASING in the module docstring)"""
	n_q = 0
	for _ in range(ctx.pick(2, 24)):
		# for the aimed scripts: both directories load, every genome set loads with collection 0, the two databases differ in size
		for attempt in range(40):
			u = seq_universe(rng)
			combos = [(d['g'], d['s']) for d in u['dirs'][:2]] + [(g, 0) for g in range(len(u['gsets']))]
			if (u['dirs'][0]['g'] != u['dirs'][1]['g'] and seq_validate(u)
			        and all(oracle(seq_combined(u, g, s))['must_load'] for g, s in combos)):
				break
		else:
			ctx.count('seq-generator-rejected')
			continue
		for name, steps in seq_templates(rng, u):
			ctx.count('seq:template:' + name)
			yield 'seq', dict(u, steps=steps)
			n_q += 1
	for _ in range(ctx.pick(70, 1500)):
		u = seq_universe(rng)
		u['steps'] = seq_random_steps(rng, u)
		if not seq_validate(u):
			ctx.count('seq-generator-rejected')
			continue
		yield 'seq', u
		n_q += 1
	ctx.count('stream:sequences-over-shared-objects', n_q)

# ---- generator of sequence cases in which a genome set is EDITED between two uses (round 8) ----------------

SEQ_EDIT_KINDS = ('swap-in-set', 'swap-one-column', 'swap-with-outside', 'replace-member', 'remove-member', 'add-member',
                  'repoint-to-unrelated', 'repoint-to-nothing', 'null-value')


def seq_edit_variant(rng, table, kind, attr):
	"""the genome table `table` after the curator's edit `kind`, aimed at identifier attribute `attr` (same primary keys, so
	the edit can be made on the loaded objects); None if the table has no room for that edit.  What the edited set must do
	with a signature collection is NOT decided here: the oracle reads the edited table like any other."""
	rows = [list(r) for r in table]
	col = 1 + ATTRS.index(attr)
	ins, outs = [r for r in rows if r[6]], [r for r in rows if not r[6]]
	if kind in ('swap-in-set', 'swap-one-column'):
		if len(ins) < 2:
			return None
		A, B = rng.sample(ins, 2)
		for c in ([col] if kind == 'swap-one-column' else [1, 2, 3, 4]):
			A[c], B[c] = B[c], A[c]
	elif kind == 'swap-with-outside':
		if not ins or not outs:
			return None
		A, B = rng.choice(ins), rng.choice(outs)
		for c in ([col] if rng.random() < 0.5 else [1, 2, 3, 4]):
			A[c], B[c] = B[c], A[c]
	elif kind == 'replace-member':
		if not ins or not outs:
			return None
		rng.choice(ins)[6] = False
		rng.choice(outs)[6] = True
	elif kind == 'remove-member':
		if len(ins) < 2:
			return None
		rng.choice(ins)[6] = False
	elif kind == 'add-member':
		if not outs:
			return None
		rng.choice(outs)[6] = True
	elif kind == 'repoint-to-unrelated':      # the identifier of an unrelated signature, if the collection holds one
		if not ins:
			return None
		rng.choice(ins)[col] = foreign_id(attr, rng.choice([0, 0, 1, 2]))
	elif kind == 'repoint-to-nothing':
		if not ins:
			return None
		rng.choice(ins)[col] = foreign_id(attr, 500 + rng.randrange(3))
	elif kind == 'null-value':
		if not ins:
			return None
		rng.choice(ins)[col] = foreign_id(attr, 600) if attr == 'key' else None
	else:
		return None
	return rows if rows != [list(r) for r in table] else None


def seq_edit_universe(rng):
	"""a universe of seq_universe in which every genome set loads with collection 0, plus for two of its genome databases a few
	edited variants (appended to gsets) -> (u, {base index: [variant index ...]}) or None"""
	for attempt in range(40):
		u = seq_universe(rng)
		if seq_validate(u) and all(oracle(seq_combined(u, g, 0))['must_load'] for g in range(len(u['gsets']))):
			break
	else:
		return None
	n_g = len(u['gsets'])
	variants = {}
	for base in rng.sample(range(n_g), 2):
		variants[base] = []
		for kind in rng.sample(SEQ_EDIT_KINDS, 3):
			si = 0 if rng.random() < 0.7 else rng.randrange(len(u['sigfiles']))
			prev = u['gsets'][rng.choice([base] + variants[base])]      # edits build on each other now and then
			v = seq_edit_variant(rng, prev, kind, u['sigfiles'][si]['attr'])
			if v is not None and v not in u['gsets']:
				u['gsets'].append(v)
				variants[base].append(len(u['gsets']) - 1)
				u.setdefault('edits', []).append([base, kind])
	if not any(variants.values()) or not seq_validate(u):
		return None
	return u, {b: v for b, v in variants.items() if v}


def seq_edit_templates(rng, u, variants):
	"""scripts around one edit each: construct, edit, construct AGAIN from the same genome set object and the same signature
	object; the matching functions before and after; a second (read-only) genome set next to it; there and back again"""
	out = []
	n_s = len(u['sigfiles'])
	attr0 = u['sigfiles'][0]['attr']
	other_s = (1 % n_s)
	for base, vs in sorted(variants.items()):
		for v in vs:
			how, how2 = rng.choice(SEQ_EDIT_HOWS), rng.choice(SEQ_EDIT_HOWS)
			sig_open = rng.choice([['sigs', 0, 0], ['memsigs', 0, 0, rng.choice(MEM_SIGS), seq_idform(rng, u, 0)]])
			out.append(('construct-edit-construct',
			            [['gsetrw', 0, base], sig_open, ['make', 0, 0, 0, False], ['observe', 0, 0, 0, 'params'], ['edit', 0, v, how],
			             ['make', 1, 0, 0, False], ['observe', 1, 0, 0, 'params'], ['edit', 0, base, how2], ['make', 0, 0, 0, True],
			             ['observe', 0, 0, 0, 'params']]))
			out.append(('match-edit-match',
			            [['gsetrw', 0, base], ['match', 0, attr0, 0, seq_idform(rng, u, 0), 'str'],
			             ['match', 0, u['sigfiles'][other_s]['attr'], other_s, 'list', 'attribute'], ['edit', 0, v, how],
			             ['match', 0, attr0, 0, 'list', 'str'], ['match', 0, u['sigfiles'][other_s]['attr'], other_s, 'list', 'attribute'],
			             ['memsigs', 0, 0, 'list', 'list'], ['make', 0, 0, 0, False], ['observe', 0, 0, 0, 'params']]))
			out.append(('edited-next-to-untouched-genome-set',
			            [['gsetrw', 0, base], ['gset', 1, 1 if u['dirs'][0]['g'] == base else 0], sig_open, ['make', 0, 0, 0, False], ['make', 1, 1, 0, False],
			             ['edit', 0, v, how], ['make', 2, 0, 0, False], ['observe', 1, 0, 0, 'params'], ['observe', 2, 0, 0, 'params'],
			             ['make', 1, 1, 0, False], ['observe', 1, 0, 0, 'params']]))
		if len(vs) >= 2:
			out.append(('several-edits-in-a-row',
			            [['gsetrw', 0, base], ['sigs', 0, 0], ['make', 0, 0, 0, False]] +
			            [x for v in vs + [base] for x in (['edit', 0, v, rng.choice(SEQ_EDIT_HOWS)], ['make', 0, 0, 0, False], ['observe', 0, 0, 0, 'params'])]))
	return out


def seq_edit_random_steps(rng, u, variants):
	"""a random script over 1-2 writable genome sets, 1-2 signature objects: make / observe / match / edit in any order"""
	n_s = len(u['sigfiles'])
	bases = sorted(variants)
	steps = []
	slot_base = {}
	for g, base in enumerate(rng.sample(bases, rng.choice([1, min(2, len(bases))]))):
		steps.append(['gsetrw', g, base])
		slot_base[g] = base
	steps.append(rng.choice([['sigs', 0, 0], ['memsigs', 0, 0, rng.choice(MEM_SIGS), seq_idform(rng, u, 0)]]))
	sslots = [0]
	if rng.random() < 0.5:
		si = rng.randrange(n_s)
		steps.append(['memsigs', 1, si, rng.choice(MEM_SIGS), seq_idform(rng, u, si)])
		sslots.append(1)
	handles = set()
	for _ in range(rng.randint(5, 10)):
		m = rng.choice(['make'] * 4 + ['edit'] * 3 + ['match'] * 2 + (['observe'] * 4 if handles else []) + ['badmatch'])
		g = rng.choice(sorted(slot_base))
		if m == 'make':
			h = rng.randrange(3)
			steps.append(['make', h, g, rng.choice(sslots), rng.random() < 0.3])
			handles.add(h)
		elif m == 'edit':
			steps.append(['edit', g, rng.choice(variants[slot_base[g]] + [slot_base[g]]), rng.choice(SEQ_EDIT_HOWS)])
			if rng.random() < 0.7:
				h = rng.randrange(3)
				steps.append(['make', h, g, rng.choice(sslots), False])
				handles.add(h)
		elif m == 'match':
			si = rng.randrange(n_s)
			steps.append(['match', g, rng.choice([u['sigfiles'][si]['attr']] * 3 + ATTRS), si, seq_idform(rng, u, si), rng.choice(['str', 'attribute'])])
		elif m == 'observe':
			steps.append(['observe', rng.choice(sorted(handles)), rng.randrange(len(u['params'])), rng.randrange(len(u['queries'])), rng.choice(SEQ_QFORMS)])
		else:
			steps.append(['badmatch', g, rng.choice(SEQ_BADM), rng.randrange(n_s)])
	for h in sorted(handles):
		steps.append(['observe', h, 0, 0, 'params'])
	return steps


def gen_seq_edits(ctx, rng):
	"""a genome set edited through its own session between two constructions / matchings on the SAME objects"""
	n_e = 0
	for _ in range(ctx.pick(4, 40)):
		got = seq_edit_universe(rng)
		if got is None:
			ctx.count('seq-generator-rejected')
			continue
		u, variants = got
		for base, kind in u.get('edits', []):
			ctx.count('seq:edit-kind:' + kind)
		for name, steps in seq_edit_templates(rng, u, variants):
			ctx.count('seq:template:' + name)
			yield 'seq', dict(u, steps=steps)
			n_e += 1
		for _ in range(ctx.pick(4, 12)):
			yield 'seq', dict(u, steps=seq_edit_random_steps(rng, u, variants))
			ctx.count('seq:template:random-edits')
			n_e += 1
	ctx.count('stream:genome-set-edited-between-uses', n_e)


NAME_STEMS = ['a', 'b', 'x.tar', 'a.', '.hid', '', 'é', 'a b', '.']
NAME_EXTS = ['.gdb', '.db', '.gs', '.h5', '.GDB', '.GS', '.gdb.', '.gsx', '', '.txt', '.db.bak', '.H5', '.g.s']


def name_pool():
	names = []
	for s in NAME_STEMS:
		for e in NAME_EXTS:
			n = s + e
			if valid_name(n) and n not in names:
				names.append(n)
	return names


def natural(n):
	return 'gdb' if has_ext(n, GEXT) else 'sig' if has_ext(n, SEXT) else 'junk'


def generate(ctx):
	rng = ctx.rng
	ctx.rule(RULE)
	for a in ASSUMPTIONS:
		ctx.assume(a)

	# ---- exhaustive: every order of <= N signatures x 4 attributes, every single padding position ------------
	N = ctx.pick(4, 5)
	n_ex = 0
	for attr in ATTRS:
		for n in range(0, N + 1):
			genomes = mk_genomes(n, extra_rows=1)
			for order in itertools.permutations(range(n)):
				pads = [()] + [(p,) for p in range(n + 1)] + ([(0, n + 1)] if n else [])
				for extras in pads:
					cs = [None, 1, 2][(n_ex) % 3]
					yield 'load', load_case(attr, genomes, complete_sigs(genomes, attr, order, extras), cs,
					                        via='ctor' if n_ex % 5 == 0 else 'dir')
					n_ex += 1
	ctx.count('stream:exhaustive-orders-paddings', n_ex)

	# ---- every way of violating completeness (n = 3) ----------------------------------------------------
	n_bad = 0
	for attr in ATTRS:
		col = 1 + ATTRS.index(attr)
		genomes = mk_genomes(3, extra_rows=1)
		full = complete_sigs(genomes, attr, (2, 0, 1), (1,))
		# id_attr absent / not an identifier attribute / a different attribute than the one the ids belong to
		yield 'load', load_case(None, genomes, full)
		yield 'load', load_case('description', genomes, full)
		yield 'load', load_case('id', genomes, full)
		for other in ATTRS:
			if other != attr:
				yield 'load', load_case(other, genomes, full)
				n_bad += 1
		n_bad += 3
		# one genome's signature dropped / replaced by an unrelated one / by a repeat of another genome's id
		for victim in range(3):
			keep = [s for s in full if s[0] != genomes[victim][col]]
			yield 'load', load_case(attr, genomes, keep)
			yield 'load', load_case(attr, genomes, keep + [[foreign_id(attr, 7), 9]])
			for other in range(3):
				if other != victim:
					rep = [list(s) for s in full]
					for s in rep:
						if s[0] == genomes[victim][col]:
							s[0] = genomes[other][col]
					yield 'load', load_case(attr, genomes, rep)
					yield 'load', load_case(attr, genomes, rep, via='ctor', chunksize=1)
					n_bad += 2
			n_bad += 2
			# the signature is there but under the identifier of the row outside the set
			swapped = [[genomes[3][col] if s[0] == genomes[victim][col] else s[0], s[1]] for s in full]
			yield 'load', load_case(attr, genomes, swapped)
			# a repeat that keeps every genome covered
			yield 'load', load_case(attr, genomes, full + [[genomes[victim][col], 10]])
			n_bad += 2
			# the genome has no value for the attribute (NULL), with and without a signature that could match
			if attr != 'key':
				g2 = mk_genomes(3, extra_rows=1, holes={(victim, col): None})
				yield 'load', load_case(attr, g2, full)
				yield 'load', load_case(attr, g2, [s for s in full if s[0] != genomes[victim][col]])
				n_bad += 2
		# identifiers of the right value but the wrong type
		if attr == 'ncbi_id':
			yield 'load', load_case(attr, genomes, [[str(s[0]), s[1]] for s in full])
		else:
			yield 'load', load_case(attr, mk_genomes(3, holes={(0, 1): '5001', (1, 1): '5002', (2, 1): '5003'}) if attr == 'key' else genomes,
			                        [[5001, 0], [5002, 1], [5003, 2]])
		n_bad += 1
		# empty file, empty genome set
		yield 'load', load_case(attr, genomes, [])
		yield 'load', load_case(attr, mk_genomes(0, extra_rows=2), full)
		n_bad += 2
	# two genomes of the set share an ncbi_id (different ncbi_db): one signature cannot serve both
	g = mk_genomes(3, ncbi_dbs=('assembly', 'nuccore'), holes={(1, 4): 5001})
	yield 'load', load_case('ncbi_id', g, [[5001, 0], [5003, 2]])
	yield 'load', load_case('ncbi_id', g, [[5001, 0], [5001, 1], [5003, 2]])
	n_bad += 2
	ctx.count('stream:incomplete-files', n_bad)

	# ---- random: larger sets, random order, random padding, random defects ------------------------------
	n_r = ctx.pick(500, 5000)
	for _ in range(n_r):
		attr = rng.choice(ATTRS)
		col = 1 + ATTRS.index(attr)
		n = rng.choice([2, 3, 5, 8, 12])
		genomes = mk_genomes(n, extra_rows=rng.choice([0, 0, 2]))
		order = list(range(n))
		rng.shuffle(order)
		extras = [rng.randint(0, n + 3) for _ in range(rng.choice([0, 1, 3, 6]))]
		sigs = complete_sigs(genomes, attr, order, extras)
		r = rng.random()
		if r < 0.15 and sigs:
			del sigs[rng.randrange(len(sigs))]
		elif r < 0.3:
			j = rng.randrange(len(sigs))
			sigs[j] = [sigs[rng.randrange(len(sigs))][0], sigs[j][1]]
		elif r < 0.36:
			sigs.append(list(rng.choice(sigs)))
		yield 'load', load_case(attr, genomes, sigs, rng.choice([None, 1, 2, 3, 7, 1000]), rng.sample(range(NQUERY), rng.choice([1, 2, 4])),
		                        via=rng.choice(['dir', 'dir', 'ctor']), report=rng.choice([1, 3, 10]))
	ctx.count('stream:random-files', n_r)

	# ---- directories ---------------------------------------------------------------------------------
	pool = name_pool()
	n_d = 0
	for n in pool:
		yield 'dir', dict(entries=[[n, natural(n)]])
		n_d += 1
	core = ['a.gdb', 'b.db', 'x.tar.gs', 'a.h5', '.gdb', '.gs', 'y.GS', 'a.gdb.', 'a..gs', 'é.db', 'a b.h5', 'a.txt']
	for x, y in itertools.combinations(core, 2):
		yield 'dir', dict(entries=[[x, natural(x)], [y, natural(y)]])
		n_d += 1
	if not ctx.quick:
		for tri in itertools.combinations(core, 3):
			yield 'dir', dict(entries=[[x, natural(x)] for x in tri])
			n_d += 1
	# what the entries are: sub-directories and wrong contents under database names
	for gk, sk in itertools.product(['gdb', 'sig', 'dir', 'junk'], repeat=2):
		yield 'dir', dict(entries=[['refs.gdb', gk], ['refs.gs', sk]])
		yield 'dir', dict(entries=[['refs.db', gk], ['refs.h5', sk], ['notes.txt', 'junk'], ['sub', 'dir']])
		n_d += 2
	for extra, kind in [('old.gdb', 'dir'), ('old.db', 'junk'), ('old.gs', 'dir'), ('old.h5', 'gdb'), ('x.gdb', 'gdb'), ('x.gs', 'sig')]:
		yield 'dir', dict(entries=[['refs.gdb', 'gdb'], ['refs.gs', 'sig'], [extra, kind]])
		n_d += 1
	ctx.count('stream:directories-enumerated', n_d)
	n_dr = ctx.pick(350, 4000)
	for _ in range(n_dr):
		k = rng.choice([1, 2, 3, 4, 6])
		names = rng.sample(pool, k)
		ents = []
		for n in names:
			kind = natural(n) if rng.random() < 0.8 else rng.choice(['gdb', 'sig', 'dir', 'junk'])
			ents.append([n, kind])
		yield 'dir', dict(entries=ents)
	ctx.count('stream:directories-random', n_dr)

	# ---- command line -------------------------------------------------------------------------------
	n_c = 0
	for attr in ATTRS:
		col = 1 + ATTRS.index(attr)
		genomes = mk_genomes(5, extra_rows=1)
		order = [3, 0, 4, 2, 1]
		yield 'cli', load_case(attr, genomes, complete_sigs(genomes, attr, order, (0, 2, 9)))
		yield 'cli', load_case(attr, genomes, complete_sigs(genomes, attr, order, (0, 2, 9))[:-2])
		dup = complete_sigs(genomes, attr, order, (1,))
		dup = [s for s in dup if s[0] != genomes[1][col]]
		dup.append([genomes[0][col], 11])
		yield 'cli', load_case(attr, genomes, dup)
		n_c += 3
	yield 'cli', load_case(None, mk_genomes(2), complete_sigs(mk_genomes(2), 'key', (1, 0)))
	n_c += 1
	for _ in range(ctx.pick(20, 150)):
		attr = rng.choice(ATTRS)
		n = rng.choice([2, 4, 7])
		genomes = mk_genomes(n, extra_rows=1)
		order = list(range(n))
		rng.shuffle(order)
		yield 'cli', load_case(attr, genomes, complete_sigs(genomes, attr, order, [rng.randint(0, n) for _ in range(rng.choice([0, 2, 5]))]))
		n_c += 1
	ctx.count('stream:cli', n_c)

	# ---- streams added by the coverage audit (see the table in the module docstring) -----------------------
	yield from gen_identifier_values(ctx, rng)
	yield from gen_heavy_padding(ctx, rng)
	yield from gen_size_structure(ctx, rng)
	yield from gen_id_storage(ctx, rng)
	yield from gen_entry_forms(ctx, rng)
	yield from gen_not_id_attrs(ctx, rng)
	yield from gen_compound(ctx, rng)
	yield from gen_multi(ctx, rng)
	yield from gen_match(ctx, rng)
	yield from gen_dir_special(ctx, rng)
	yield from gen_cli_forms(ctx, rng)
	yield from gen_db_layouts(ctx, rng)
	yield from gen_seq(ctx, rng)
	yield from gen_seq_edits(ctx, rng)

	ctx.exhaustive = True
	ctx.extra['exhaustive_scope'] = (f'load: for each of the 4 identifier attributes, every order of the signatures of <= {N} genomes x '
	                                 '{no padding, one unrelated signature at every position, one at both ends}; every single-genome way '
	                                 'of breaking completeness of a 3-genome set (dropped, replaced, repeated, NULL value, wrong attribute, '
	                                 'wrong type, id_attr None/unknown); database-layouts: every insertion order of the annotation rows '
	                                 'of 3 genomes (registered first, one row outside the set between them) x every order of their '
	                                 'signatures in the file, every insertion order of the annotation rows of 4 genomes. dir: every single name of the grammar '
	                                 f'({len(pool)} names), every pair of 12 core names, all 16 content combinations of a well-named pair')
