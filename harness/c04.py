"""C04 -- each reference genome is compared through its own signature, matched by ID.

Tie: B.  Every case is realised as real files written by the harness -- an SQLite genome database (copied
from a template holding the schema, one genome set and one taxon; genome rows inserted with sqlite3) and an
HDF5 signature file (`dump_signatures` of an `AnnotatedSignatures` with the case's identifiers, in the
case's order, with the case's `id_attr`) -- and loaded by the code under test:

  load   `ReferenceDatabase.load_from_dir(dir)` (or load_genomeset + load_signatures + the constructor),
         then `jaccarddist_matrix(queries, db.signatures, ref_indices=db.sig_indices, chunksize=c)` and
         `gambit.query.query(db, queries, params)`;
  dir    a directory whose entries come from a grammar of names (a.gdb, .gdb, x.tar.gs, y.GS, a..h5,
         b.db., duplicates, sub-directories named like database files, genome databases named like
         signature files ...): `locate_files` and `load_from_dir`;
  cli    `gambit -d DIR query -s QUERIES -f json -o OUT` in process.

The same case is given to the extracted model (Model/C04.v: 402 repaired constructor, 401 constructor as
found, 403 load_from_dir, 405 locate_files, 406 suffix, 408 chunked matrix through the indices) and to the
extracted specification (407 `completeb`, proved equivalent to "loading succeeds").  Model inputs are the
harness's own tables (which genome row has which identifier values, which pool signature was stored under
which identifier at which position).

Property predicate (what is reported as a violation, with the input as replay), computed from those tables
alone: if the metadata names no identifier attribute, a genome of the set has no value for it, or no
signature of the file carries a genome's value, loading must fail; if a database is produced, its genomes
are the genome set (each once), genomes[j] carries the identifier stored at sig_indices[j], and every
distance (matrix cell, every `closest_genomes` entry of every query result, the closest match) equals the
directly computed distance between the query and the pool signature stored under that genome's
identifier; a complete, unambiguous file must load whatever its order and padding.  A directory yields
files / a database only if exactly one entry has a genome-file name and exactly one a signature-file name
(name = non-empty stem + .gdb/.db resp. .gs/.h5).  A model/implementation difference that leaves this
predicate true is reported as a broken tie."""
import itertools
import json
import os
import random
import shutil
import sqlite3

import numpy as np

PROP = 'C04'
RULE = ('load: genome rows (4 identifier columns, NULLs, rows outside the genome set) x signature file (identifiers '
        'in any order, unrelated extras, repeats, wrong type) x id_attr (4 names, None, other string) x chunksize; '
        'non-trivial: >=2 genomes in the set and the file is not simply "genome order, no extras" (or it is '
        'incomplete / ambiguous), pool distances to every query pairwise distinct so any misalignment shows. '
        'dir: directory listing from the name grammar; non-trivial: >=2 entries or an entry whose name is a near '
        'miss of a database file name. cli: query through the command line; non-trivial as load')
TRUSTED = ['SQLAlchemy/SQLite: `genomeset.genomes.join(...).add_columns(attr)` returns one row per AnnotatedGenome of '
           'the set with the stored column value; `.filter(attr == None).count()` counts the NULLs; `.count()` the rows; '
           'one ORM object per row (identity map) -- modelled as list operations over the harness\'s row table',
           'h5py/libhdf5: a string / integer dataset reads back as written (identifiers without NUL characters); '
           'metadata attribute id_attr reads back as written (None as h5py.Empty)',
           'pathlib.PurePath.suffix (CPython 3.12 source) and os.scandir: modelled by Model/C04.v suffix over code points; '
           'names of one directory are pairwise distinct',
           'NumPy float32 division of the exact intersection/union counts as the directly computed distance '
           '(cross-checked against gambit.metric.jaccarddist on the whole pool in setup)',
           'harness/c04.py file construction (template database + sqlite3 inserts, dump_signatures)']
ASSUMPTIONS = ['rows of the genome set are distinct rows (hypothesis NoDup gs of C04_success_iff): primary keys are unique',
               'Python equality of identifier values is equality of (type, value): int vs str never equal; NumPy integers '
               'equal to Python ints of the same value',
               'jaccarddist_array(query, chunk) is map (jaccarddist query) chunk (property C05); chunksize is None or > 0',
               'the genome database holds exactly one genome set; files do not change while loaded']
CORRESPONDENCES = ['load', 'dir', 'cli']
BATCH = 250
SHRINK = False      # cases are generated smallest-first; generic list shrinking breaks the case invariants

ATTRS = ['key', 'genbank_acc', 'refseq_acc', 'ncbi_id']
ATTR_CODE = {'key': 0, 'genbank_acc': 1, 'refseq_acc': 2, 'ncbi_id': 3}
K, PREFIX = 6, 'AT'
POOL_SEED = 40004
NPOOL, NQUERY = 20, 4
ERRNAME = {1: 'id_attr None', 2: 'bad id_attr', 3: 'genomes without value', 4: 'unmatched genomes', 5: 'duplicated match',
           6: 'no genome file', 7: 'multiple genome files', 8: 'no signature file', 9: 'multiple signature files',
           10: 'not a genome db', 11: 'not a signature file'}

_S = {}


# ------------------------------------------------------------------------------------------------
# setup: signature pool, template database
# ------------------------------------------------------------------------------------------------

def setup(ctx):
	from vf import impl
	impl.check_import()
	try:     # the matrices here are tiny: 16 spinning OpenMP threads only cost time
		from gambit._cython.threads import omp_set_num_threads
		omp_set_num_threads(1)
	except Exception:
		pass
	_S['root'] = impl.scratch_dir('gambit-verif-c04-')
	_S['n'] = 0
	_pool()
	_template()


def _f32(x):
	return float(np.float32(x))


def _direct(a, b):
	"""directly computed Jaccard distance of two k-mer sets, one binary32 rounding"""
	u = len(a | b)
	if u == 0:
		return 0.0
	return _f32(np.float32(u - len(a & b)) / np.float32(u))


def _pool():
	"""NPOOL reference signatures and NQUERY query signatures (deterministic); for every query the distances to
	the pool are pairwise distinct, so a genome compared through a wrong signature is always visible"""
	if 'pool' in _S:
		return
	seed = POOL_SEED
	while True:
		rng = random.Random(seed)
		core = set(rng.sample(range(4 ** K), 150))
		sigs = []
		for i in range(NPOOL + NQUERY):
			keep = set(x for x in core if rng.random() < rng.choice([0.2, 0.5, 0.8]))
			own = set(rng.sample(range(4 ** K), rng.randint(10, 120)))
			sigs.append(keep | own)
		refs, qs = sigs[:NPOOL], sigs[NPOOL:]
		table = [[_direct(q, r) for r in refs] for q in qs]
		if all(len(set(row)) == NPOOL and all(0 < d < 1 for d in row) for row in table):
			break
		seed += 1
	_S['pool'] = [np.array(sorted(s), dtype=np.uint16) for s in refs]
	_S['queries'] = [np.array(sorted(s), dtype=np.uint16) for s in qs]
	_S['table'] = table
	# the directly computed distances are what the pairwise kernel (property C02) gives
	from gambit.metric import jaccarddist
	for qi, q in enumerate(_S['queries']):
		for ri, r in enumerate(_S['pool']):
			if _f32(jaccarddist(q, r)) != table[qi][ri]:
				raise RuntimeError(f'direct distance {table[qi][ri]} != jaccarddist {jaccarddist(q, r)} (pool {qi},{ri})')


def _template():
	from sqlalchemy import create_engine
	from sqlalchemy.orm import Session
	from gambit.db.models import Base, ReferenceGenomeSet, Taxon
	path = os.path.join(_S['root'], 'template.sqlite')
	eng = create_engine('sqlite:///' + path)
	Base.metadata.create_all(eng)
	with Session(eng) as s:
		gs = ReferenceGenomeSet(id=1, key='verif/c04', version='1.0', name='c04')
		s.add(gs)
		s.add(Taxon(id=1, key='t1', name='Taxon one', rank='species', genome_set=gs, distance_threshold=0.9, report=True))
		s.commit()
	eng.dispose()
	_S['template'] = path
	# query signatures for the command line
	from gambit.sigs import SignatureList, AnnotatedSignatures, SignaturesMeta, dump_signatures
	from gambit.kmers import KmerSpec
	qpath = os.path.join(_S['root'], 'queries.gs')
	ql = SignatureList(_S['queries'], KmerSpec(K, PREFIX))
	dump_signatures(qpath, AnnotatedSignatures(ql, np.array([f'q{i}' for i in range(NQUERY)]), SignaturesMeta()), 'hdf5')
	_S['qfile'] = qpath
	# the fixed small database used by the directory cases
	_S['dir_case'] = dict(attr='key',
	                      genomes=[[1, 'g1', None, None, None, None, True], [2, 'g2', None, None, None, None, True],
	                               [3, 'g3', None, None, None, None, True]],
	                      sigs=[['x', 7], ['g3', 2], ['g1', 0], ['y', 9], ['g2', 1]])
	d = os.path.join(_S['root'], 'dirsrc')
	os.makedirs(d)
	write_genome_db(os.path.join(d, 'genomes'), _S['dir_case']['genomes'])
	write_sig_file(os.path.join(d, 'sigs'), _S['dir_case']['sigs'], 'key')
	_S['dirsrc'] = d


def write_genome_db(path, genomes):
	"""genomes: [pk, key, genbank_acc, refseq_acc, ncbi_id, ncbi_db, in_set]"""
	shutil.copyfile(_S['template'], path)
	con = sqlite3.connect(path)
	try:
		for pk, key, gb, rs, nid, ndb, in_set in genomes:
			con.execute('INSERT INTO genomes (id, key, description, ncbi_db, ncbi_id, genbank_acc, refseq_acc) VALUES (?,?,?,?,?,?,?)',
			            (pk, key, f'genome {pk}', ndb, nid, gb, rs))
			if in_set:
				con.execute('INSERT INTO genome_annotations (genome_id, genome_set_id, taxon_id, organism) VALUES (?,1,1,?)',
				            (pk, f'organism {pk}'))
		con.commit()
	finally:
		con.close()


def write_sig_file(path, sigs, attr):
	"""sigs: [identifier, pool index] in file order; attr: metadata id_attr (None = absent)"""
	from gambit.sigs import SignatureList, AnnotatedSignatures, SignaturesMeta, dump_signatures
	from gambit.kmers import KmerSpec
	sl = SignatureList([_S['pool'][p] for _, p in sigs], KmerSpec(K, PREFIX), dtype=np.uint16)
	ids = [i for i, _ in sigs]
	if ids and all(isinstance(i, int) for i in ids):
		arr = np.array(ids, dtype=np.int64)
	elif ids:
		arr = np.array([str(i) for i in ids], dtype=object)
	else:
		arr = np.array([], dtype=np.int64)
	dump_signatures(path, AnnotatedSignatures(sl, arr, SignaturesMeta(id_attr=attr, name='c04')), 'hdf5')


def _newdir():
	_S['n'] += 1
	d = os.path.join(_S['root'], f'case{_S["n"]}')
	os.makedirs(d)
	return d


# ------------------------------------------------------------------------------------------------
# the harness's own reading of a case (oracle) and its wire form
# ------------------------------------------------------------------------------------------------

def validate(case):
	g = case['genomes']
	if len({x[0] for x in g}) != len(g) or len({x[1] for x in g}) != len(g):
		return False
	for col in (2, 3):
		vals = [x[col] for x in g if x[col] is not None]
		if len(set(vals)) != len(vals):
			return False
	pairs = [(x[5], x[4]) for x in g if x[4] is not None and x[5] is not None]
	if len(set(pairs)) != len(pairs):
		return False
	ids = [s[0] for s in case['sigs']]
	if not (all(isinstance(i, int) and not isinstance(i, bool) for i in ids) or all(isinstance(i, str) and '\0' not in i for i in ids)):
		return False
	if any(not (0 <= s[1] < NPOOL) for s in case['sigs']):
		return False
	cs = case.get('chunksize')
	return cs is None or cs > 0


def value_of(grow, attr):
	return grow[1 + ATTRS.index(attr)]


def same_id(a, b):
	return type(a) is type(b) and a == b


def oracle(case):
	"""-> dict(must_fail=reason|None, must_load=bool, own={pk: [positions]}, inset=[rows])"""
	attr = case['attr']
	inset = [g for g in case['genomes'] if g[6]]
	if attr is None:
		return dict(must_fail='the metadata names no identifier attribute (id_attr is None)', must_load=False, own={}, inset=inset)
	if attr not in ATTRS:
		return dict(must_fail=f'the metadata names no identifier attribute ({attr!r} is not one)', must_load=False, own={}, inset=inset)
	own = {}
	reason = None
	for g in inset:
		v = value_of(g, attr)
		if v is None:
			reason = reason or f'genome {g[1]!r} has no value for {attr}'
			own[g[0]] = []
			continue
		own[g[0]] = [j for j, s in enumerate(case['sigs']) if same_id(s[0], v)]
		if not own[g[0]]:
			reason = reason or f'genome {g[1]!r} ({attr}={v!r}) has no signature in the file'
	vals = [value_of(g, attr) for g in inset]
	distinct = len({(type(v), v) for v in vals}) == len(vals)
	must_load = reason is None and distinct and all(len(p) == 1 for p in own.values())
	return dict(must_fail=reason, must_load=must_load, own=own, inset=inset)


def w_id(v):
	if v is None:
		return []
	if isinstance(v, int):
		return [[0, v]]
	return [[1] + [ord(c) for c in v]]


def w_genomes(case):
	return [[g[0], w_id(g[1]), w_id(g[2]), w_id(g[3]), w_id(g[4])] for g in sorted(case['genomes']) if g[6]]


def w_meta(attr):
	if attr is None:
		return []
	return [ATTR_CODE.get(attr, 9)]


def w_ids(case):
	return [w_id(s[0])[0] for s in case['sigs']]


def model_obs(ans):
	if ans[0] == 0:
		pks, idxs = ans[1]
		return ('ok', sorted(zip(idxs, pks)))
	if ans[0] == 1:
		return ('err', ERRNAME.get(ans[1], str(ans[1])))
	return ('bad', ans)


# ------------------------------------------------------------------------------------------------
# implementation side
# ------------------------------------------------------------------------------------------------

def _close(db):
	try:
		db.session.close()
		db.session.get_bind().dispose()
	except Exception:
		pass
	try:
		db.signatures.close()
	except Exception:
		pass


def impl_load(case, d):
	"""-> ('err', class) | ('ok', [(sig_index, pk)...] in list order, matrix rows, query observations)"""
	from gambit.db import ReferenceDatabase
	from gambit.db.refdb import load_genomeset
	from gambit.sigs import load_signatures
	from gambit.metric import jaccarddist_matrix
	from gambit.query import query, QueryParams
	db = None
	sigs = None
	try:
		try:
			if case.get('via') == 'ctor':
				gf, sf = ReferenceDatabase.locate_files(d)
				session, gset = load_genomeset(gf)
				sigs = load_signatures(sf)
				db = ReferenceDatabase(gset, sigs)
			else:
				db = ReferenceDatabase.load_from_dir(d)
		except Exception as e:     # noqa: the property only says "fails with an error"
			if sigs is not None:
				try:
					sigs.close()
				except Exception:
					pass
			return ('err', type(e).__name__)
		pairs = [(int(k), int(g.genome_id)) for g, k in zip(db.genomes, db.sig_indices)]
		if len(db.genomes) != len(db.sig_indices):
			return ('ok', pairs, f'genomes and sig_indices differ in length ({len(db.genomes)} vs {len(db.sig_indices)})', None)
		stored = [x.item() if hasattr(x, 'item') else x for x in db.signatures.ids]
		qs = [_S['queries'][i] for i in case['queries']]
		mat = None
		qobs = None
		if pairs and qs:
			try:
				m = jaccarddist_matrix(qs, db.signatures, ref_indices=db.sig_indices, chunksize=case.get('chunksize'))
				mat = [[_f32(x) for x in row] for row in m]
			except Exception as e:     # noqa
				mat = f'jaccarddist_matrix raised {type(e).__name__}: {e}'
			try:
				res = query(db, qs, QueryParams(chunksize=case.get('chunksize'), report_closest=case.get('report', 3)))
				qobs = []
				for item in res.items:
					cm = item.classifier_result.closest_match
					qobs.append(dict(closest=[(int(mm.genome.genome_id), _f32(mm.distance)) for mm in item.closest_genomes],
					                 match=(int(cm.genome.genome_id), _f32(cm.distance))))
			except Exception as e:     # noqa
				qobs = f'query raised {type(e).__name__}: {e}'
		return ('ok', pairs, mat, qobs, stored)
	finally:
		if db is not None:
			_close(db)


def judge_loaded(case, orc, pairs, mat, qobs):
	"""property predicate on a produced database; None if it holds"""
	inset = orc['inset']
	attr = case['attr']
	by_pk = {g[0]: g for g in inset}
	got = sorted(pk for _, pk in pairs)
	want = sorted(by_pk)
	if got != want:
		missing = [by_pk[p][1] for p in want if p not in got]
		twice = sorted({by_pk[p][1] for p in got if got.count(p) > 1 and p in by_pk})
		foreign = [p for p in got if p not in by_pk]
		return ('the loaded genomes are not the genome set: ' +
		        '; '.join(x for x in [f'without signature: {missing}' if missing else '', f'listed twice: {twice}' if twice else '',
		                              f'not in the set: {foreign}' if foreign else ''] if x))
	for k, pk in pairs:
		v = value_of(by_pk[pk], attr)
		if not (0 <= k < len(case['sigs'])) or not same_id(case['sigs'][k][0], v):
			sid = case['sigs'][k][0] if 0 <= k < len(case['sigs']) else None
			return f'genome {by_pk[pk][1]!r} ({attr}={v!r}) is paired with signature {k} stored under {sid!r}'
	if isinstance(mat, str):
		return mat
	if isinstance(qobs, str):
		return qobs
	ownpool = {pk: case['sigs'][orc['own'][pk][0]][1] for pk in by_pk}
	if mat is not None:
		for r, qi in enumerate(case['queries']):
			if len(mat[r]) != len(pairs):
				return f'matrix row {r} has {len(mat[r])} columns for {len(pairs)} genomes'
			for j, (k, pk) in enumerate(pairs):
				want_d = _S['table'][qi][ownpool[pk]]
				if mat[r][j] != want_d:
					return (f'query {qi}, genome {by_pk[pk][1]!r}: distance {mat[r][j]!r} reported, directly computed distance to its '
					        f'own signature is {want_d!r}')
	if qobs is not None:
		for r, qi in enumerate(case['queries']):
			best = min(_S['table'][qi][ownpool[pk]] for pk in by_pk)
			for pk, dd in qobs[r]['closest'] + [qobs[r]['match']]:
				if pk not in by_pk:
					return f'query {qi}: result names genome {pk} which is not in the set'
				if dd != _S['table'][qi][ownpool[pk]]:
					return (f'query {qi}: result reports distance {dd!r} for genome {by_pk[pk][1]!r}, directly computed '
					        f'distance to its own signature is {_S["table"][qi][ownpool[pk]]!r}')
			if qobs[r]['match'][1] != best or (qobs[r]['closest'] and qobs[r]['closest'][0][1] != best):
				return f'query {qi}: closest match at {qobs[r]["match"][1]!r}, the closest own signature is at {best!r}'
	return None


def nontrivial_load(case, orc):
	inset = orc['inset']
	if len(inset) < 2:
		return False
	if not orc['must_load']:
		return True
	order = [orc['own'][g[0]][0] for g in sorted(inset)]
	return order != list(range(len(inset))) or len(case['sigs']) > len(inset)


def k_load(ctx, cases):
	cases = [c for c in cases if validate(c) or ctx.count('invalid-case-skipped')]
	reqs = []
	for c in cases:
		args = [w_genomes(c), w_meta(c['attr']), w_ids(c)]
		reqs += [(402, args), (401, args)]
		a = c['attr'] if c['attr'] in ATTRS else 'key'
		reqs.append((407, [ATTR_CODE[a], w_genomes(c), w_ids(c)]))
	ans = ctx.model(reqs)
	mreqs = []
	for n, c in enumerate(cases):
		m = model_obs(ans[3 * n])
		if m[0] == 'ok':
			mreqs.append((408, [[s[1] for s in c['sigs']], [k for k, _ in m[1]], [] if c.get('chunksize') is None else [c['chunksize']],
			                    list(c['queries'])]))
	mans = iter(ctx.model(mreqs))
	for n, c in enumerate(cases):
		orc = oracle(c)
		m_fixed, m_orig, spec = model_obs(ans[3 * n]), model_obs(ans[3 * n + 1]), ans[3 * n + 2]
		d = _newdir()
		try:
			write_genome_db(os.path.join(d, 'genomes.gdb'), c['genomes'])
			write_sig_file(os.path.join(d, 'signatures.gs'), c['sigs'], c['attr'])
			o = impl_load(c, d)
		finally:
			shutil.rmtree(d, ignore_errors=True)
		ctx.case(c, nontrivial=nontrivial_load(c, orc))
		ctx.count('load:' + ('loads' if m_fixed[0] == 'ok' else 'fails: ' + m_fixed[1]))
		if o[0] == 'err':
			ctx.count('load:impl-error:' + o[1])
		# specification / oracle / model agree with each other (the harness's reading of the case is the theorem's)
		if c['attr'] in ATTRS and (spec == 1) != orc['must_load']:
			ctx.broke('harness oracle vs extracted specification completeb', f'{c}: oracle must_load={orc["must_load"]}, completeb={spec}')
		if (m_fixed[0] == 'ok') != orc['must_load']:
			ctx.broke('model init_fixed vs harness oracle', f'{c}: model {m_fixed}, oracle {orc["must_load"]}')
		mcols = next(mans) if m_fixed[0] == 'ok' else None
		# ---- the property on this input
		what = None
		if o[0] == 'ok':
			if orc['must_fail']:
				what = f'a database was produced although {orc["must_fail"]}'
			else:
				what = judge_loaded(c, orc, o[1], o[2], o[3])
		elif orc['must_load']:
			what = (f'loading failed with {o[1]} although every genome of the set has exactly one signature stored under its '
			        f'{c["attr"]} (file order / unrelated signatures must not matter)')
		if what:
			ctx.violation('load', c, what, impl=_show(o), spec=dict(must_fail=orc['must_fail'], must_load=orc['must_load'],
			              own_signature_positions=orc['own']), model=m_fixed, model_unrepaired=m_orig)
			continue
		# ---- the tie: implementation = model on the observable
		if o[0] == 'ok':
			if m_fixed[0] != 'ok' or sorted(o[1]) != m_fixed[1]:
				ctx.broke('load: implementation vs model (genome, signature index) pairs', f'{c}: impl {sorted(o[1])}, model {m_fixed}')
			elif mcols is not None and o[2] is not None:
				# model cell (query, pool index) -> direct distance
				if mcols[0] != 0:
					ctx.broke('load: model matrix', f'{c}: {mcols}')
				else:
					exp_sorted = [[_S['table'][q][p] for q, p in row] for row in mcols[1]]
					order = sorted(range(len(o[1])), key=lambda j: o[1][j][0])
					got_sorted = [[row[j] for j in order] for row in o[2]]
					if exp_sorted != got_sorted:
						ctx.broke('load: implementation vs model distance matrix', f'{c}: impl {got_sorted}, model {exp_sorted}')
		elif m_fixed[0] == 'ok':
			ctx.broke('load: implementation fails where the model loads', f'{c}: impl {o}, model {m_fixed}')


def _show(o):
	if o[0] == 'err':
		return dict(outcome='error', exception=o[1])
	return dict(outcome='database', pairs_sigindex_genomepk=o[1], matrix=o[2], query=o[3] if len(o) > 3 else None)


# ------------------------------------------------------------------------------------------------
# directories
# ------------------------------------------------------------------------------------------------

CONTENT_CODE = {'gdb': 0, 'sig': 1, 'dir': 2, 'junk': 3}
GEXT, SEXT = ('.gdb', '.db'), ('.gs', '.h5')


def valid_name(n):
	return (isinstance(n, str) and n not in ('', '.', '..') and '/' not in n and '\0' not in n
	        and len(n.encode('utf-8', 'surrogatepass')) <= 200)


def has_ext(n, exts):
	"""independent reading of "is a genome / signature file name": non-empty stem + extension"""
	return any(n.endswith(e) and len(n) > len(e) for e in exts)


def k_dir(ctx, cases):
	from gambit.db import ReferenceDatabase
	ok_cases = []
	for c in cases:
		names = [e[0] for e in c['entries']]
		if all(valid_name(n) for n in names) and len(set(names)) == len(names) and all(e[1] in CONTENT_CODE for e in c['entries']):
			ok_cases.append(c)
		else:
			ctx.count('invalid-case-skipped')
	cases = ok_cases
	dc = _S['dir_case']
	reqs = []
	for c in cases:
		wdir = [[[ord(ch) for ch in n], CONTENT_CODE[k]] for n, k in c['entries']]
		reqs.append((405, [e[0] for e in wdir]))
		reqs.append((403, [wdir, w_genomes(dc), w_meta(dc['attr']), w_ids(dc)]))
	ans = ctx.model(reqs)
	want_pairs = sorted((oracle(dc)['own'][g[0]][0], g[0]) for g in dc['genomes'])
	for n, c in enumerate(cases):
		m_loc, m_load = ans[2 * n], model_obs(ans[2 * n + 1])
		d = _newdir()
		try:
			for name, kind in c['entries']:
				p = os.path.join(d, name)
				if kind == 'dir':
					os.makedirs(p)
				elif kind == 'gdb':
					shutil.copyfile(os.path.join(_S['dirsrc'], 'genomes'), p)
				elif kind == 'sig':
					shutil.copyfile(os.path.join(_S['dirsrc'], 'sigs'), p)
				else:
					with open(p, 'w') as f:
						f.write('not a database\n')
			try:
				gf, sf = ReferenceDatabase.locate_files(d)
				o_loc = ('ok', os.path.basename(str(gf)), os.path.basename(str(sf)))
			except Exception as e:     # noqa
				o_loc = ('err', type(e).__name__)
			o_load = impl_load(dict(dc, queries=[0], chunksize=2), d)
		finally:
			shutil.rmtree(d, ignore_errors=True)
		names = [e[0] for e in c['entries']]
		kinds = dict((e[0], e[1]) for e in c['entries'])
		gm = [x for x in names if has_ext(x, GEXT)]
		sm = [x for x in names if has_ext(x, SEXT)]
		near = any(('gdb' in x.lower() or 'db' in x.lower() or 'gs' in x.lower() or 'h5' in x.lower()) and not has_ext(x, GEXT + SEXT)
		           for x in names)
		ctx.case(c, nontrivial=len(names) >= 2 or near)
		ctx.count(f'dir:genome-files={min(len(gm), 2)}{"+" if len(gm) > 2 else ""},signature-files={min(len(sm), 2)}{"+" if len(sm) > 2 else ""}')
		exact = len(gm) == 1 and len(sm) == 1
		what = None
		if o_loc[0] == 'ok' and not exact:
			what = (f'locate_files returned {o_loc[1:]} although the directory holds {len(gm)} genome file(s) {gm} and '
			        f'{len(sm)} signature file(s) {sm}')
		elif o_loc[0] == 'ok' and (o_loc[1], o_loc[2]) != (gm[0], sm[0]):
			what = f'locate_files returned {o_loc[1:]}, the genome file is {gm[0]!r} and the signature file {sm[0]!r}'
		elif o_loc[0] == 'err' and exact:
			what = f'locate_files failed with {o_loc[1]} although {gm[0]!r} is the only genome file and {sm[0]!r} the only signature file'
		elif o_load[0] == 'ok' and not exact:
			what = f'load_from_dir produced a database from a directory with {len(gm)} genome file(s) and {len(sm)} signature file(s)'
		elif o_load[0] == 'ok' and (kinds[gm[0]] != 'gdb' or kinds[sm[0]] != 'sig'):
			what = f'load_from_dir produced a database although {gm[0]!r} is {kinds[gm[0]]} and {sm[0]!r} is {kinds[sm[0]]}'
		elif o_load[0] == 'ok':
			what = judge_loaded(dict(dc, queries=[0]), oracle(dc), o_load[1], o_load[2], o_load[3])
		elif exact and kinds[gm[0]] == 'gdb' and kinds[sm[0]] == 'sig':
			what = f'load_from_dir failed with {o_load[1]} on a directory with exactly one genome file and one signature file'
		if what:
			ctx.violation('dir', c, what, impl=dict(locate=o_loc, load=_show(o_load)),
			              spec=dict(genome_files=gm, signature_files=sm), model=dict(locate=m_loc, load=m_load))
			continue
		# tie
		if m_loc[0] == 0:
			ml = ('ok', ''.join(map(chr, m_loc[1][0])), ''.join(map(chr, m_loc[1][1])))
		else:
			ml = ('err',)
		if ml[0] != o_loc[0] or (ml[0] == 'ok' and ml != o_loc):
			ctx.broke('dir: locate_files implementation vs model', f'{c}: impl {o_loc}, model {m_loc}')
		if (m_load[0] == 'ok') != (o_load[0] == 'ok') or (m_load[0] == 'ok' and (m_load[1] != sorted(o_load[1]) or m_load[1] != want_pairs)):
			ctx.broke('dir: load_from_dir implementation vs model', f'{c}: impl {_show(o_load)}, model {m_load}')


# ------------------------------------------------------------------------------------------------
# command line
# ------------------------------------------------------------------------------------------------

def k_cli(ctx, cases):
	from click.testing import CliRunner
	import gambit.cli
	cases = [c for c in cases if validate(c) or ctx.count('invalid-case-skipped')]
	ans = ctx.model([(402, [w_genomes(c), w_meta(c['attr']), w_ids(c)]) for c in cases])
	for n, c in enumerate(cases):
		orc = oracle(c)
		m = model_obs(ans[n])
		d = _newdir()
		out = os.path.join(_S['root'], f'out{_S["n"]}.json')
		try:
			write_genome_db(os.path.join(d, 'genomes.gdb'), c['genomes'])
			write_sig_file(os.path.join(d, 'signatures.gs'), c['sigs'], c['attr'])
			r = CliRunner().invoke(gambit.cli.cli, ['-d', d, 'query', '-s', _S['qfile'], '-f', 'json', '-o', out])
			data = None
			if r.exit_code == 0:
				with open(out) as f:
					data = json.load(f)
		except Exception as e:     # noqa
			r = None
			data = f'{type(e).__name__}: {e}'
		finally:
			shutil.rmtree(d, ignore_errors=True)
			if os.path.exists(out):
				os.remove(out)
		ctx.case(c, nontrivial=nontrivial_load(c, orc))
		inset = orc['inset']
		what = None
		ok = isinstance(data, dict)
		ctx.count('cli:' + ('results' if ok else 'error exit'))
		if ok and orc['must_fail']:
			what = f'gambit query produced results although {orc["must_fail"]}'
		elif ok and inset:
			by_key = {g[1]: g for g in inset}
			for qi, item in enumerate(data['items']):
				ownpool = {g[0]: c['sigs'][orc['own'][g[0]][0]][1] for g in inset if len(orc['own'][g[0]]) >= 1}
				best = min(_S['table'][qi][ownpool[g[0]]] for g in inset) if orc['must_load'] else None
				for j, mm in enumerate(item['closest_genomes']):
					key, dd = mm['genome']['key'], _f32(mm['distance'])
					if key not in by_key:
						what = f'query q{qi}: result names genome {key!r} which is not in the set'
					elif not orc['must_load']:
						what = f'gambit query produced results from an ambiguous signature file ({key!r} listed)'
					elif dd != _S['table'][qi][ownpool[by_key[key][0]]]:
						what = (f'query q{qi}: distance {dd!r} reported for genome {key!r}, directly computed distance to its own '
						        f'signature is {_S["table"][qi][ownpool[by_key[key][0]]]!r}')
					elif j == 0 and dd != best:
						what = f'query q{qi}: closest genome reported at {dd!r}, the closest own signature is at {best!r}'
					if what:
						break
				if what:
					break
		elif not ok and orc['must_load'] and inset:
			what = (f'gambit query failed (exit {getattr(r, "exit_code", None)}: {str(getattr(r, "exception", "") or getattr(r, "output", ""))[:200]}) '
			        'although every genome has exactly one signature stored under its identifier')
		if what:
			ctx.violation('cli', c, what, impl=data if not ok else [[(mm['genome']['key'], mm['distance']) for mm in it['closest_genomes']] for it in data['items']],
			              spec=dict(must_fail=orc['must_fail'], must_load=orc['must_load']), model=m)
		elif inset and ok != (m[0] == 'ok'):
			ctx.broke('cli: gambit query vs model', f'{c}: cli {"results" if ok else "error"}, model {m}')


KINDS = {'load': k_load, 'dir': k_dir, 'cli': k_cli}


# ------------------------------------------------------------------------------------------------
# generators
# ------------------------------------------------------------------------------------------------

def mk_genomes(n, extra_rows=0, holes=None, ncbi_dbs=('assembly',)):
	"""n genomes in the set + extra_rows genome rows outside it; every identifier column filled unless `holes`
	maps (row, column) to None"""
	rows = []
	for i in range(n + extra_rows):
		pk = i + 1
		row = [pk, f'key/{pk}', f'GCA_{100 + pk}.1', f'GCF_{100 + pk}.1', 5000 + pk, ncbi_dbs[i % len(ncbi_dbs)], i < n]
		rows.append(row)
	for (r, col), v in (holes or {}).items():
		rows[r][col] = v
	return rows


def sig_ids_for(genomes, attr_col):
	return [g[attr_col] for g in genomes]


def foreign_id(attr, j):
	return 900000 + j if attr == 'ncbi_id' else f'unrelated-{j}'


def load_case(attr, genomes, sigs, chunksize=None, queries=(0, 1), via='dir', report=3):
	return dict(attr=attr, genomes=genomes, sigs=[list(s) for s in sigs], chunksize=chunksize, queries=list(queries), via=via, report=report)


def complete_sigs(genomes, attr, order, extras_at=()):
	"""one signature per in-set genome (genome i gets pool signature i), in `order`, with unrelated signatures
	inserted at the positions `extras_at`"""
	col = 1 + ATTRS.index(attr)
	inset = [g for g in genomes if g[6]]
	sigs = [[inset[i][col], i] for i in order]
	for n, pos in enumerate(sorted(extras_at)):
		sigs.insert(min(pos, len(sigs)), [foreign_id(attr, n), NPOOL - 1 - (n % 6)])
	return sigs


NAME_STEMS = ['a', 'b', 'x.tar', 'a.', '.hid', '', 'é', 'a b', '.']
NAME_EXTS = ['.gdb', '.db', '.gs', '.h5', '.GDB', '.GS', '.gdb.', '.gsx', '', '.txt', '.db.bak', '.H5', '.g.s']


def name_pool():
	names = []
	for s in NAME_STEMS:
		for e in NAME_EXTS:
			n = s + e
			if valid_name(n) and n not in names:
				names.append(n)
	return names


def natural(n):
	return 'gdb' if has_ext(n, GEXT) else 'sig' if has_ext(n, SEXT) else 'junk'


def generate(ctx):
	rng = ctx.rng
	ctx.rule(RULE)
	for a in ASSUMPTIONS:
		ctx.assume(a)

	# ---- exhaustive: every order of <= N signatures x 4 attributes, every single padding position ------------
	N = ctx.pick(4, 5)
	n_ex = 0
	for attr in ATTRS:
		for n in range(0, N + 1):
			genomes = mk_genomes(n, extra_rows=1)
			for order in itertools.permutations(range(n)):
				pads = [()] + [(p,) for p in range(n + 1)] + ([(0, n + 1)] if n else [])
				for extras in pads:
					cs = [None, 1, 2][(n_ex) % 3]
					yield 'load', load_case(attr, genomes, complete_sigs(genomes, attr, order, extras), cs,
					                        via='ctor' if n_ex % 5 == 0 else 'dir')
					n_ex += 1
	ctx.count('stream:exhaustive-orders-paddings', n_ex)

	# ---- every way of violating completeness (n = 3) ----------------------------------------------------
	n_bad = 0
	for attr in ATTRS:
		col = 1 + ATTRS.index(attr)
		genomes = mk_genomes(3, extra_rows=1)
		full = complete_sigs(genomes, attr, (2, 0, 1), (1,))
		# id_attr absent / not an identifier attribute / a different attribute than the one the ids belong to
		yield 'load', load_case(None, genomes, full)
		yield 'load', load_case('description', genomes, full)
		yield 'load', load_case('id', genomes, full)
		for other in ATTRS:
			if other != attr:
				yield 'load', load_case(other, genomes, full)
				n_bad += 1
		n_bad += 3
		# one genome's signature dropped / replaced by an unrelated one / by a repeat of another genome's id
		for victim in range(3):
			keep = [s for s in full if s[0] != genomes[victim][col]]
			yield 'load', load_case(attr, genomes, keep)
			yield 'load', load_case(attr, genomes, keep + [[foreign_id(attr, 7), 9]])
			for other in range(3):
				if other != victim:
					rep = [list(s) for s in full]
					for s in rep:
						if s[0] == genomes[victim][col]:
							s[0] = genomes[other][col]
					yield 'load', load_case(attr, genomes, rep)
					yield 'load', load_case(attr, genomes, rep, via='ctor', chunksize=1)
					n_bad += 2
			n_bad += 2
			# the signature is there but under the identifier of the row outside the set
			swapped = [[genomes[3][col] if s[0] == genomes[victim][col] else s[0], s[1]] for s in full]
			yield 'load', load_case(attr, genomes, swapped)
			# a repeat that keeps every genome covered
			yield 'load', load_case(attr, genomes, full + [[genomes[victim][col], 10]])
			n_bad += 2
			# the genome has no value for the attribute (NULL), with and without a signature that could match
			if attr != 'key':
				g2 = mk_genomes(3, extra_rows=1, holes={(victim, col): None})
				yield 'load', load_case(attr, g2, full)
				yield 'load', load_case(attr, g2, [s for s in full if s[0] != genomes[victim][col]])
				n_bad += 2
		# identifiers of the right value but the wrong type
		if attr == 'ncbi_id':
			yield 'load', load_case(attr, genomes, [[str(s[0]), s[1]] for s in full])
		else:
			yield 'load', load_case(attr, mk_genomes(3, holes={(0, 1): '5001', (1, 1): '5002', (2, 1): '5003'}) if attr == 'key' else genomes,
			                        [[5001, 0], [5002, 1], [5003, 2]])
		n_bad += 1
		# empty file, empty genome set
		yield 'load', load_case(attr, genomes, [])
		yield 'load', load_case(attr, mk_genomes(0, extra_rows=2), full)
		n_bad += 2
	# two genomes of the set share an ncbi_id (different ncbi_db): one signature cannot serve both
	g = mk_genomes(3, ncbi_dbs=('assembly', 'nuccore'), holes={(1, 4): 5001})
	yield 'load', load_case('ncbi_id', g, [[5001, 0], [5003, 2]])
	yield 'load', load_case('ncbi_id', g, [[5001, 0], [5001, 1], [5003, 2]])
	n_bad += 2
	ctx.count('stream:incomplete-files', n_bad)

	# ---- random: larger sets, random order, random padding, random defects ------------------------------
	n_r = ctx.pick(500, 5000)
	for _ in range(n_r):
		attr = rng.choice(ATTRS)
		col = 1 + ATTRS.index(attr)
		n = rng.choice([2, 3, 5, 8, 12])
		genomes = mk_genomes(n, extra_rows=rng.choice([0, 0, 2]))
		order = list(range(n))
		rng.shuffle(order)
		extras = [rng.randint(0, n + 3) for _ in range(rng.choice([0, 1, 3, 6]))]
		sigs = complete_sigs(genomes, attr, order, extras)
		r = rng.random()
		if r < 0.15 and sigs:
			del sigs[rng.randrange(len(sigs))]
		elif r < 0.3:
			j = rng.randrange(len(sigs))
			sigs[j] = [sigs[rng.randrange(len(sigs))][0], sigs[j][1]]
		elif r < 0.36:
			sigs.append(list(rng.choice(sigs)))
		yield 'load', load_case(attr, genomes, sigs, rng.choice([None, 1, 2, 3, 7, 1000]), rng.sample(range(NQUERY), rng.choice([1, 2, 4])),
		                        via=rng.choice(['dir', 'dir', 'ctor']), report=rng.choice([1, 3, 10]))
	ctx.count('stream:random-files', n_r)

	# ---- directories ---------------------------------------------------------------------------------
	pool = name_pool()
	n_d = 0
	for n in pool:
		yield 'dir', dict(entries=[[n, natural(n)]])
		n_d += 1
	core = ['a.gdb', 'b.db', 'x.tar.gs', 'a.h5', '.gdb', '.gs', 'y.GS', 'a.gdb.', 'a..gs', 'é.db', 'a b.h5', 'a.txt']
	for x, y in itertools.combinations(core, 2):
		yield 'dir', dict(entries=[[x, natural(x)], [y, natural(y)]])
		n_d += 1
	if not ctx.quick:
		for tri in itertools.combinations(core, 3):
			yield 'dir', dict(entries=[[x, natural(x)] for x in tri])
			n_d += 1
	# what the entries are: sub-directories and wrong contents under database names
	for gk, sk in itertools.product(['gdb', 'sig', 'dir', 'junk'], repeat=2):
		yield 'dir', dict(entries=[['refs.gdb', gk], ['refs.gs', sk]])
		yield 'dir', dict(entries=[['refs.db', gk], ['refs.h5', sk], ['notes.txt', 'junk'], ['sub', 'dir']])
		n_d += 2
	for extra, kind in [('old.gdb', 'dir'), ('old.db', 'junk'), ('old.gs', 'dir'), ('old.h5', 'gdb'), ('x.gdb', 'gdb'), ('x.gs', 'sig')]:
		yield 'dir', dict(entries=[['refs.gdb', 'gdb'], ['refs.gs', 'sig'], [extra, kind]])
		n_d += 1
	ctx.count('stream:directories-enumerated', n_d)
	n_dr = ctx.pick(350, 4000)
	for _ in range(n_dr):
		k = rng.choice([1, 2, 3, 4, 6])
		names = rng.sample(pool, k)
		ents = []
		for n in names:
			kind = natural(n) if rng.random() < 0.8 else rng.choice(['gdb', 'sig', 'dir', 'junk'])
			ents.append([n, kind])
		yield 'dir', dict(entries=ents)
	ctx.count('stream:directories-random', n_dr)

	# ---- command line -------------------------------------------------------------------------------
	n_c = 0
	for attr in ATTRS:
		col = 1 + ATTRS.index(attr)
		genomes = mk_genomes(5, extra_rows=1)
		order = [3, 0, 4, 2, 1]
		yield 'cli', load_case(attr, genomes, complete_sigs(genomes, attr, order, (0, 2, 9)))
		yield 'cli', load_case(attr, genomes, complete_sigs(genomes, attr, order, (0, 2, 9))[:-2])
		dup = complete_sigs(genomes, attr, order, (1,))
		dup = [s for s in dup if s[0] != genomes[1][col]]
		dup.append([genomes[0][col], 11])
		yield 'cli', load_case(attr, genomes, dup)
		n_c += 3
	yield 'cli', load_case(None, mk_genomes(2), complete_sigs(mk_genomes(2), 'key', (1, 0)))
	n_c += 1
	for _ in range(ctx.pick(20, 150)):
		attr = rng.choice(ATTRS)
		n = rng.choice([2, 4, 7])
		genomes = mk_genomes(n, extra_rows=1)
		order = list(range(n))
		rng.shuffle(order)
		yield 'cli', load_case(attr, genomes, complete_sigs(genomes, attr, order, [rng.randint(0, n) for _ in range(rng.choice([0, 2, 5]))]))
		n_c += 1
	ctx.count('stream:cli', n_c)

	ctx.exhaustive = True
	ctx.extra['exhaustive_scope'] = (f'load: for each of the 4 identifier attributes, every order of the signatures of <= {N} genomes x '
	                                 '{no padding, one unrelated signature at every position, one at both ends}; every single-genome way '
	                                 'of breaking completeness of a 3-genome set (dropped, replaced, repeated, NULL value, wrong attribute, '
	                                 'wrong type, id_attr None/unknown). dir: every single name of the grammar '
	                                 f'({len(pool)} names), every pair of 12 core names, all 16 content combinations of a well-named pair')
