"""C10 -- strict classification reports an order-independent consensus of all matches.

Tie: B.  gambit.classify.consensus_taxon / matching_taxon / find_matches / classify(strict=True) are run
on transient ORM objects (Taxon(parent=...), AnnotatedGenome(taxon=...), nothing is flushed to a
database) built from the harness's own parent / threshold tables; the extracted model (Model/C10.v,
repaired trunk algorithm) and the extracted specification (Spec/C10.v: LCA of the most specific
matched taxa) get root paths computed from the same tables.  The specification is evaluated on the
*sorted set* of matched taxa, so `impl(order) != spec(set)` is at the same time a wrong consensus and
an order dependence; an independent Python oracle (maximal elements + LCA on the parent table)
cross-checks the extracted specification.  A third stream builds small reference databases
(sqlite + HDF5) and runs `gambit query --strict -s ... -f archive -o ...` in process."""
import itertools
import re

PROP = 'C10'
RULE = ('consensus: (forest, sequence of matched taxa) -> consensus_taxon; classify: (forest with thresholds, '
        'reference genomes with distances, in a given order) -> classify(strict=True), matching_taxon, find_matches; '
        'cli: the same through a scratch database and `gambit query --strict -f archive`. '
        'non-trivial: at least two distinct matched taxa; counted separately: three-level conflicts '
        '{taxon, a strict descendant, an incomparable taxon of the same tree}')
TRUSTED = ['SQLAlchemy ORM: transient Taxon/AnnotatedGenome objects (parent relationship, identity equality/hash) '
           'behave like loaded ones for .parent/.ancestors()/.distance_threshold',
           'NumPy: np.argmin, float comparison of exactly representable distances k/16 (float32 and float64 arrays) '
           'with Python-float thresholds',
           'CPython dict insertion order / set semantics (modelled by association lists / lists compared as sets)',
           'cli stream: SQLite/SQLAlchemy, h5py and the distance kernel deliver the taxonomy, thresholds and the Jaccard '
           'distances (16-m)/16 the harness designed into the scratch database (query {0..15}, reference = its first m k-mers)']
ASSUMPTIONS = ['the taxonomy is a forest (parent pointers acyclic), so every taxon is identified by its root path',
               'distances and thresholds are finite floats; the harness uses multiples of 1/16 so that the model can use integers',
               'the closest-match fields (closest_match, next_taxon, "Primary genome match is not closest match" warning) '
               'are not part of this property and are not compared',
               'primary match: only its distance and the property predicate are compared with the specification '
               '(ties between equally near genomes are not constrained by the property)']
SHRINK = True
BATCH = 1500


def setup(ctx):
	from vf import impl
	impl.check_import()


# ---------------------------------------------------------------------------------------------
# own tables -> root paths, python oracle

def _paths(parents):
	paths = []
	for i, p in enumerate(parents):
		if not isinstance(p, int) or p >= i or p < -1:
			raise ValueError('bad parent table')
		paths.append([i] if p < 0 else paths[p] + [i])
	return paths


def _is_prefix(a, b):
	return len(a) <= len(b) and b[:len(a)] == a


def _py_spec(paths, idxs):
	"""(consensus index or None, sorted indices strictly below it) for the set idxs, straight from the
	definition: LCA of the members that have no other member strictly below them."""
	s = sorted(set(idxs))
	if not s:
		return None, []
	mx = [i for i in s if not any(j != i and _is_prefix(paths[i], paths[j]) for j in s)]
	l = list(paths[mx[0]])
	for i in mx[1:]:
		q = paths[i]
		n = 0
		while n < len(l) and n < len(q) and l[n] == q[n]:
			n += 1
		l = l[:n]
	if not l:
		return None, s
	c = l[-1]
	return c, [i for i in s if i != c and _is_prefix(paths[c], paths[i])]


def _three_level(paths, idxs):
	s = sorted(set(idxs))
	for x in s:
		for y in s:
			if y != x and _is_prefix(paths[x], paths[y]):
				for z in s:
					if z not in (x, y) and paths[z][0] == paths[x][0] and not _is_prefix(paths[x], paths[z]) \
							and not _is_prefix(paths[z], paths[x]):
						return True
	return False


def _dec_cons(v):
	"""model/spec value (optc others) -> (index or None, sorted indices)"""
	c = v[0][0][-1] if v[0] else None
	return c, sorted({p[-1] for p in v[1]})


_taxa_cache = {}


def _taxa(parents, thr=None):
	from gambit.db import Taxon
	key = (tuple(parents), tuple(thr) if thr is not None else None)
	if key not in _taxa_cache:
		if len(_taxa_cache) > 64:
			_taxa_cache.clear()
		taxa = []
		for i, p in enumerate(parents):
			kw = {}
			if thr is not None and thr[i] is not None:
				kw['distance_threshold'] = thr[i] / 16
			taxa.append(Taxon(id=i, name=f't{i}', parent=taxa[p] if p >= 0 else None, **kw))
		_taxa_cache[key] = taxa
	return _taxa_cache[key]


def _names(parents, idxs):
	return '[' + ', '.join(f't{i}' for i in idxs) + ']'


# ---------------------------------------------------------------------------------------------
# kind: consensus

def k_consensus(ctx, cases):
	from gambit.classify import consensus_taxon
	prepared = []
	reqs = []
	for c in cases:
		paths = _paths(c['parents'])
		order = list(c['order'])
		if any((not isinstance(i, int)) or i < 0 or i >= len(paths) for i in order):
			raise ValueError('bad order')
		seq = [paths[i] for i in order]
		canon = [paths[i] for i in sorted(set(order))]
		prepared.append((paths, order))
		reqs += [(1001, seq), (1002, seq), (1003, canon)]
	ans = ctx.model(reqs) if ctx.model_ok else None
	for n, c in enumerate(cases):
		paths, order = prepared[n]
		taxa = _taxa(c['parents'])
		index = {id(t): i for i, t in enumerate(taxa)}
		try:
			r = consensus_taxon([taxa[i] for i in order])
			impl = (None if r[0] is None else index[id(r[0])], sorted(index[id(t)] for t in r[1]))
		except Exception as e:  # noqa
			impl = f'{type(e).__name__}: {e}'
		distinct = len(set(order))
		three = _three_level(paths, order)
		ctx.case(c, nontrivial=distinct >= 2)
		if three:
			ctx.count('shape:three-level-conflict')
		if len(order) != distinct:
			ctx.count('shape:with-repetitions')
		py = _py_spec(paths, order)
		if ans is not None:
			m = ans[3 * n]
			model = _dec_cons(m[1]) if m[0] == 0 else f'error {m[1]}'
			m0 = ans[3 * n + 1]
			model_v0 = _dec_cons(m0[1]) if m0[0] == 0 else f'error {m0[1]}'
			spec = _dec_cons(ans[3 * n + 2])
			if spec != py:
				ctx.broke('extracted specification vs python oracle (consensus)', f'case {c}: spec={spec} python={py}')
				continue
		else:
			model = model_v0 = None
			spec = py
		if impl != spec:
			ctx.violation('consensus', c,
			              f'consensus_taxon({_names(c["parents"], order)}) on parents={c["parents"]} returns {_show(impl)}; the consensus '
			              f'of this set of matched taxa (lowest common ancestor of its most specific members, which does not '
			              f'depend on their order) is {_show(spec)}',
			              impl=impl, spec=spec, model=model, model_of_algorithm_as_found=model_v0)
		elif model is not None and model != impl:
			ctx.broke('correspondence consensus (model of repaired consensus_taxon vs implementation)',
			          f'case {c}: impl={impl} model={model}')


def _show(r):
	if isinstance(r, str):
		return r
	c, o = r
	return f'({"None" if c is None else "t%d" % c}, {{{", ".join("t%d" % i for i in o)}}})'


# ---------------------------------------------------------------------------------------------
# kind: classify

_WARN = re.compile(r'^Query matched (\d+) inconsistent taxa: (.*)\. Reporting lowest common ancestor of this set\.$')


def k_classify(ctx, cases):
	import numpy as np
	from gambit.classify import classify, matching_taxon, find_matches
	from gambit.db import AnnotatedGenome, Genome
	prepared = []
	reqs = []
	for c in cases:
		paths = _paths(c['parents'])
		thr = c['thr']
		if len(thr) != len(paths) or not c['genomes']:
			raise ValueError('bad case')
		glist = []
		matched = []
		for t, d in c['genomes']:
			if not (0 <= t < len(paths)) or d < 0:
				raise ValueError('bad genome')
			glist.append([[[i, None if thr[i] is None else [thr[i]]] for i in paths[t]], d])
			mt = None
			for a in reversed(paths[t]):
				if thr[a] is not None and d <= thr[a]:
					mt = a
					break
			matched.append(mt)
		mset = sorted({m for m in matched if m is not None})
		prepared.append((paths, matched, mset))
		reqs += [(1004, glist), (1003, [paths[i] for i in mset]), (1007, glist)]
	ans = ctx.model(reqs) if ctx.model_ok else None
	for n, c in enumerate(cases):
		paths, matched, mset = prepared[n]
		taxa = _taxa(c['parents'], c['thr'])
		index = {id(t): i for i, t in enumerate(taxa)}
		gs = [AnnotatedGenome(taxon=taxa[t], genome=Genome(key=f'g{i}', description=f'g{i}'))
		      for i, (t, d) in enumerate(c['genomes'])]
		gindex = {id(g): i for i, g in enumerate(gs)}
		dists = np.array([d / 16 for t, d in c['genomes']], dtype=np.float32 if c.get('f32') else np.float64)
		ctx.case(c, nontrivial=len(mset) >= 2)
		if _three_level(paths, mset):
			ctx.count('shape:three-level-conflict')
		py = _py_spec(paths, mset)
		spec = py
		if ans is not None:
			spec = _dec_cons(ans[3 * n + 1])
			if spec != py:
				ctx.broke('extracted specification vs python oracle (classify)', f'case {c}: spec={spec} python={py}')
				continue
		cons, others = spec

		def bad(what, **kw):
			ctx.violation('classify', c, f'classify(strict=True) on parents={c["parents"]} thr/16={c["thr"]} '
			              f'genomes(taxon,16*d)={c["genomes"]}: ' + what, **kw)

		# -- each genome matches the most specific covering threshold-bearing taxon of its lineage
		ok = True
		for i, (t, d) in enumerate(c['genomes']):
			r = matching_taxon(taxa[t], dists[i])
			r = None if r is None else index[id(r)]
			if r != matched[i]:
				bad(f'matching_taxon(t{t}, {d}/16) = {r}, the most specific taxon of the lineage whose threshold covers '
				    f'the distance is {matched[i]}', impl=r, spec=matched[i])
				ok = False
				break
		if not ok:
			continue
		fm = find_matches(zip(gs, dists))
		fm_i = {index[id(k)]: sorted(v) for k, v in fm.items()}
		fm_spec = {}
		for i, m in enumerate(matched):
			if m is not None:
				fm_spec.setdefault(m, []).append(i)
		if fm_i != fm_spec:
			bad(f'find_matches groups the genomes as {fm_i}, expected {fm_spec}', impl=fm_i, spec=fm_spec)
			continue

		try:
			r = classify(gs, dists, strict=True)
		except Exception as e:  # noqa
			bad(f'raises {type(e).__name__}: {e}', impl=f'{type(e).__name__}')
			continue
		pred = None if r.predicted_taxon is None else index[id(r.predicted_taxon)]
		warned = None
		for w in r.warnings:
			mo = _WARN.match(w)
			if mo:
				names = [] if not mo.group(2) else mo.group(2).split(', ')
				warned = (int(mo.group(1)), sorted(int(x.split(':', 1)[1][1:]) for x in names))
		pm = r.primary_match
		primary = None if pm is None else (gindex[id(pm.genome)], float(pm.distance) * 16,
		                                   None if pm.matched_taxon is None else index[id(pm.matched_taxon)])
		impl = dict(success=bool(r.success), predicted=pred, primary=primary, warned=warned, error=r.error)
		exp_success = not (mset and cons is None)
		cands = [] if cons is None else [i for i, m in enumerate(matched)
		                                 if m is not None and _is_prefix(paths[cons], paths[m])]
		exp_d = min((c['genomes'][i][1] for i in cands), default=None)
		specv = dict(success=exp_success, predicted=cons, others=others, primary_distance_x16=exp_d)
		model = None
		if ans is not None:
			m = ans[3 * n]
			if m[0] == 0:
				s_, p_, b_, o_ = m[1]
				model = dict(success=bool(s_), predicted=p_[0][-1] if p_ else None,
				             primary=(b_[0][0], float(b_[0][1]), b_[0][2][-1]) if b_ else None,
				             others=sorted({p[-1] for p in o_}))
			else:
				model = f'error {m[1]}'
		vals = dict(impl=impl, spec=specv, model=model)
		if pred != cons:
			bad(f'predicted taxon {pred}, the consensus of the matched taxa {mset} is {cons}', **vals)
		elif bool(r.success) != exp_success or (r.error is None) != exp_success:
			bad(f'success={r.success} error={r.error!r}, expected success={exp_success}', **vals)
		elif (warned is None) != (not others) or (warned is not None and (warned[1] != others or warned[0] != len(others))):
			bad(f'warning names {warned}, the matched taxa strictly below the prediction are {others}', **vals)
		elif (primary is None) != (cons is None):
			bad(f'primary match {primary} with prediction {cons}', **vals)
		elif primary is not None and (primary[0] not in cands or primary[1] != c['genomes'][primary[0]][1]
		                              or primary[1] != exp_d or primary[2] != matched[primary[0]]):
			bad(f'primary match (genome, 16*d, taxon) = {primary} is not a nearest genome among those matched at or below '
			    f'the prediction (genomes {cands}, least distance {exp_d}/16)', **vals)
		elif isinstance(model, dict):
			mi = dict(success=impl['success'], predicted=pred, primary=primary, others=[] if warned is None else warned[1])
			if mi != model:
				ctx.broke('correspondence classify (model of repaired strict classify vs implementation)',
				          f'case {c}: impl={mi} model={model}')
		elif model is not None:
			ctx.broke('correspondence classify (model returned an error outcome)', f'case {c}: model={model}')


# ---------------------------------------------------------------------------------------------
# kind: cli  --  gambit -d DB query --strict -s QUERY -f archive -o OUT on a database built from the case

_scratch = [None, 0]


def _build_db(d, parents, thr, genomes):
	"""sqlite + HDF5 reference database whose reference genome i has Jaccard distance genomes[i][1]/16 to the
	query signature {0..15} (first 16-d k-mers of it; a disjoint k-mer for d = 16)"""
	import os
	import numpy as np
	from sqlalchemy import create_engine
	from sqlalchemy.orm import Session
	from gambit.db.models import Base, ReferenceGenomeSet, Taxon, Genome, AnnotatedGenome
	from gambit.sigs import SignatureList, SignaturesMeta, dump_signatures, AnnotatedSignatures
	from gambit.kmers import KmerSpec
	os.makedirs(d)
	eng = create_engine('sqlite:///' + os.path.join(d, 'db.gdb'))
	Base.metadata.create_all(eng)
	s = Session(eng)
	gset = ReferenceGenomeSet(key='verif/c10', version='1.0', name='c10')
	s.add(gset)
	taxa = []
	for i, p in enumerate(parents):
		taxa.append(Taxon(key=f'tk{i}', name=f't{i}', genome_set=gset, parent=taxa[p] if p >= 0 else None,
		                  distance_threshold=None if thr[i] is None else thr[i] / 16))
	s.add_all(taxa)
	for i, (t, dd) in enumerate(genomes):
		s.add(AnnotatedGenome(genome_set=gset, genome=Genome(key=f'g{i}', description=f'genome {i}'), taxon=taxa[t],
		                      organism=f'org{i}'))
	s.commit()
	s.close()
	eng.dispose()
	ks = KmerSpec(6, 'AT')
	sigs = [np.arange(16 - dd, dtype=np.uint16) if dd < 16 else np.array([1000 + i], dtype=np.uint16)
	        for i, (t, dd) in enumerate(genomes)]
	refs = AnnotatedSignatures(SignatureList(sigs, ks, dtype=np.uint16), [f'g{i}' for i in range(len(genomes))],
	                           SignaturesMeta(id='c10', id_attr='key'))
	dump_signatures(os.path.join(d, 'refs.gs'), refs, 'hdf5')
	q = AnnotatedSignatures(SignatureList([np.arange(16, dtype=np.uint16)], ks, dtype=np.uint16), ['q0'], SignaturesMeta(id='q'))
	dump_signatures(os.path.join(d, 'query.qs'), q, 'hdf5')


def k_cli(ctx, cases):
	import json
	import os
	import shutil
	from click.testing import CliRunner
	import gambit.cli
	from vf import impl as vimpl
	if _scratch[0] is None:
		_scratch[0] = vimpl.scratch_dir('gambit-verif-c10-')
	reqs = []
	prepared = []
	for c in cases:
		paths = _paths(c['parents'])
		thr = c['thr']
		if len(thr) != len(paths) or not c['genomes']:
			raise ValueError('bad case')
		matched = []
		for t, d in c['genomes']:
			if not (0 <= t < len(paths)) or not (0 <= d <= 16):
				raise ValueError('bad genome')
			mt = None
			for a in reversed(paths[t]):
				if thr[a] is not None and d <= thr[a]:
					mt = a
					break
			matched.append(mt)
		mset = sorted({m for m in matched if m is not None})
		prepared.append((paths, matched, mset))
		reqs.append((1003, [paths[i] for i in mset]))
	ans = ctx.model(reqs) if ctx.model_ok else None
	for n, c in enumerate(cases):
		paths, matched, mset = prepared[n]
		ctx.case(c, nontrivial=len(mset) >= 2)
		py = _py_spec(paths, mset)
		spec = py
		if ans is not None:
			spec = _dec_cons(ans[n])
			if spec != py:
				ctx.broke('extracted specification vs python oracle (cli)', f'case {c}: spec={spec} python={py}')
				continue
		cons, others = spec
		_scratch[1] += 1
		d = os.path.join(_scratch[0], f'db{_scratch[1]}')
		_build_db(d, c['parents'], c['thr'], c['genomes'])
		out = os.path.join(d, 'out.json')
		r = CliRunner().invoke(gambit.cli.cli, ['-d', d, 'query', '--strict', '-s', os.path.join(d, 'query.qs'),
		                                       '-f', 'archive', '-o', out])

		def bad(what, **kw):
			ctx.violation('cli', c, f'gambit query --strict -f archive on a database with parents={c["parents"]} thr/16={c["thr"]} '
			              f'reference genomes(taxon,16*d)={c["genomes"]}: ' + what, **kw)

		if r.exit_code != 0 or not os.path.exists(out):
			bad(f'exit code {r.exit_code}: {r.exception!r}', impl=str(r.exception))
			shutil.rmtree(d, ignore_errors=True)
			continue
		cr = json.load(open(out))['items'][0]['classifier_result']
		shutil.rmtree(d, ignore_errors=True)
		pred = None if cr['predicted_taxon'] is None else int(cr['predicted_taxon']['key'][2:])
		warned = None
		for w in cr['warnings']:
			mo = _WARN.match(w)
			if mo:
				names = [] if not mo.group(2) else mo.group(2).split(', ')
				warned = (int(mo.group(1)), sorted(int(x.split(':', 1)[1][1:]) for x in names))
		pm = cr['primary_match']
		primary = None if pm is None else (int(pm['genome']['key'][1:]), float(pm['distance']) * 16,
		                                   None if pm['matched_taxon'] is None else int(pm['matched_taxon']['key'][2:]))
		exp_success = not (mset and cons is None)
		cands = [] if cons is None else [i for i, m in enumerate(matched)
		                                 if m is not None and _is_prefix(paths[cons], paths[m])]
		exp_d = min((c['genomes'][i][1] for i in cands), default=None)
		vals = dict(impl=dict(success=cr['success'], predicted=pred, primary=primary, warned=warned, error=cr['error']),
		            spec=dict(success=exp_success, predicted=cons, others=others, primary_distance_x16=exp_d))
		if pred != cons:
			bad(f'predicted taxon {pred}, the consensus of the matched taxa {mset} is {cons}', **vals)
		elif bool(cr['success']) != exp_success or (cr['error'] is None) != exp_success:
			bad(f'success={cr["success"]} error={cr["error"]!r}, expected success={exp_success}', **vals)
		elif (warned is None) != (not others) or (warned is not None and (warned[1] != others or warned[0] != len(others))):
			bad(f'warning names {warned}, the matched taxa strictly below the prediction are {others}', **vals)
		elif (primary is None) != (cons is None):
			bad(f'primary match {primary} with prediction {cons}', **vals)
		elif primary is not None and (primary[0] not in cands or primary[1] != exp_d or primary[2] != matched[primary[0]]):
			bad(f'primary match (genome, 16*d, taxon) = {primary} is not a nearest genome among those matched at or below '
			    f'the prediction (genomes {cands}, least distance {exp_d}/16)', **vals)


KINDS = {'consensus': k_consensus, 'classify': k_classify, 'cli': k_cli}


# ---------------------------------------------------------------------------------------------
# generators

def _forests(n):
	"""all parent tables with parent index < own index (-1 = root): every forest shape with n taxa"""
	return itertools.product(*[range(-1, i) for i in range(n)])


def _rand_forest(rng, n):
	style = rng.random()
	parents = []
	for i in range(n):
		if i == 0 or rng.random() < (0.15 if style < 0.7 else 0.03):
			parents.append(-1)
		elif style < 0.35:
			parents.append(rng.randrange(max(0, i - 2), i))   # deep
		else:
			parents.append(rng.randrange(i))
	return parents


def _rand_thr(rng, parents):
	"""thresholds in sixteenths; mostly decreasing towards the leaves (as in real databases), sometimes not"""
	thr = []
	mode = rng.random()
	for i, p in enumerate(parents):
		if rng.random() < 0.25:
			thr.append(None)
		elif mode < 0.7:
			up = 16
			q = p
			while q >= 0:
				if thr[q] is not None:
					up = thr[q]
					break
				q = parents[q]
			thr.append(rng.randint(max(0, up - 5), up))
		else:
			thr.append(rng.randint(0, 16))
	return thr


def generate(ctx):
	rng = ctx.rng
	ctx.rule(RULE)
	nmax = ctx.pick(5, 6)
	kmax = 4
	# ---- exhaustive: all orders of all matched sets of size <= 4 over all forests with <= nmax taxa
	for n in range(1, nmax + 1):
		for parents in _forests(n):
			parents = list(parents)
			for k in range(0, min(kmax, n) + 1):
				for order in itertools.permutations(range(n), k):
					ctx.count('stream:exhaustive-consensus')
					yield 'consensus', dict(parents=parents, order=list(order))
	ctx.exhaustive = True
	ctx.extra['exhaustive_scope'] = (f'consensus_taxon: every forest with <= {nmax} taxa (parent tables with parent index < own '
	                                 f'index) x every sequence of <= {kmax} distinct matched taxa (all sets, all orders)')
	# ---- malformed / outside dict.keys(): sequences with repeated taxa (consensus_taxon accepts any iterable)
	for n in range(2, 5):
		for parents in _forests(n):
			for order in itertools.product(range(n), repeat=3):
				if len(set(order)) < 3:
					ctx.count('stream:malformed-repetitions')
					yield 'consensus', dict(parents=list(parents), order=list(order))
	# ---- random larger forests, several orders of the same multiset
	for _ in range(ctx.pick(4000, 20000)):
		n = rng.randint(5, 14)
		parents = _rand_forest(rng, n)
		k = rng.randint(2, 9)
		if rng.random() < 0.8:
			sel = rng.sample(range(n), min(k, n))
		else:
			sel = [rng.randrange(n) for _ in range(k)]
		for _ in range(4):
			rng.shuffle(sel)
			ctx.count('stream:random-consensus')
			yield 'consensus', dict(parents=parents, order=list(sel))
	# ---- classify: small forests, random thresholds, all orders of <= 4 reference genomes
	nc = ctx.pick(4, 5)
	reps = ctx.pick(3, 5)
	for n in range(1, nc + 1):
		for parents in _forests(n):
			parents = list(parents)
			for _ in range(reps):
				thr = _rand_thr(rng, parents)
				g = rng.randint(1, 4)
				genomes = [[rng.randrange(n), rng.randint(0, 17)] for _ in range(g)]
				f32 = rng.random() < 0.5
				for perm in itertools.permutations(genomes):
					ctx.count('stream:classify-all-reference-orders')
					yield 'classify', dict(parents=parents, thr=thr, genomes=[list(x) for x in perm], f32=f32)
	# ---- classify: the three-level conflict {species, its subspecies, a sibling species} under a genus, every
	#      assignment of matching / non-matching distances, all reference orders
	parents = [-1, 0, 0, 1]
	thr = [None, 8, 8, 4]
	for ds in itertools.product([3, 6, 12], repeat=3):
		genomes = [[1, ds[0]], [2, ds[1]], [3, ds[2]]]
		for perm in itertools.permutations(genomes):
			ctx.count('stream:classify-three-level')
			yield 'classify', dict(parents=parents, thr=thr, genomes=[list(x) for x in perm], f32=False)
	# ---- classify: random larger
	for _ in range(ctx.pick(1500, 8000)):
		n = rng.randint(3, 12)
		parents = _rand_forest(rng, n)
		thr = _rand_thr(rng, parents)
		g = rng.randint(1, 14)
		genomes = [[rng.randrange(n), rng.randint(0, 17)] for _ in range(g)]
		f32 = rng.random() < 0.5
		for _ in range(3):
			rng.shuffle(genomes)
			ctx.count('stream:random-classify')
			yield 'classify', dict(parents=parents, thr=thr, genomes=[list(x) for x in genomes], f32=f32)
	# ---- command line: gambit query --strict -f archive on databases built from the case
	parents = [-1, 0, 0, 1]
	thr = [None, 8, 8, 4]
	for perm in itertools.permutations([[1, 6], [2, 6], [3, 3]]):
		ctx.count('stream:cli-three-level')
		yield 'cli', dict(parents=parents, thr=thr, genomes=[list(x) for x in perm])
	for perm in itertools.permutations([[1, 5], [2, 6], [3, 7]]):
		ctx.count('stream:cli-three-siblings')
		yield 'cli', dict(parents=[-1, 0, 0, 0], thr=[None, 8, 8, 8], genomes=[list(x) for x in perm])
	for _ in range(ctx.pick(25, 250)):
		n = rng.randint(2, 8)
		parents = _rand_forest(rng, n)
		thr = _rand_thr(rng, parents)
		genomes = [[rng.randrange(n), rng.randint(0, 16)] for _ in range(rng.randint(1, 8))]
		for _ in range(2):
			rng.shuffle(genomes)
			ctx.count('stream:cli-random')
			yield 'cli', dict(parents=parents, thr=thr, genomes=[list(x) for x in genomes])
