"""C10 -- strict classification reports an order-independent consensus of all matches.

Tie: B.  gambit.classify.consensus_taxon / matching_taxon / find_matches / classify(strict=True) are run
on transient ORM objects (Taxon(parent=...), AnnotatedGenome(taxon=...), nothing is flushed to a
database) built from the harness's own parent / threshold tables; the extracted model (Model/C10.v,
repaired trunk algorithm) and the extracted specification (Spec/C10.v: LCA of the most specific
matched taxa) get root paths computed from the same tables.  The specification is evaluated on the
*sorted set* of matched taxa, so `impl(order) != spec(set)` is at the same time a wrong consensus and
an order dependence; an independent Python oracle (maximal elements + LCA on the parent table)
cross-checks the extracted specification.  A third stream builds small reference databases
(sqlite + HDF5) and runs `gambit query --strict -s ... -f archive -o ...` in process.  A fourth kind
(`query`, no Coq model behind it) drives the Python entry points with database-loaded objects.

Coverage audit (item of the property text -> streams that run it ON THE IMPLEMENTATION; [P] = the property
predicate is judged there, [M] = also compared with the extracted model; "new" = added by the audit):
  clauses
   each genome matches most specific covering threshold-bearing taxon   classify-* (matching_taxon, find_matches) [P][M]; query, cli via outcome [P]
   consensus = most specific / LCA of most specific / None + failed      exhaustive-consensus, random-consensus [P][M]; classify-*, cli-*, query [P]
   never depends on the order of the references / matches               all orders <=4 (exhaustive-consensus, classify-all-reference-orders), shuffles;
                                                                        new consensus-structured-orders (ancestors/descendants first, by depth,
                                                                        lineage-wise, interleaved, rotated), set/dict iteration orders [P][M]
   prediction comparable with every matched taxon                       implied by impl == spec(set) wherever the consensus is judged [P]
   warning names exactly the matched taxa strictly below                classify-*, cli-*, query [P]; new classify-unusual-names (commas, colons, empty,
                                                                        repeated, non-ASCII names: count and short_repr()s) [P]
   primary match = a nearest genome matched at/below the prediction     classify-*, cli-*, query [P] (ties unconstrained)
  quantifier
   all forests                                                          exhaustive <=5 taxa, random <=14; new consensus-large (30..120 taxa: deep spines,
                                                                        wide stars), classify-large (<=60 taxa, 50..300 genomes) [P][M]
   all sets of matched taxa (empty, single, repeated, >=4 conflicting)   exhaustive k<=4, malformed-repetitions, random k<=9; new consensus-large k<=40
   three-level conflicts                                                fixed instance (classify-three-level, cli-three-level) + random; new
                                                                        consensus-/classify-three-level-general: X, descendant any depth below, Z off any
                                                                        ancestor, +consensus itself / higher ancestor / 2nd branch / other tree, all orders
   distances / thresholds                                               sixteenths, float32/64 (was); new classify-real-distances: thirds .. thousandths as
                                                                        float64/32/16, on and beside thresholds [P, no model]; query: Jaccard p/q [P, no model]
  observe at / call forms
   consensus_taxon(iterable)                                            list only (was); new consensus-containers: tuple, set, frozenset, dict view, dict,
                                                                        generator, one-shot iterator, second call on the same object [P][M]
   classify(refs, dists, strict=)                                       list + contiguous native float32/64 (was); new classify-call-forms: float16,
                                                                        byte-swapped, strided / reversed / column views with decoy cells, read-only, tuple of
                                                                        refs, strict=np.True_ / 1, one genome object listed twice, second call on the same
                                                                        objects; matching_taxon(Python float / int), find_matches(list / generator) [P][M]
   gambit.query.query / QueryParams / get_result_item (persistent objects) was: only through the CLI; new query: load / load_from_dir, params / keyword /
                                                                        positional form, chunksize None/1/2/3/1000, several queries per call, query
                                                                        containers and dtypes, signature order != genome order, unrelated signatures [P]
   gambit query --strict -f archive                                     -s with one query (was); new query: several queries per file, FASTA files
                                                                        positional and -l/--ldir (query_parse), -c, --no-progress [P]
  not driven: non-strict mode, -f csv/json (they show report_taxon, other properties), empty reference list (np.argmin
  raises before strict mode starts), NaN / infinite distances, cyclic parent pointers (outside the stated domain).

State and aliasing (audit of everything that can outlive one call; kinds `seq` and `qseq` are SCRIPTS of 2..8 calls over a
small pool of shared caller objects, every call judged by the same predicate / model oracle as the single-call kinds
against the tables as they are at that moment.  Columns: (a) the object is used again with other partners (other list /
array / database / params / option values), in both orders -- every script is also run with its steps reversed;
(b) after every call the caller's object is compared with what the harness left it as; (c) calls that fail part-way are
interleaved and a good call follows on the same thread and objects; (d) the same call twice at once gives the same result,
and results handed out earlier still read the same at the end of the script; (e) calls on a second thread):
  entry point / object that outlives the call                              (a)            (b)            (c)          (d)         (e)
  consensus_taxon(taxa)
   the iterable (list, tuple, set, frozenset, dict, dict view)             seq            seq; consensus seq          consensus   seq
                                                                                          (list, tuple)               (2nd call; lists 1 in 4), seq
   Taxon objects (ORM, mutable: parent, children, distance_threshold)      seq: the caller re-parents taxa / changes thresholds between calls (per-object
                                                                           or per-function memos of a lineage / of a match go stale), Taxon.id values repeat
                                                                           in the two trees of a script as they do in two databases; (b) seq: parent, children,
                                                                           threshold, id, name of every taxon after every call
  matching_taxon(taxon, d)          Taxon objects as above                 seq            seq            seq          --          seq
  find_matches(pairs)               the caller's list of pairs / iterator  seq            seq            seq (iterator that raises, None entry, str distance)
  classify(ref_genomes, dists, strict=)
   reference container (list / tuple; one genome object listed twice)      seq: any list with any array of its length; changed in place by the caller
                                                                           between calls; (b) seq, classify (every case); (c) seq
   distance array (float16/32/64, byte-swapped, strided / reversed /       seq: as above, cells overwritten by the caller between calls; (b) bytes of the
     column views with decoy cells, read-only)                             array AND of the buffer under a view, dtype, strides, writeable flag: seq, classify
   AnnotatedGenome objects (taxon, genome)                                 seq: pooled, moved to another taxon by the caller; (b) seq
   ClassifierResult / GenomeMatch / warnings list handed out               (d) seq, qseq: re-read at the end of the script
   strict flag forms True / np.True_ / 1, non-strict calls in between      seq (non-strict results are not judged, their after-effects are)
   module-level / class-level state of gambit.classify                     none in the code as found (no globals, attrs factory=list); every script and the
                                                                           whole campaign run in one process, so such state would be met by the next call
  gambit.query.query(db, queries, params | **kw, inputs=) / get_result_item(db, params, dists, input)
   ReferenceDatabase (genome list, sig_indices, session, open HDF5 file)   qseq: two databases of different size / taxonomy / content with the same genome-set
                                                                           key, version and primary keys, used alternately by the same params / query
                                                                           objects; closed and re-loaded in between; (b) genome list identity and order,
                                                                           sig_indices, session.dirty/new/deleted, lineage + thresholds + names of every
                                                                           genome as read through the ORM, SHA-1 of db.gdb and refs.gs, after every call
   QueryParams object / keyword dict (strict and non-strict ones pooled)   qseq (a)(b)(c); query (b)
   query container (list, tuple, SignatureList, SignatureArray)            qseq (a)(b)(c): bytes, dtypes, member identity
   the caller's float32 distance row (get_result_item)                     qseq (a)(b)
   failing calls                                                           qseq: no queries, wrong number of inputs, None among the signatures, an iterator
                                                                           that raises, chunksize 0 (fails inside the distance computation)
  gambit query --strict -s FILE -f archive -o OUT (in process)             qseq: between API calls on the open database objects, on both databases; failing
                                                                           runs (truncated signature file, missing FASTA file) in between; files unchanged (b)
  (e): the functions of gambit.classify are plain functions of their arguments and are called from worker threads by users of the
  library; the scripts hand single steps to ONE second thread (sequential hand-over, no concurrency), which shows per-thread
  scratch state.  SQLAlchemy sessions are documented as not thread-safe and nothing advertises fork-safety: kind qseq stays on
  one thread, nothing is driven after fork.
  every script is framed by a fixed good call sequence on objects of its own (seq: a three-level conflict, a single match and a
  consensus, on both threads; qseq: two queries with a fresh params object on the first database): AFTER the script it finds state
  the script left behind (e.g. by a failing last call), so that the script that caused it is the one reported and its replay
  stands alone; BEFORE the script it tells state left behind in this process by an earlier, already reported script -- such a
  script is skipped and counted (`...script-skipped...`), never blamed (and shrinking does not accept candidates then).
  also in the single-call kinds: consensus -- the list / tuple handed over is unchanged, lists get a second call (1 in 4);
  classify -- distance array (bytes, buffer under a view, dtype, strides, flag) and reference container unchanged; query --
  QueryParams object / keyword dict unchanged.
  not judged: WHICH exception a failing call raises; results of non-strict calls; memo attributes an implementation may add to
  an object's __dict__ (only the observable fields above are compared).
  outside: concurrent calls; the caller re-parenting taxa of a database-loaded (read-only session) taxonomy."""
import itertools
import re

PROP = 'C10'
RULE = ('consensus: (forest, sequence of matched taxa[, container type]) -> consensus_taxon; classify: (forest with thresholds, '
        'reference genomes with distances, in a given order[, call form: array dtype/layout, refs container, strict flag, scalar types, '
        'repeated genome object, second call; unusual taxon names; denominators other than 16]) -> classify(strict=True), matching_taxon, '
        'find_matches; cli: the same through a scratch database and `gambit query --strict -f archive`; query: scratch database + '
        'nested k-mer sets (Jaccard distances 1-min/max) -> ReferenceDatabase.load*, gambit.query.query (params / keyword forms, chunk '
        'sizes, several queries), then `gambit query --strict -f archive` with a multi-query signature file or FASTA files. '
        'seq: a script of 2..8 classify / find_matches / matching_taxon / consensus_taxon calls over a shared pool of taxa, genomes, '
        'reference containers, distance arrays and taxon containers, with changes by the caller (re-parenting, thresholds, genome -> taxon, '
        'distances, list contents), failing calls and second-thread calls in between -> every call as above on the tables of that moment, '
        'caller objects unmodified, same call same result, earlier results unchanged; qseq: the same over one or two scratch databases, '
        'pooled QueryParams / keyword dicts / query containers, gambit.query.query / get_result_item / the command line, failing calls and '
        'reloads in between. '
        'non-trivial: at least two distinct matched taxa (seq / qseq: in some call of the script); counted separately: three-level conflicts '
        '{taxon, a strict descendant, an incomparable taxon of the same tree}, container / option / shape counters')
TRUSTED = ['SQLAlchemy ORM: transient Taxon/AnnotatedGenome objects (parent relationship, identity equality/hash) '
           'behave like loaded ones for .parent/.ancestors()/.distance_threshold',
           'NumPy: np.argmin, float comparison of exactly representable distances k/16 (float32 and float64 arrays) '
           'with Python-float thresholds',
           'CPython dict insertion order / set semantics (modelled by association lists / lists compared as sets)',
           'cli stream: SQLite/SQLAlchemy, h5py and the distance kernel deliver the taxonomy, thresholds and the Jaccard '
           'distances (16-m)/16 the harness designed into the scratch database (query {0..15}, reference = its first m k-mers)',
           'query kind: the same, with k-mer sets that are prefixes of 16 fixed 5-mers over {C,G} (distance 1-min/max); FASTA input: '
           'k-mer search and index coding (ACGT=0123, big-endian; properties C01/C06/C07) turn the contigs ATGAC+w into those sets',
           'seq / qseq (scripts): the harness\'s own bookkeeping of what it put into the shared objects; SQLAlchemy attribute events keep '
           '.parent / .children / .taxon of transient objects consistent when the caller reassigns them; one ThreadPoolExecutor worker as the '
           'second thread; SHA-1 of the database files']
ASSUMPTIONS = ['the taxonomy is a forest (parent pointers acyclic), so every taxon is identified by its root path',
               'distances and thresholds are finite floats; the harness uses multiples of 1/16 so that the model can use integers',
               'the closest-match fields (closest_match, next_taxon, "Primary genome match is not closest match" warning) '
               'are not part of this property and are not compared',
               'primary match: only its distance and the property predicate are compared with the specification '
               '(ties between equally near genomes are not constrained by the property)',
               'streams outside the integer model (classify with denominators other than 16, kind query) are judged by the '
               'specification on the matched set computed with exact comparisons of the numbers handed over, and the property '
               'predicate; the reported primary distance is there only required to agree to float32 accuracy',
               'state and aliasing: a call must leave the objects it is handed (containers, arrays, params, ORM fields, database files) as '
               'they were, and results handed out must not change later -- ordinary API hygiene from which order- and history-independence '
               'of the outcome follows; which exception a failing call raises is not judged; calls are sequential (a second thread is used '
               'one call at a time), nothing is run after fork']
SHRINK = True
BATCH = 1500


def setup(ctx):
	from vf import impl
	impl.check_import()


# ---------------------------------------------------------------------------------------------
# own tables -> root paths, python oracle

def _paths(parents):
	paths = []
	for i, p in enumerate(parents):
		if not isinstance(p, int) or p >= i or p < -1:
			raise ValueError('bad parent table')
		paths.append([i] if p < 0 else paths[p] + [i])
	return paths


def _is_prefix(a, b):
	return len(a) <= len(b) and b[:len(a)] == a


def _py_spec(paths, idxs):
	"""(consensus index or None, sorted indices strictly below it) for the set idxs, straight from the
	definition: LCA of the members that have no other member strictly below them."""
	s = sorted(set(idxs))
	if not s:
		return None, []
	mx = [i for i in s if not any(j != i and _is_prefix(paths[i], paths[j]) for j in s)]
	l = list(paths[mx[0]])
	for i in mx[1:]:
		q = paths[i]
		n = 0
		while n < len(l) and n < len(q) and l[n] == q[n]:
			n += 1
		l = l[:n]
	if not l:
		return None, s
	c = l[-1]
	return c, [i for i in s if i != c and _is_prefix(paths[c], paths[i])]


def _three_level(paths, idxs):
	s = sorted(set(idxs))
	for x in s:
		for y in s:
			if y != x and _is_prefix(paths[x], paths[y]):
				for z in s:
					if z not in (x, y) and paths[z][0] == paths[x][0] and not _is_prefix(paths[x], paths[z]) \
							and not _is_prefix(paths[z], paths[x]):
						return True
	return False


def _dec_cons(v):
	"""model/spec value (optc others) -> (index or None, sorted indices)"""
	c = v[0][0][-1] if v[0] else None
	return c, sorted({p[-1] for p in v[1]})


_taxa_cache = {}


def _taxa(parents, thr=None, den=16, names=None):
	from gambit.db import Taxon
	key = (tuple(parents), tuple(thr) if thr is not None else None, den, tuple(names) if names is not None else None)
	if key not in _taxa_cache:
		if len(_taxa_cache) > 64:
			_taxa_cache.clear()
		taxa = []
		for i, p in enumerate(parents):
			kw = {}
			if thr is not None and thr[i] is not None:
				kw['distance_threshold'] = thr[i] / den
			taxa.append(Taxon(id=i, name=f't{i}' if names is None else names[i], parent=taxa[p] if p >= 0 else None, **kw))
		_taxa_cache[key] = taxa
	return _taxa_cache[key]


def _names(parents, idxs):
	return '[' + ', '.join(f't{i}' for i in idxs) + ']'


# ---------------------------------------------------------------------------------------------
# kind: consensus

_CONTAINERS = ('list', 'tuple', 'set', 'frozenset', 'dict_keys', 'dict', 'generator', 'iterator')


def _container(kind, items):
	"""the argument object handed to consensus_taxon (it is documented to take any iterable; classify hands it
	dict.keys()) and whether it can be iterated a second time"""
	if kind == 'list':
		return list(items), True
	if kind == 'tuple':
		return tuple(items), True
	if kind == 'set':
		return set(items), True
	if kind == 'frozenset':
		return frozenset(items), True
	if kind == 'dict_keys':
		return dict.fromkeys(items).keys(), True
	if kind == 'dict':
		return dict.fromkeys(items), True
	if kind == 'generator':
		return (t for t in items), False
	if kind == 'iterator':
		return iter(items), False
	raise ValueError('bad container')


def k_consensus(ctx, cases):
	from gambit.classify import consensus_taxon
	prepared = []
	reqs = []
	for c in cases:
		paths = _paths(c['parents'])
		order = list(c['order'])
		if any((not isinstance(i, int)) or i < 0 or i >= len(paths) for i in order):
			raise ValueError('bad order')
		taxa = _taxa(c['parents'])
		index = {id(t): i for i, t in enumerate(taxa)}
		kind = c.get('container', 'list')
		arg, again = _container(kind, [taxa[i] for i in order])
		# the sequence the implementation will see (sets / dict views: their own iteration order, repetitions gone)
		seen = [index[id(t)] for t in arg] if again else list(order)
		seq = [paths[i] for i in seen]
		canon = [paths[i] for i in sorted(set(order))]
		prepared.append((paths, order, taxa, index, kind, arg, again, seen))
		reqs += [(1001, seq), (1002, seq), (1003, canon)]
	ans = ctx.model(reqs) if ctx.model_ok else None
	for n, c in enumerate(cases):
		paths, order, taxa, index, kind, arg, again, seen = prepared[n]
		impl2 = None
		changed = None
		try:
			held = list(arg) if kind in ('list', 'tuple') else None
			r = consensus_taxon(arg)
			impl = (None if r[0] is None else index[id(r[0])], sorted(index[id(t)] for t in r[1]))
			if held is not None and (len(arg) != len(held) or any(a is not b for a, b in zip(arg, held))):
				# (state and aliasing) the caller's sequence is the caller's: same members, same order afterwards
				changed = [index.get(id(t)) for t in arg]
			if again and (kind != 'list' or n % 4 == 0):
				# a caller-supplied object used for a second call: the consensus is a function of the set
				r2 = consensus_taxon(arg)
				impl2 = (None if r2[0] is None else index[id(r2[0])], sorted(index[id(t)] for t in r2[1]))
		except Exception as e:  # noqa
			impl = f'{type(e).__name__}: {e}'
		distinct = len(set(order))
		three = _three_level(paths, order)
		ctx.case(c, nontrivial=distinct >= 2)
		if three:
			ctx.count('shape:three-level-conflict')
		if len(order) != distinct:
			ctx.count('shape:with-repetitions')
		if kind != 'list':
			ctx.count('container:' + kind)
		py = _py_spec(paths, order)
		if ans is not None:
			m = ans[3 * n]
			model = _dec_cons(m[1]) if m[0] == 0 else f'error {m[1]}'
			m0 = ans[3 * n + 1]
			model_v0 = _dec_cons(m0[1]) if m0[0] == 0 else f'error {m0[1]}'
			spec = _dec_cons(ans[3 * n + 2])
			if spec != py:
				ctx.broke('extracted specification vs python oracle (consensus)', f'case {c}: spec={spec} python={py}')
				continue
		else:
			model = model_v0 = None
			spec = py
		how = '' if kind == 'list' else f' (handed over as a {kind}, iterated as {_names(c["parents"], seen)})'
		if impl != spec:
			ctx.violation('consensus', c,
			              f'consensus_taxon({_names(c["parents"], order)}){how} on parents={c["parents"]} returns {_show(impl)}; the consensus '
			              f'of this set of matched taxa (lowest common ancestor of its most specific members, which does not '
			              f'depend on their order) is {_show(spec)}',
			              impl=impl, spec=spec, model=model, model_of_algorithm_as_found=model_v0)
		elif changed is not None:
			ctx.violation('consensus', c,
			              f'consensus_taxon({_names(c["parents"], order)}) on parents={c["parents"]} changed the {kind} object it was handed: it now '
			              f'holds {_names(c["parents"], changed)}', impl=changed, spec=list(order))
		elif impl2 is not None and impl2 != spec:
			ctx.violation('consensus', c,
			              f'consensus_taxon called a second time with the same {kind} object of {_names(c["parents"], order)} on '
			              f'parents={c["parents"]} returns {_show(impl2)}; the consensus of this set is {_show(spec)}',
			              impl=impl2, spec=spec, model=model)
		elif model is not None and model != impl:
			ctx.broke('correspondence consensus (model of repaired consensus_taxon vs implementation)',
			          f'case {c}: impl={impl} model={model}')


def _show(r):
	if isinstance(r, str):
		return r
	c, o = r
	return f'({"None" if c is None else "t%d" % c}, {{{", ".join("t%d" % i for i in o)}}})'


# ---------------------------------------------------------------------------------------------
# kind: classify

_WARN = re.compile(r'^Query matched (\d+) inconsistent taxa: (.*)\. Reporting lowest common ancestor of this set\.$')


_LAYOUTS = ('f64', 'f32', 'f16', 'be32', 'be64', 'strided', 'reversed', 'column', 'readonly')


def _dists_array(vals, layout):
	"""the distance array in one of the forms a caller may hold it in: dtype (float64/32/16, non-native byte order),
	non-contiguous views whose skipped cells hold decoys (0.0 = nearer than everything), read-only"""
	import numpy as np
	n = len(vals)
	if layout in ('f64', 'f32', 'f16'):
		return np.array(vals, dtype={'f64': np.float64, 'f32': np.float32, 'f16': np.float16}[layout])
	if layout == 'be32':
		return np.array(vals, dtype='>f4')
	if layout == 'be64':
		return np.array(vals, dtype='>f8')
	if layout == 'strided':
		base = np.zeros(2 * n + 1, dtype=np.float32)
		base[1::2] = vals
		return base[1::2]
	if layout == 'reversed':
		base = np.array(vals[::-1], dtype=np.float64)
		return base[::-1]
	if layout == 'column':
		m = np.zeros((n, 3), dtype=np.float32)
		m[:, 1] = vals
		return m[:, 1]
	if layout == 'readonly':
		a = np.array(vals, dtype=np.float32)
		a.flags.writeable = False
		return a
	raise ValueError('bad layout')


def _warn_parse(w, reprs):
	"""None if w is not the inconsistency warning, else (count, names part is a ', '-joined arrangement of reprs)"""
	mo = re.match(r'^Query matched (\d+) inconsistent taxa: (.*)\. Reporting lowest common ancestor of this set\.$', w, re.S)
	if not mo:
		return None
	part = mo.group(2)
	if len(reprs) <= 6:
		ok = any(', '.join(p) == part for p in itertools.permutations(reprs))
	else:
		ok = part == ', '.join(sorted(reprs))
	return int(mo.group(1)), ok


def k_classify(ctx, cases):
	import numpy as np
	from gambit.classify import classify, matching_taxon, find_matches
	from gambit.db import AnnotatedGenome, Genome
	prepared = []
	reqs = []
	for c in cases:
		paths = _paths(c['parents'])
		thr = c['thr']
		den = c.get('den', 16)
		o = c.get('opts') or {}
		if len(thr) != len(paths) or not c['genomes'] or not isinstance(den, int) or den < 1:
			raise ValueError('bad case')
		if any(t is not None and t < 0 for t in thr):
			raise ValueError('bad threshold')
		layout = o.get('layout') or ('f32' if c.get('f32') else 'f64')
		for t, d in c['genomes']:
			if not (0 <= t < len(paths)) or d < 0:
				raise ValueError('bad genome')
		dists = _dists_array([d / den for t, d in c['genomes']], layout)
		# the exact real numbers the implementation is given (float16/32/64 -> double conversion is exact)
		dv = [float(x) for x in dists]
		tv = [None if t is None else t / den for t in thr]
		glist = []
		matched = []
		for i, (t, d) in enumerate(c['genomes']):
			glist.append([[[a, None if thr[a] is None else [thr[a]]] for a in paths[t]], d])
			mt = None
			for a in reversed(paths[t]):
				if tv[a] is not None and dv[i] <= tv[a]:
					mt = a
					break
			if den == 16:
				mi = None
				for a in reversed(paths[t]):
					if thr[a] is not None and d <= thr[a]:
						mi = a
						break
				if mi != mt:
					raise RuntimeError('harness: sixteenths are not exact here')
			matched.append(mt)
		mset = sorted({m for m in matched if m is not None})
		prepared.append((paths, matched, mset, dists, dv, den, o, layout, len(reqs)))
		# the model works on integer sixteenths; other denominators are judged by the specification of the matched set
		# (computed above with exact comparisons) and the property predicate only
		reqs += [(1003, [paths[i] for i in mset])]
		if den == 16:
			reqs += [(1004, glist), (1007, glist)]
	ans = ctx.model(reqs) if ctx.model_ok else None
	for n, c in enumerate(cases):
		paths, matched, mset, dists, dv, den, o, layout, off = prepared[n]
		names = o.get('names')
		taxa = _taxa(c['parents'], c['thr'], den, names)
		index = {id(t): i for i, t in enumerate(taxa)}
		if o.get('alias'):
			# one AnnotatedGenome object per taxon, listed once for every reference entry of that taxon
			per = {}
			gs = []
			for i, (t, d) in enumerate(c['genomes']):
				if t not in per:
					per[t] = AnnotatedGenome(taxon=taxa[t], genome=Genome(key=f'g{i}', description=f'g{i}'))
				gs.append(per[t])
		else:
			gs = [AnnotatedGenome(taxon=taxa[t], genome=Genome(key=f'g{i}', description=f'g{i}'))
			      for i, (t, d) in enumerate(c['genomes'])]
		refs = tuple(gs) if o.get('refs') == 'tuple' else gs
		strict = {None: True, 'True': True, 'np': np.True_, 'one': 1}[o.get('strict')]
		ctx.case(c, nontrivial=len(mset) >= 2)
		if _three_level(paths, mset):
			ctx.count('shape:three-level-conflict')
		if o:
			for k_ in sorted(o):
				ctx.count(f'classify-opt:{k_}={o[k_] if k_ != "names" else "unusual"}')
		py = _py_spec(paths, mset)
		spec = py
		if ans is not None:
			spec = _dec_cons(ans[off])
			if spec != py:
				ctx.broke('extracted specification vs python oracle (classify)', f'case {c}: spec={spec} python={py}')
				continue
		cons, others = spec
		if names is not None and others:
			ctx.count('shape:unusual-names-in-a-warning')
		if den != 16 and len(mset) >= 2:
			ctx.count('shape:real-distances-two-or-more-matched-taxa')
		if den != 16 and any(tv_ is not None and x == tv_ for x in dv for tv_ in (None if t is None else t / den for t in c['thr'])):
			ctx.count('shape:real-distance-exactly-on-a-threshold')

		def bad(what, **kw):
			ctx.violation('classify', c, f'classify(strict=True) on parents={c["parents"]} thr/{den}={c["thr"]} '
			              f'genomes(taxon,{den}*d)={c["genomes"]}' + (f' options={ {k: v for k, v in o.items() if k != "names"} }' if o else '')
			              + ': ' + what, **kw)

		# -- each genome matches the most specific covering threshold-bearing taxon of its lineage
		ok = True
		sc = o.get('scalar')
		for i, (t, d) in enumerate(c['genomes']):
			x = dists[i]
			if sc == 'py':
				x = dv[i]
			elif sc == 'int' and d % den == 0:
				x = d // den
			r = matching_taxon(taxa[t], x)
			r = None if r is None else index[id(r)]
			if r != matched[i]:
				bad(f'matching_taxon(t{t}, {d}/{den} as {type(x).__name__}) = {r}, the most specific taxon of the lineage whose '
				    f'threshold covers the distance is {matched[i]}', impl=r, spec=matched[i])
				ok = False
				break
		if not ok:
			continue
		fmk = o.get('fm')
		if fmk == 'list':
			fm = find_matches([(g, x) for g, x in zip(gs, dists)])
		elif fmk == 'gen':
			fm = find_matches((g, x) for g, x in zip(gs, dv))
		else:
			fm = find_matches(zip(gs, dists))
		fm_i = {index[id(k)]: sorted(v) for k, v in fm.items()}
		fm_spec = {}
		for i, m in enumerate(matched):
			if m is not None:
				fm_spec.setdefault(m, []).append(i)
		if fm_i != fm_spec:
			bad(f'find_matches groups the genomes as {fm_i}, expected {fm_spec}', impl=fm_i, spec=fm_spec)
			continue

		held = (dists.tobytes(), (dists if dists.base is None else dists.base).tobytes(), dists.dtype.str, dists.strides,
		        bool(dists.flags.writeable), list(refs))
		try:
			r = classify(refs, dists, strict=strict)
			r_again = classify(refs, dists, strict=strict) if o.get('reuse') else None
		except Exception as e:  # noqa
			bad(f'raises {type(e).__name__}: {e}', impl=f'{type(e).__name__}')
			continue
		# (state and aliasing) the distance array and the reference container are the caller's: unchanged afterwards
		if held[:5] != (dists.tobytes(), (dists if dists.base is None else dists.base).tobytes(), dists.dtype.str, dists.strides,
		                bool(dists.flags.writeable)):
			bad(f'classify changed the distance array it was handed ({layout}): it now holds {den}*d = {[float(x) * den for x in dists]} '
			    f'(dtype {dists.dtype.str}, writeable={bool(dists.flags.writeable)})', impl=[float(x) * den for x in dists],
			    spec=[d for t, d in c['genomes']])
			continue
		if len(refs) != len(held[5]) or any(a is not b for a, b in zip(refs, held[5])):
			bad('classify changed the container of reference genomes it was handed')
			continue

		def observe(r):
			pred = None if r.predicted_taxon is None else index[id(r.predicted_taxon)]
			warned = None
			for w in r.warnings:
				if names is None:
					mo = _WARN.match(w)
					if mo:
						nm = [] if not mo.group(2) else mo.group(2).split(', ')
						warned = (int(mo.group(1)), sorted(int(x.split(':', 1)[1][1:]) for x in nm))
				else:
					# unusual names: the taxa are recognised by their short_repr() '<id>:<name>', in any arrangement
					wp = _warn_parse(w, [f'{i}:{names[i]}' for i in others])
					if wp is not None:
						warned = (wp[0], others if wp[1] else 'other taxa than ' + repr(others))
			pm = r.primary_match
			primary = None
			if pm is not None:
				pd = float(pm.distance)
				gi = [i for i, g in enumerate(gs) if g is pm.genome]
				pi = min(gi, key=lambda i: abs(dv[i] - pd))     # (one object listed several times: the entry it stands for)
				primary = (pi, pd * 16 if den == 16 else pd, None if pm.matched_taxon is None else index[id(pm.matched_taxon)])
			return pred, warned, primary

		pred, warned, primary = observe(r)
		dref = (lambda i: c['genomes'][i][1]) if den == 16 else (lambda i: dv[i])
		impl = dict(success=bool(r.success), predicted=pred, primary=primary, warned=warned, error=r.error)
		exp_success = not (mset and cons is None)
		cands = [] if cons is None else [i for i, m in enumerate(matched)
		                                 if m is not None and _is_prefix(paths[cons], paths[m])]
		exp_d = min((dref(i) for i in cands), default=None)
		specv = dict(success=exp_success, predicted=cons, others=others,
		             **{'primary_distance_x16' if den == 16 else 'primary_distance': exp_d})
		model = None
		if ans is not None and den == 16:
			m = ans[off + 1]
			if m[0] == 0:
				s_, p_, b_, o_ = m[1]
				model = dict(success=bool(s_), predicted=p_[0][-1] if p_ else None,
				             primary=(b_[0][0], float(b_[0][1]), b_[0][2][-1]) if b_ else None,
				             others=sorted({p[-1] for p in o_}))
			else:
				model = f'error {m[1]}'
		vals = dict(impl=impl, spec=specv, model=model)
		if pred != cons:
			bad(f'predicted taxon {pred}, the consensus of the matched taxa {mset} is {cons}', **vals)
		elif bool(r.success) != exp_success or (r.error is None) != exp_success:
			bad(f'success={r.success} error={r.error!r}, expected success={exp_success}', **vals)
		elif (warned is None) != (not others) or (warned is not None and (warned[1] != others or warned[0] != len(others))):
			bad(f'warning names {warned}, the matched taxa strictly below the prediction are {others}', **vals)
		elif (primary is None) != (cons is None):
			bad(f'primary match {primary} with prediction {cons}', **vals)
		elif primary is not None and den == 16 and (primary[0] not in cands or primary[1] != dref(primary[0])
		                                            or primary[1] != exp_d or primary[2] != matched[primary[0]]):
			bad(f'primary match (genome, 16*d, taxon) = {primary} is not a nearest genome among those matched at or below '
			    f'the prediction (genomes {cands}, least distance {exp_d}/16)', **vals)
		elif primary is not None and den != 16 and (primary[0] not in cands or dref(primary[0]) != exp_d
		                                            or abs(primary[1] - exp_d) > 1e-6 * max(1.0, exp_d)
		                                            or primary[2] != matched[primary[0]]):
			# arbitrary reals: the genome must be a nearest one by the distances handed over; the distance it is reported
			# with is only required to agree to float32 accuracy (the property does not fix its representation)
			bad(f'primary match (genome, {"16*" if den == 16 else ""}d, taxon) = {primary} is not a nearest genome among those matched at or below '
			    f'the prediction (genomes {cands}, least distance {exp_d}{"/16" if den == 16 else ""})', **vals)
		elif r_again is not None and (observe(r_again)[:2] != (pred, warned) or bool(r_again.success) != bool(r.success)
		                              or (observe(r_again)[2] or (0, None))[1] != (primary or (0, None))[1]):
			bad(f'a second classify call on the same reference list and distance array gives prediction/warning/primary distance '
			    f'{observe(r_again)} after {(pred, warned, primary)}', **vals)
		elif isinstance(model, dict) and not o.get('alias'):
			mi = dict(success=impl['success'], predicted=pred, primary=primary, others=[] if warned is None else warned[1])
			if mi != model:
				ctx.broke('correspondence classify (model of repaired strict classify vs implementation)',
				          f'case {c}: impl={mi} model={model}')
		elif model is not None and not isinstance(model, dict):
			ctx.broke('correspondence classify (model returned an error outcome)', f'case {c}: model={model}')


# ---------------------------------------------------------------------------------------------
# kind: cli  --  gambit -d DB query --strict -s QUERY -f archive -o OUT on a database built from the case

_scratch = [None, 0]


def _build_db(d, parents, thr, genomes):
	"""sqlite + HDF5 reference database whose reference genome i has Jaccard distance genomes[i][1]/16 to the
	query signature {0..15} (first 16-d k-mers of it; a disjoint k-mer for d = 16)"""
	import os
	import numpy as np
	from sqlalchemy import create_engine
	from sqlalchemy.orm import Session
	from gambit.db.models import Base, ReferenceGenomeSet, Taxon, Genome, AnnotatedGenome
	from gambit.sigs import SignatureList, SignaturesMeta, dump_signatures, AnnotatedSignatures
	from gambit.kmers import KmerSpec
	os.makedirs(d)
	eng = create_engine('sqlite:///' + os.path.join(d, 'db.gdb'))
	Base.metadata.create_all(eng)
	s = Session(eng)
	gset = ReferenceGenomeSet(key='verif/c10', version='1.0', name='c10')
	s.add(gset)
	taxa = []
	for i, p in enumerate(parents):
		taxa.append(Taxon(key=f'tk{i}', name=f't{i}', genome_set=gset, parent=taxa[p] if p >= 0 else None,
		                  distance_threshold=None if thr[i] is None else thr[i] / 16))
	s.add_all(taxa)
	for i, (t, dd) in enumerate(genomes):
		s.add(AnnotatedGenome(genome_set=gset, genome=Genome(key=f'g{i}', description=f'genome {i}'), taxon=taxa[t],
		                      organism=f'org{i}'))
	s.commit()
	s.close()
	eng.dispose()
	ks = KmerSpec(6, 'AT')
	sigs = [np.arange(16 - dd, dtype=np.uint16) if dd < 16 else np.array([1000 + i], dtype=np.uint16)
	        for i, (t, dd) in enumerate(genomes)]
	refs = AnnotatedSignatures(SignatureList(sigs, ks, dtype=np.uint16), [f'g{i}' for i in range(len(genomes))],
	                           SignaturesMeta(id='c10', id_attr='key'))
	dump_signatures(os.path.join(d, 'refs.gs'), refs, 'hdf5')
	q = AnnotatedSignatures(SignatureList([np.arange(16, dtype=np.uint16)], ks, dtype=np.uint16), ['q0'], SignaturesMeta(id='q'))
	dump_signatures(os.path.join(d, 'query.qs'), q, 'hdf5')


def k_cli(ctx, cases):
	import json
	import os
	import shutil
	from click.testing import CliRunner
	import gambit.cli
	from vf import impl as vimpl
	if _scratch[0] is None:
		_scratch[0] = vimpl.scratch_dir('gambit-verif-c10-')
	reqs = []
	prepared = []
	for c in cases:
		paths = _paths(c['parents'])
		thr = c['thr']
		if len(thr) != len(paths) or not c['genomes']:
			raise ValueError('bad case')
		matched = []
		for t, d in c['genomes']:
			if not (0 <= t < len(paths)) or not (0 <= d <= 16):
				raise ValueError('bad genome')
			mt = None
			for a in reversed(paths[t]):
				if thr[a] is not None and d <= thr[a]:
					mt = a
					break
			matched.append(mt)
		mset = sorted({m for m in matched if m is not None})
		prepared.append((paths, matched, mset))
		reqs.append((1003, [paths[i] for i in mset]))
	ans = ctx.model(reqs) if ctx.model_ok else None
	for n, c in enumerate(cases):
		paths, matched, mset = prepared[n]
		ctx.case(c, nontrivial=len(mset) >= 2)
		py = _py_spec(paths, mset)
		spec = py
		if ans is not None:
			spec = _dec_cons(ans[n])
			if spec != py:
				ctx.broke('extracted specification vs python oracle (cli)', f'case {c}: spec={spec} python={py}')
				continue
		cons, others = spec
		_scratch[1] += 1
		d = os.path.join(_scratch[0], f'db{_scratch[1]}')
		_build_db(d, c['parents'], c['thr'], c['genomes'])
		out = os.path.join(d, 'out.json')
		r = CliRunner().invoke(gambit.cli.cli, ['-d', d, 'query', '--strict', '-s', os.path.join(d, 'query.qs'),
		                                       '-f', 'archive', '-o', out])

		def bad(what, **kw):
			ctx.violation('cli', c, f'gambit query --strict -f archive on a database with parents={c["parents"]} thr/16={c["thr"]} '
			              f'reference genomes(taxon,16*d)={c["genomes"]}: ' + what, **kw)

		if r.exit_code != 0 or not os.path.exists(out):
			bad(f'exit code {r.exit_code}: {r.exception!r}', impl=str(r.exception))
			shutil.rmtree(d, ignore_errors=True)
			continue
		cr = json.load(open(out))['items'][0]['classifier_result']
		shutil.rmtree(d, ignore_errors=True)
		pred = None if cr['predicted_taxon'] is None else int(cr['predicted_taxon']['key'][2:])
		warned = None
		for w in cr['warnings']:
			mo = _WARN.match(w)
			if mo:
				names = [] if not mo.group(2) else mo.group(2).split(', ')
				warned = (int(mo.group(1)), sorted(int(x.split(':', 1)[1][1:]) for x in names))
		pm = cr['primary_match']
		primary = None if pm is None else (int(pm['genome']['key'][1:]), float(pm['distance']) * 16,
		                                   None if pm['matched_taxon'] is None else int(pm['matched_taxon']['key'][2:]))
		exp_success = not (mset and cons is None)
		cands = [] if cons is None else [i for i, m in enumerate(matched)
		                                 if m is not None and _is_prefix(paths[cons], paths[m])]
		exp_d = min((c['genomes'][i][1] for i in cands), default=None)
		vals = dict(impl=dict(success=cr['success'], predicted=pred, primary=primary, warned=warned, error=cr['error']),
		            spec=dict(success=exp_success, predicted=cons, others=others, primary_distance_x16=exp_d))
		if pred != cons:
			bad(f'predicted taxon {pred}, the consensus of the matched taxa {mset} is {cons}', **vals)
		elif bool(cr['success']) != exp_success or (cr['error'] is None) != exp_success:
			bad(f'success={cr["success"]} error={cr["error"]!r}, expected success={exp_success}', **vals)
		elif (warned is None) != (not others) or (warned is not None and (warned[1] != others or warned[0] != len(others))):
			bad(f'warning names {warned}, the matched taxa strictly below the prediction are {others}', **vals)
		elif (primary is None) != (cons is None):
			bad(f'primary match {primary} with prediction {cons}', **vals)
		elif primary is not None and (primary[0] not in cands or primary[1] != exp_d or primary[2] != matched[primary[0]]):
			bad(f'primary match (genome, 16*d, taxon) = {primary} is not a nearest genome among those matched at or below '
			    f'the prediction (genomes {cands}, least distance {exp_d}/16)', **vals)


# ---------------------------------------------------------------------------------------------
# kind: query  --  the public Python entry points that reach classify(strict=True) with database-loaded (persistent)
# ORM objects: ReferenceDatabase.load / load_from_dir + gambit.query.query(params=QueryParams(classify_strict=True) or
# classify_strict=True, chunksize=...), several queries in one call; then the command line on the same database with a
# query signature file holding all queries, or with FASTA files (positional / -l list file), -c, --no-progress.
# Distances are Jaccard distances 1 - min(m,n)/max(m,n) of nested k-mer sets (mostly NOT multiples of 1/16), so this
# kind is outside the integer model: it is judged by the specification of the matched set (python oracle, and the
# extracted specification on the set) and the property predicate only.

_QK, _QPREFIX = 5, 'ATGAC'      # k >= 5: a narrower k-mer index type (uint8) is not accepted by the distance kernel


def _q_universe():
	"""the 16 smallest 5-mers over {C,G}: with prefix ATGAC a contig 'ATGAC'+w holds exactly one prefix occurrence on either
	strand (w has no A/T, the reverse complement GTCAT of the prefix cannot occur); index = base-4 number, ACGT=0123"""
	ws = [''.join(w) for w in itertools.product('CG', repeat=_QK)]
	idx = {w: sum('ACGT'.index(ch) * 4 ** (_QK - 1 - i) for i, ch in enumerate(w)) for w in ws}
	ws.sort(key=lambda w: idx[w])
	ws = ws[:16]
	return ws, [idx[w] for w in ws]


def _build_qdb(d, c):
	import os
	import numpy as np
	from sqlalchemy import create_engine
	from sqlalchemy.orm import Session
	from gambit.db.models import Base, ReferenceGenomeSet, Taxon, Genome, AnnotatedGenome
	from gambit.sigs import SignatureList, SignaturesMeta, dump_signatures, AnnotatedSignatures
	from gambit.kmers import KmerSpec
	ws, U = _q_universe()
	os.makedirs(d)
	eng = create_engine('sqlite:///' + os.path.join(d, 'db.gdb'))
	Base.metadata.create_all(eng)
	s = Session(eng)
	gset = ReferenceGenomeSet(key='verif/c10q', version='1.0', name='c10q')
	s.add(gset)
	taxa = []
	for i, p in enumerate(c['parents']):
		taxa.append(Taxon(key=f'tk{i}', name=f't{i}', genome_set=gset, parent=taxa[p] if p >= 0 else None,
		                  distance_threshold=None if c['thr'][i] is None else c['thr'][i] / 16))
	s.add_all(taxa)
	for i, (t, m) in enumerate(c['refs']):
		s.add(AnnotatedGenome(genome_set=gset, genome=Genome(key=f'g{i}', description=f'genome {i}'), taxon=taxa[t],
		                      organism=f'org{i}'))
	s.commit()
	s.close()
	eng.dispose()
	ks = KmerSpec(_QK, _QPREFIX)
	dt = np.dtype(c.get('rdtype', 'u2'))
	sigs, ids = [], []
	for pos, r in enumerate(c['sigorder']):
		if r >= 0:
			sigs.append(np.array(U[:c['refs'][r][1]], dtype=dt))
			ids.append(f'g{r}')
		else:
			# a signature of no genome of the set; identical to the whole query universe (distance 0 to the largest query)
			sigs.append(np.array(U[:16 + r + 1] if r < -1 else U, dtype=dt))
			ids.append(f'x{pos}')
	refs = AnnotatedSignatures(SignatureList(sigs, ks, dtype=dt), ids, SignaturesMeta(id='c10q', id_attr='key'))
	dump_signatures(os.path.join(d, 'refs.gs'), refs, 'hdf5')
	return ks, ws, U


def _q_judge(bad, where, paths, matched, mset, cons, others, dex, obs):
	"""the property predicate on one observed result: obs = dict(success, error, pred, warned, primary=(genome, d, taxon))"""
	exp_success = not (mset and cons is None)
	cands = [] if cons is None else [i for i, m in enumerate(matched) if m is not None and _is_prefix(paths[cons], paths[m])]
	exp_d = min((dex[i] for i in cands), default=None)
	vals = dict(impl=obs, spec=dict(success=exp_success, predicted=cons, others=others,
	                                primary_distance=None if exp_d is None else str(exp_d)))
	pred, warned, primary = obs['pred'], obs['warned'], obs['primary']
	if pred != cons:
		bad(f'{where}: predicted taxon {pred}, the consensus of the matched taxa {mset} is {cons}', **vals)
	elif bool(obs['success']) != exp_success or (obs['error'] is None) != exp_success:
		bad(f'{where}: success={obs["success"]} error={obs["error"]!r}, expected success={exp_success}', **vals)
	elif (warned is None) != (not others) or (warned is not None and (warned[1] != others or warned[0] != len(others))):
		bad(f'{where}: warning names {warned}, the matched taxa strictly below the prediction are {others}', **vals)
	elif (primary is None) != (cons is None):
		bad(f'{where}: primary match {primary} with prediction {cons}', **vals)
	elif primary is not None and (primary[0] not in cands or dex[primary[0]] != exp_d or abs(primary[1] - float(exp_d)) > 1e-6
	                              or primary[2] != matched[primary[0]]):
		bad(f'{where}: primary match (genome, d, taxon) = {primary} is not a nearest genome among those matched at or below '
		    f'the prediction (genomes {cands}, least distance {exp_d})', **vals)
	else:
		return True
	return False


def _q_warned(warnings):
	warned = None
	for w in warnings:
		mo = _WARN.match(w)
		if mo:
			nm = [] if not mo.group(2) else mo.group(2).split(', ')
			warned = (int(mo.group(1)), sorted(int(x.split(':', 1)[1][1:]) for x in nm))
	return warned


def k_query(ctx, cases):
	import json
	import os
	import shutil
	from fractions import Fraction
	import numpy as np
	from click.testing import CliRunner
	import gambit.cli
	from gambit.db import ReferenceDatabase
	from gambit.query import query, QueryParams
	from gambit.sigs import SignatureList, SignatureArray, SignaturesMeta, AnnotatedSignatures, dump_signatures
	from vf import impl as vimpl
	if _scratch[0] is None:
		_scratch[0] = vimpl.scratch_dir('gambit-verif-c10-')
	for c in cases:
		paths = _paths(c['parents'])
		thr = c['thr']
		nref = len(c['refs'])
		if len(thr) != len(paths) or not c['refs'] or not c['queries']:
			raise ValueError('bad case')
		if sorted(r for r in c['sigorder'] if r >= 0) != list(range(nref)):
			raise ValueError('bad signature order')
		if any(not (0 <= t < len(paths)) or not (1 <= m <= 16) for t, m in c['refs']) or any(not (1 <= q <= 16) for q in c['queries']):
			raise ValueError('bad sizes')
		# expected per query, exact rationals
		exp = []
		nontrivial = False
		for q in c['queries']:
			dex = [1 - Fraction(min(m, q), max(m, q)) for t, m in c['refs']]
			matched = []
			for (t, m), d in zip(c['refs'], dex):
				mt = None
				for a in reversed(paths[t]):
					if thr[a] is not None and d <= Fraction(thr[a], 16):
						mt = a
						break
				matched.append(mt)
			mset = sorted({m for m in matched if m is not None})
			cons, others = _py_spec(paths, mset)
			exp.append((dex, matched, mset, cons, others))
			if others:
				ctx.count('shape:query-with-conflict-warning')
			if any(d.denominator not in (1, 2, 4, 8, 16) for d in dex):
				ctx.count('shape:query-with-non-dyadic-distances')
			nontrivial = nontrivial or len(mset) >= 2
			if _three_level(paths, mset):
				ctx.count('shape:three-level-conflict')
		if ctx.model_ok:
			ans = ctx.model([(1003, [paths[i] for i in e[2]]) for e in exp])
			for e, a in zip(exp, ans):
				if _dec_cons(a) != (e[3], e[4]):
					ctx.broke('extracted specification vs python oracle (query)', f'case {c}: spec={_dec_cons(a)} python={(e[3], e[4])}')
		ctx.case(c, nontrivial=nontrivial)
		_scratch[1] += 1
		d = os.path.join(_scratch[0], f'qdb{_scratch[1]}')
		ks, ws, U = _build_qdb(d, c)
		api = c.get('api') or {}
		cli = c.get('cli') or {}

		def bad(what, **kw):
			ctx.violation('query', c, f'database with parents={c["parents"]} thr/16={c["thr"]} reference genomes (taxon, number of '
			              f'k-mers)={c["refs"]}, signature file order {c["sigorder"]}, queries with {c["queries"]} k-mers (nested sets, '
			              f'distance 1-min/max): ' + what, **kw)

		try:
			# ---- Python API
			qdt = np.dtype(api.get('qdtype', 'u2'))
			qs = [np.array(U[:q], dtype=qdt) for q in c['queries']]
			qc = api.get('qcontainer', 'list')
			if qc == 'siglist':
				qs = SignatureList(qs, ks, dtype=qdt)
			elif qc == 'sigarray':
				qs = SignatureArray(qs, ks, dtype=qdt)
			elif qc == 'tuple':
				qs = tuple(qs)
			if api.get('load') == 'dir':
				db = ReferenceDatabase.load_from_dir(d)
			else:
				db = ReferenceDatabase.load(os.path.join(d, 'db.gdb'), os.path.join(d, 'refs.gs'))
			try:
				chunk = api.get('chunksize', 1000)
				prm = QueryParams(True, chunk)
				kwd = dict(classify_strict=True, chunksize=chunk)
				if api.get('form') == 'kw':
					res = query(db, qs, **kwd)
				elif api.get('form') == 'positional':
					res = query(db, qs, prm)
				else:
					res = query(db, qs, prm, inputs=[f'q{j}' for j in range(len(c['queries']))])
				ctx.count('stream-part:query-api', len(res.items))
				okall = len(res.items) == len(c['queries'])
				# (state and aliasing) the params object / keyword dict are the caller's: unchanged afterwards
				if (prm.classify_strict, prm.chunksize, prm.report_closest) != (True, chunk, 10) or kwd != dict(classify_strict=True, chunksize=chunk):
					bad(f'gambit.query.query({api}) changed the QueryParams object / keyword dict it was handed: {prm!r} {kwd!r}')
					okall = False
				elif not okall:
					bad(f'gambit.query.query returns {len(res.items)} items for {len(c["queries"])} queries')
				for j, item in enumerate(res.items if okall else []):
					r = item.classifier_result
					pm = r.primary_match
					obs = dict(success=bool(r.success), error=r.error,
					           pred=None if r.predicted_taxon is None else int(r.predicted_taxon.key[2:]),
					           warned=_q_warned(r.warnings),
					           primary=None if pm is None else (int(pm.genome.key[1:]), float(pm.distance),
					                                            None if pm.matched_taxon is None else int(pm.matched_taxon.key[2:])))
					dex, matched, mset, cons, others = exp[j]
					if not _q_judge(bad, f'gambit.query.query({api}) item {j} (query with {c["queries"][j]} k-mers)', paths, matched, mset,
					                cons, others, dex, obs):
						okall = False
						break
			finally:
				db.session.close()
				try:
					db.session.get_bind().dispose()
				except Exception:  # noqa
					pass
				if hasattr(db.signatures, 'close'):
					db.signatures.close()
			# ---- command line on the same database
			if okall and cli.get('input'):
				args = ['-d', d, 'query', '--strict']
				if cli['input'] == 'sig':
					sigf = os.path.join(d, 'query.qs')
					dump_signatures(sigf, AnnotatedSignatures(SignatureList([np.array(U[:q], dtype=np.uint16) for q in c['queries']], ks,
					                                                        dtype=np.uint16),
					                                          [f'q{j}' for j in range(len(c['queries']))], SignaturesMeta(id='q')), 'hdf5')
					args += ['-s', sigf]
				else:
					files = []
					rs = __import__('random').Random(len(c['refs']) * 131 + sum(c['queries']))
					for j, q in enumerate(c['queries']):
						fn = os.path.join(d, f'q{j}.fa')
						order = list(range(q))
						rs.shuffle(order)
						with open(fn, 'w') as f:
							for n_, i in enumerate(order):
								seq = _QPREFIX + ws[i]
								f.write(f'>contig{n_} k-mer {i}\n{seq.lower() if (i + j) % 5 == 0 else seq}\n')
						files.append(fn)
					if cli['input'] == 'fasta':
						tail = files
					else:
						lf = os.path.join(d, 'list.txt')
						with open(lf, 'w') as f:
							f.write(''.join(os.path.basename(x) + '\n' for x in files))
						tail = ['-l', lf, '--ldir', d]
				out = os.path.join(d, 'out.json')
				args += ['-f', 'archive', '-o', out]
				if cli.get('cores'):
					args += ['-c', str(cli['cores'])]
				if cli.get('noprogress'):
					args += ['--no-progress']
				if cli['input'] != 'sig':
					args += tail
				r = CliRunner().invoke(gambit.cli.cli, args)
				ctx.count('stream-part:query-cli-' + cli['input'], len(c['queries']))
				if r.exit_code != 0 or not os.path.exists(out):
					bad(f'gambit {" ".join(args[2:])}: exit code {r.exit_code}: {r.exception!r}', impl=str(r.exception))
				else:
					items = json.load(open(out))['items']
					if len(items) != len(c['queries']):
						bad(f'gambit {" ".join(args[2:])}: {len(items)} items for {len(c["queries"])} queries')
						items = []
					for j, it in enumerate(items):
						cr = it['classifier_result']
						pm = cr['primary_match']
						obs = dict(success=cr['success'], error=cr['error'],
						           pred=None if cr['predicted_taxon'] is None else int(cr['predicted_taxon']['key'][2:]),
						           warned=_q_warned(cr['warnings']),
						           primary=None if pm is None else (int(pm['genome']['key'][1:]), float(pm['distance']),
						                                            None if pm['matched_taxon'] is None else int(pm['matched_taxon']['key'][2:])))
						dex, matched, mset, cons, others = exp[j]
						if not _q_judge(bad, f'gambit query --strict -f archive ({cli}) item {j} (query with {c["queries"][j]} k-mers)',
						                paths, matched, mset, cons, others, dex, obs):
							break
		finally:
			shutil.rmtree(d, ignore_errors=True)


# ---------------------------------------------------------------------------------------------
# kind: seq  --  statefulness and aliasing at the level of gambit.classify: one case is a short SCRIPT of calls over a
# small pool of shared caller objects (Taxon / AnnotatedGenome objects, reference lists, distance arrays, containers of
# taxa).  Between the calls the caller (the harness) may change ITS OWN objects (re-parent a taxon, change a threshold,
# move a genome, overwrite a distance, change a list in place); every call is judged by the same predicate / model
# oracle as the single-call kinds against the tables as they are AT THAT MOMENT, and after every call the caller's
# objects must be exactly what the harness left them as.  Calls that fail part-way are interleaved.

_SEQ_FAILS = ('none-in-refs', 'taxonless-genome', 'raising-pairs', 'raising-taxa', 'empty-refs', 'bad-distance')
_seq_worker = [None]


def _seq_thread(fn):
	"""run fn on the (one, persistent) second thread of this process and hand its outcome over"""
	from concurrent.futures import ThreadPoolExecutor
	if _seq_worker[0] is None:
		_seq_worker[0] = ThreadPoolExecutor(max_workers=1, thread_name_prefix='c10-second-thread')
	return _seq_worker[0].submit(fn).result()


def _seq_canary():
	"""a fixed good call sequence on objects of its own (three-level conflict, a single match, a consensus), on the main and on the
	second thread: returns a function -> None, or how the outcome differs from the known one.  Run before every script (state left
	behind in this process by an EARLIER script that was already reported must not be blamed on this one: the script is skipped)
	and after it (state the script left behind -- e.g. by a failing last call -- is found by the script that caused it, so that
	its replay stands alone)."""
	import numpy as np
	from gambit.classify import classify, consensus_taxon
	from gambit.db import AnnotatedGenome, Genome, Taxon
	taxa = []
	for i, (p, t) in enumerate(zip([-1, 0, 0, 1], [None, 8, 8, 4])):
		taxa.append(Taxon(id=i, name=f'c{i}', parent=taxa[p] if p >= 0 else None, **({} if t is None else {'distance_threshold': t / 16})))
	gs = [AnnotatedGenome(taxon=taxa[t], genome=Genome(key=f'c{i}', description=f'c{i}')) for i, t in enumerate([1, 2, 3])]
	d3 = np.array([6 / 16, 6 / 16, 3 / 16], dtype=np.float32)
	d1 = np.array([0.25])

	def once(run, who):
		r = run(lambda: classify(gs, d3, strict=True))
		pm = r.primary_match
		got = (r.success, r.predicted_taxon, _q_warned(r.warnings), r.error,
		       None if pm is None else (pm.genome, float(pm.distance), pm.matched_taxon))
		if got != (True, taxa[0], (3, [1, 2, 3]), None, (gs[2], 3 / 16, taxa[3])):
			return f'classify(strict=True) of the fixed three-level conflict (own fresh objects, {who}) gives {got}'
		r = run(lambda: classify(gs[:1], d1, strict=True))
		pm = r.primary_match
		got = (r.success, r.predicted_taxon, _q_warned(r.warnings), r.error, None if pm is None else (pm.genome, float(pm.distance), pm.matched_taxon))
		if got != (True, taxa[1], None, None, (gs[0], 0.25, taxa[1])):
			return f'classify(strict=True) of one fixed matching genome (own fresh objects, {who}) gives {got}'
		r = run(lambda: consensus_taxon([taxa[3], taxa[2]]))
		if r[0] is not taxa[0] or r[1] != {taxa[3], taxa[2]}:
			return f'consensus_taxon of two fixed taxa (own fresh objects, {who}) gives {r}'
		return None

	def canary():
		return once(lambda f: f(), 'main thread') or once(_seq_thread, 'second thread')
	return canary


def _seq_check(c):
	"""well-formedness of a script case (shrinking produces ill-formed candidates: they are rejected here)"""
	n = len(c['parents'])
	_paths(c['parents'])
	if len(c['thr']) != n or len(c['ids']) != n or n == 0:
		raise ValueError('bad tables')
	if any(t is not None and not (0 <= t <= 17) for t in c['thr']):
		raise ValueError('bad threshold')
	ng = len(c['genomes'])
	if any(not (0 <= t < n) for t in c['genomes']):
		raise ValueError('bad genome pool')
	for L in c['lists']:
		if L['as'] not in ('list', 'tuple') or any(not (0 <= g < ng) for g in L['g']):
			raise ValueError('bad list pool')
	for A in c['arrays']:
		if A['layout'] not in _LAYOUTS or any(not (0 <= v <= 17) for v in A['v']) or not A['v']:
			raise ValueError('bad array pool')
	for S in c['taxsets']:
		if S['as'] not in _CONTAINERS[:6] or any(not (0 <= t < n) for t in S['t']):
			raise ValueError('bad container pool')
	if not c['steps']:
		raise ValueError('no steps')


def _seq_expect(parents, thr, td):
	"""expectation for classify / find_matches on reference entries td = [(taxon, sixteenths)] with the tables as they are now"""
	paths = _paths(parents)
	matched = []
	glist = []
	for t, d in td:
		glist.append([[[a, None if thr[a] is None else [thr[a]]] for a in paths[t]], d])
		mt = None
		for a in reversed(paths[t]):
			if thr[a] is not None and d <= thr[a]:
				mt = a
				break
		matched.append(mt)
	mset = sorted({m for m in matched if m is not None})
	return paths, matched, mset, glist


def _seq_plan(c):
	"""simulate the script on the harness's own tables: per step what to expect, and the model requests"""
	parents, thr, gtax = list(c['parents']), list(c['thr']), list(c['genomes'])
	lists = [list(L['g']) for L in c['lists']]
	arrays = [list(A['v']) for A in c['arrays']]
	n, ng = len(parents), len(gtax)
	plan, reqs = [], []
	for s in c['steps']:
		op = s['op']
		e = dict(op=op)
		if op in ('classify', 'find'):
			L, A = lists[s['l']], arrays[s['a']]
			if len(L) != len(A) or not L:
				e['fails'] = True
			else:
				td = [(gtax[g], A[i]) for i, g in enumerate(L)]
				paths, matched, mset, glist = _seq_expect(parents, thr, td)
				e.update(paths=paths, matched=matched, mset=mset, td=td, off=len(reqs), repeated=len(set(L)) != len(L))
				reqs += [(1003, [paths[i] for i in mset]), (1004, glist), (1007, glist)]
		elif op == 'match':
			if not (0 <= s['g'] < ng) or not (0 <= s['d'] <= 17):
				raise ValueError('bad step')
			paths, matched, mset, glist = _seq_expect(parents, thr, [(gtax[s['g']], s['d'])])
			e.update(matched=matched[0], off=len(reqs))
			reqs += [(1006, glist[0])]
		elif op == 'consensus':
			S = c['taxsets'][s['s']]
			paths = _paths(parents)
			e.update(paths=paths, set=list(S['t']), off=len(reqs))
			reqs += [(1003, [paths[i] for i in sorted(set(S['t']))])]
		elif op == 'edit':
			w = s['what']
			if w == 'parent':
				if not (0 <= s['t'] < n) or not (-1 <= s['p'] < s['t']):
					raise ValueError('bad edit')
				parents[s['t']] = s['p']
			elif w == 'thr':
				if not (0 <= s['t'] < n) or not (s['v'] is None or 0 <= s['v'] <= 17):
					raise ValueError('bad edit')
				thr[s['t']] = s['v']
			elif w == 'taxon':
				if not (0 <= s['g'] < ng) or not (0 <= s['t'] < n):
					raise ValueError('bad edit')
				gtax[s['g']] = s['t']
			elif w == 'dist':
				A = arrays[s['a']]
				if c['arrays'][s['a']]['layout'] == 'readonly' or not (0 <= s['i'] < len(A)) or not (0 <= s['v'] <= 17):
					raise ValueError('bad edit')
				A[s['i']] = s['v']
			elif w == 'list':
				if c['lists'][s['l']]['as'] != 'list' or any(not (0 <= g < ng) for g in s['g']):
					raise ValueError('bad edit')
				lists[s['l']][:] = s['g']
			else:
				raise ValueError('bad edit')
		elif op == 'fail':
			if s['how'] not in _SEQ_FAILS:
				raise ValueError('bad step')
			c['lists'][s['l']], c['arrays'][s['a']], c['taxsets'][s['s']]
			if s['at'] < 0:
				raise ValueError('bad step')
		else:
			raise ValueError('bad step')
		plan.append(e)
	return plan, reqs


def _seq_describe(c, k):
	s = c['steps'][k]
	return f'step {k + 1} of {len(c["steps"])} {s}'


def k_seq(ctx, cases):
	import numpy as np
	from fractions import Fraction
	from gambit.classify import classify, matching_taxon, find_matches, consensus_taxon
	from gambit.db import AnnotatedGenome, Genome, Taxon
	plans = []
	reqs = []
	for c in cases:
		_seq_check(c)
		plan, r = _seq_plan(c)
		plans.append((plan, len(reqs)))
		reqs += r
	ans = ctx.model(reqs) if ctx.model_ok else None
	canary = _seq_canary()
	for c, (plan, base) in zip(cases, plans):
		n = len(c['parents'])
		w = canary()
		if w is not None:
			# state left behind in this process by an earlier script (reported there): this script cannot be judged
			if ctx.replaying:
				raise RuntimeError('process state was changed by an earlier case: ' + w)
			ctx.count('seq:script-skipped (state left behind in the process by an earlier, reported script)')
			if not ctx.violations:
				# nothing was reported so far, yet the fixed good call is wrong: not a state effect of a script
				ctx.broke('seq: the fixed good call that frames every script is wrong although no violation was reported before', w)
			ctx.case(c)
			continue
		# ---- the caller's objects (fresh for every case: the script changes them)
		taxa = []
		for i, p in enumerate(c['parents']):
			kw = {}
			if c['thr'][i] is not None:
				kw['distance_threshold'] = c['thr'][i] / 16
			taxa.append(Taxon(id=c['ids'][i], name=f't{i}', parent=taxa[p] if p >= 0 else None, **kw))
		index = {id(t): i for i, t in enumerate(taxa)}
		inner = [Genome(key=f'g{i}', description=f'g{i}') for i in range(len(c['genomes']))]
		gs = [AnnotatedGenome(taxon=taxa[t], genome=inner[i]) for i, t in enumerate(c['genomes'])]
		gindex = {id(g): i for i, g in enumerate(gs)}
		lists = [(list if L['as'] == 'list' else tuple)(gs[g] for g in L['g']) for L in c['lists']]
		arrays = [_dists_array([v / 16 for v in A['v']], A['layout']) for A in c['arrays']]
		taxsets = [_container(S['as'], [taxa[t] for t in S['t']])[0] for S in c['taxsets']]
		# ---- the harness's record of what these objects hold
		st = dict(parents=list(c['parents']), thr=list(c['thr']), gtax=list(c['genomes']), lists=[list(L['g']) for L in c['lists']])

		def snap_array(a):
			b = a if a.base is None else a.base
			return (a.tobytes(), b.tobytes(), a.dtype.str, a.shape, a.strides, bool(a.flags.writeable))

		def snap_set(kind, o):
			if kind in ('list', 'tuple'):
				return [index.get(id(t)) for t in o]
			if kind == 'dict':
				return [(index.get(id(t)), v) for t, v in o.items()]
			return (len(o), sorted(index.get(id(t), -1) for t in o))
		asnap = [snap_array(a) for a in arrays]
		ssnap = [snap_set(S['as'], o) for S, o in zip(c['taxsets'], taxsets)]

		def world():
			"""None, or how a caller object differs from what the harness left it as"""
			for i, t in enumerate(taxa):
				p = st['parents'][i]
				if t.parent is not (taxa[p] if p >= 0 else None):
					return f'the parent of taxon t{i} is now {t.parent!r} (the caller set {"t%d" % p if p >= 0 else None})'
				e = None if st['thr'][i] is None else st['thr'][i] / 16
				if t.distance_threshold != e or (t.distance_threshold is None) != (e is None):
					return f'the threshold of taxon t{i} is now {t.distance_threshold!r} (the caller set {e!r})'
				if t.id != c['ids'][i] or t.name != f't{i}':
					return f'id / name of taxon t{i} are now {t.id!r} / {t.name!r}'
				kids = sorted(index.get(id(k), -1) for k in t.children)
				if kids != [j for j in range(n) if st['parents'][j] == i]:
					return f'the children of taxon t{i} are now {kids}'
			for i, g in enumerate(gs):
				if g.taxon is not taxa[st['gtax'][i]] or g.genome is not inner[i]:
					return f'genome g{i} now has taxon {g.taxon!r} / genome {g.genome!r}'
			for k, (L, o) in enumerate(zip(c['lists'], lists)):
				if type(o) is not (list if L['as'] == 'list' else tuple) or [gindex.get(id(g)) for g in o] != st['lists'][k]:
					return (f'reference {L["as"]} #{k} now holds genomes {[gindex.get(id(g)) for g in o]} '
					        f'(the caller put {st["lists"][k]} into it)')
			for k, a in enumerate(arrays):
				if snap_array(a) != asnap[k]:
					was = [float(x) * 16 for x in np.frombuffer(asnap[k][0], dtype=np.dtype(asnap[k][2]))]
					return (f'distance array #{k} ({c["arrays"][k]["layout"]}) now holds 16*d = {[float(x) * 16 for x in a]} (dtype {a.dtype.str}, '
					        f'writeable={bool(a.flags.writeable)}); the caller put in {was} (dtype {asnap[k][2]}, writeable={asnap[k][5]})'
					        + ('' if a.tobytes() != asnap[k][0] or a.dtype.str != asnap[k][2] else
					           '; cells of the underlying buffer that the view skips, or its layout / flags, were changed'))
			for k, (S, o) in enumerate(zip(c['taxsets'], taxsets)):
				if snap_set(S['as'], o) != ssnap[k]:
					return f'the {S["as"]} of taxa #{k} now holds {snap_set(S["as"], o)} (the caller put in {ssnap[k]})'
			return None

		def observe(r, refs, dv):
			pm = r.primary_match
			primary = None
			if pm is not None:
				pd = float(pm.distance)
				gi = [i for i, g in enumerate(refs) if g is pm.genome]
				if gi:
					pi = min(gi, key=lambda i: abs(dv[i] - pd))
					primary = (pi, pd, None if pm.matched_taxon is None else index.get(id(pm.matched_taxon), -1))
				else:
					primary = (-1, pd, None)
			return dict(success=bool(r.success), error=r.error, pred=None if r.predicted_taxon is None else index.get(id(r.predicted_taxon), -1),
			            warned=_q_warned(r.warnings), primary=primary)

		def bad(what, **kw):
			ctx.violation('seq', c, what + f' [script of calls over shared caller objects; at the start: taxa parents={c["parents"]} '
			              f'thr/16={c["thr"]} ids={c["ids"]}, genome pool (taxon)={c["genomes"]}, reference containers={c["lists"]}, '
			              f'distance arrays(16*d)={c["arrays"]}, taxon containers={c["taxsets"]}]', **kw)

		ctx.count('stream-part:seq-steps', len(c['steps']))
		nontrivial = False
		results = []                 # (step, result object, observation, refs, dv)
		failed_on = set()            # threads on which the latest call failed part-way
		edited = False
		partners = {}
		ok = True
		for k, (s, e) in enumerate(zip(c['steps'], plan)):
			op = s['op']
			th = 1 if s.get('th') else 0
			run = _seq_thread if th else (lambda f: f())
			where = _seq_describe(c, k) + (' (on a second thread)' if th else '')
			if th and op != 'edit':
				ctx.count('seq:call-on-second-thread')
			if op == 'edit':
				w = s['what']
				ctx.count('seq-step:edit-' + w)
				edited = True
				if w == 'parent':
					taxa[s['t']].parent = taxa[s['p']] if s['p'] >= 0 else None
					st['parents'][s['t']] = s['p']
				elif w == 'thr':
					taxa[s['t']].distance_threshold = None if s['v'] is None else s['v'] / 16
					st['thr'][s['t']] = s['v']
				elif w == 'taxon':
					gs[s['g']].taxon = taxa[s['t']]
					st['gtax'][s['g']] = s['t']
				elif w == 'dist':
					arrays[s['a']][s['i']] = s['v'] / 16
					asnap[s['a']] = snap_array(arrays[s['a']])
				elif w == 'list':
					lists[s['l']][:] = [gs[g] for g in s['g']]
					st['lists'][s['l']] = list(s['g'])
				continue
			if op == 'fail' or e.get('fails'):
				# ---- a call that fails part-way; only its after-effects are judged (by the later steps and world())
				how = s['how'] if op == 'fail' else 'length-mismatch'
				ctx.count('seq-step:failing-call-' + how)
				refs, dists = lists[s['l']], arrays[s['a']]
				at = s.get('at', 0)

				def failing():
					if how in ('none-in-refs', 'taxonless-genome', 'bad-distance') and min(len(refs), len(dists)) == 0:
						raise _SeqBoom('nothing to call with')
					if how == 'length-mismatch':
						return classify(refs, dists, strict=True) if op == 'classify' else find_matches(zip_strict_(refs, dists))
					if how == 'none-in-refs':
						m = min(len(refs), len(dists))
						l2 = list(refs[:m])
						l2[min(at, m - 1)] = None
						return classify(l2, dists[:m], strict=True)
					if how == 'taxonless-genome':
						m = min(len(refs), len(dists))
						l2 = list(refs[:m])
						l2[min(at, m - 1)] = AnnotatedGenome(taxon=None, genome=Genome(key='stray', description='stray'))
						return classify(l2, dists[:m], strict=True)
					if how == 'raising-pairs':
						def pairs():
							for i, (g, d) in enumerate(zip(refs, dists)):
								if i >= at:
									break
								yield g, d
							raise _SeqBoom('the caller\'s iterator fails')
						return find_matches(pairs())
					if how == 'raising-taxa':
						def it():
							for i, t in enumerate(list(taxsets[s['s']])):
								if i >= at:
									break
								yield t
							raise _SeqBoom('the caller\'s iterator fails')
						return consensus_taxon(it())
					if how == 'empty-refs':
						return classify([], np.array([], dtype=np.float32), strict=True)
					if how == 'bad-distance':
						m = min(len(refs), len(dists))
						d2 = [float(x) for x in dists[:m]]
						d2[min(at, m - 1)] = 'near'
						return find_matches(zip(refs[:m], d2))
					raise ValueError('bad step')
				try:
					run(failing)
					ctx.count('seq:failing-call-did-not-raise')
				except Exception:  # noqa
					failed_on.add(th)
				w = world()
				if w is not None:
					bad(f'{where}: after this (failing) call {w}')
					ok = False
					break
				continue
			# ---- a good call
			if th in failed_on:
				ctx.count('seq:good-call-after-a-failed-call-on-the-same-thread')
				failed_on.discard(th)
			if edited:
				ctx.count('seq:call-after-the-caller-changed-its-objects')
			ctx.count('seq-step:' + op)
			if op == 'match':
				g, d = gs[s['g']], s['d']
				x = {None: np.float32(d / 16), 'py': d / 16, 'f64': np.float64(d / 16)}[s.get('scalar')]
				r = run(lambda: matching_taxon(g.taxon, x))
				r = None if r is None else index.get(id(r), -1)
				if r != e['matched']:
					bad(f'{where}: matching_taxon(t{st["gtax"][s["g"]]}, {d}/16) = {r}; with parents={st["parents"]} thr/16={st["thr"]} the most specific '
					    f'taxon of the lineage whose threshold covers the distance is {e["matched"]}', impl=r, spec=e['matched'])
					ok = False
				elif ans is not None:
					m = ans[base + e['off']]
					m = m[0][-1] if m else None
					if m != r:
						ctx.broke('correspondence matching_taxon (model vs implementation, script)', f'case {c} step {k}: impl={r} model={m}')
			elif op == 'consensus':
				o = taxsets[s['s']]
				paths = e['paths']
				r = run(lambda: consensus_taxon(o))
				impl = (None if r[0] is None else index.get(id(r[0]), -1), sorted(index.get(id(t), -1) for t in r[1]))
				py = _py_spec(paths, e['set'])
				spec = py
				if ans is not None:
					spec = _dec_cons(ans[base + e['off']])
					if spec != py:
						ctx.broke('extracted specification vs python oracle (script, consensus)', f'case {c} step {k}: spec={spec} python={py}')
						ok = False
				if len(set(e['set'])) >= 2:
					nontrivial = True
				if ok and impl != spec:
					bad(f'{where}: consensus_taxon on the caller\'s {c["taxsets"][s["s"]]["as"]} of {_names(None, e["set"])} returns {_show(impl)}; with '
					    f'parents={st["parents"]} the consensus of this set is {_show(spec)}', impl=impl, spec=spec)
					ok = False
			else:
				refs, dists = lists[s['l']], arrays[s['a']]
				key = ('l', s['l'])
				partners.setdefault(key, set()).add(s['a'])
				partners.setdefault(('a', s['a']), set()).add(s['l'])
				paths, matched, mset = e['paths'], e['matched'], e['mset']
				td = e['td']
				dv = [float(x) for x in dists]
				if s.get('strict') != 'no':
					if len(mset) >= 2:
						nontrivial = True
					if _three_level(paths, mset):
						ctx.count('shape:three-level-conflict')
				py = _py_spec(paths, mset)
				spec = py
				if ans is not None:
					spec = _dec_cons(ans[base + e['off']])
					if spec != py:
						ctx.broke('extracted specification vs python oracle (script, classify)', f'case {c} step {k}: spec={spec} python={py}')
						ok = False
						break
				cons, others = spec
				now = f'with parents={st["parents"]} thr/16={st["thr"]} reference entries (taxon,16*d)={[list(x) for x in td]}'
				if op == 'find':
					pl = list(zip(refs, dists))
					pl0 = list(pl)
					fm = run(lambda: find_matches(pl))
					fm_i = {index.get(id(t), -1): sorted(v) for t, v in fm.items()}
					fm_spec = {}
					for i, m in enumerate(matched):
						if m is not None:
							fm_spec.setdefault(m, []).append(i)
					if fm_i != fm_spec:
						bad(f'{where}: find_matches groups the entries as {fm_i}; {now} it is {fm_spec}', impl=fm_i, spec=fm_spec)
						ok = False
					elif len(pl) != len(pl0) or any(a is not b for a, b in zip(pl, pl0)):
						bad(f'{where}: find_matches changed the caller\'s list of (genome, distance) pairs')
						ok = False
				else:
					strict = {None: True, 'np': np.True_, 'one': 1, 'no': False}[s.get('strict')]
					if strict is False:
						# a non-strict call in between: not a subject of this property, only its after-effects are
						ctx.count('seq:non-strict-call-in-between (not judged)')
						try:
							run(lambda: classify(refs, dists, strict=False))
						except Exception as x:  # noqa
							bad(f'{where}: classify(strict=False) raises {type(x).__name__}: {x}; {now}', impl=type(x).__name__)
							ok = False
							break
						w = world()
						if w is not None:
							bad(f'{where}: after this call {w}')
							ok = False
							break
						continue
					try:
						r = run(lambda: classify(refs, dists, strict=strict))
						r2 = run(lambda: classify(refs, dists, strict=strict))
					except Exception as x:  # noqa
						bad(f'{where}: classify(strict=True) raises {type(x).__name__}: {x}; {now}', impl=type(x).__name__)
						ok = False
						break
					obs = observe(r, refs, dv)
					obs2 = observe(r2, refs, dv)
					dex = [Fraction(d, 16) for t, d in td]
					results.append((k, r, obs, tuple(refs), dv, list(r.warnings)))
					results.append((k, r2, obs2, tuple(refs), dv, list(r2.warnings)))
					judged = []
					if not _q_judge(lambda w, **kw: judged.append((w, kw)), 'x', paths, matched, mset, cons, others, dex, obs):
						w, kw = judged[0]
						bad(f'{where}: classify(strict=True) {now}' + w[1:], **kw)
						ok = False
					elif (obs2['pred'], obs2['warned'], obs2['success'], obs2['error'], (obs2['primary'] or (0, None))[1]) != \
							(obs['pred'], obs['warned'], obs['success'], obs['error'], (obs['primary'] or (0, None))[1]):
						bad(f'{where}: the same classify call repeated at once gives {obs2} after {obs}; {now}', impl=obs2, spec=obs)
						ok = False
					elif ans is not None:
						m = ans[base + e['off'] + 1]
						if m[0] != 0:
							ctx.broke('correspondence classify (model returned an error outcome, script)', f'case {c} step {k}: model={m}')
						else:
							s_, p_, b_, o_ = m[1]
							model = dict(success=bool(s_), predicted=p_[0][-1] if p_ else None,
							             primary=(b_[0][0], float(b_[0][1]), b_[0][2][-1]) if b_ else None, others=sorted({p[-1] for p in o_}))
							pr = obs['primary']
							mi = dict(success=obs['success'], predicted=obs['pred'], primary=None if pr is None else (pr[0], pr[1] * 16, pr[2]),
							          others=[] if obs['warned'] is None else obs['warned'][1])
							if e['repeated']:
								# one genome object listed several times: the entry the primary match stands for is not determined
								mi['primary'] = None if mi['primary'] is None else mi['primary'][1:]
								model['primary'] = None if model['primary'] is None else model['primary'][1:]
							if mi != model:
								ctx.broke('correspondence classify (model of repaired strict classify vs implementation, script)',
								          f'case {c} step {k}: impl={mi} model={model}')
			if not ok:
				break
			w = world()
			if w is not None:
				bad(f'{where}: after this call {w}')
				ok = False
				break
		if ok:
			# ---- results handed out earlier are not changed by later calls
			for k, r, obs, refs, dv, warnings in results:
				o2 = observe(r, refs, dv)
				if o2 != obs or list(r.warnings) != warnings:
					bad(f'the result returned by {_seq_describe(c, k)} reads {o2} warnings={list(r.warnings)} at the end of the script; '
					    f'when it was returned it read {obs} warnings={warnings}', impl=o2, spec=obs)
					break
			if any(len(v) > 1 for v in partners.values()):
				ctx.count('seq:object-used-with-two-different-partners')
			w = canary()
			if w is not None:
				bad(f'after the script (last step: {c["steps"][-1]}) a fixed good call is wrong -- the script left state behind: {w}')
		ctx.case(c, nontrivial=nontrivial)


class _SeqBoom(Exception):
	pass


def zip_strict_(a, b):
	return zip(a, b, strict=True)


# ---------------------------------------------------------------------------------------------
# kind: qseq  --  statefulness and aliasing at the level of gambit.query / the command line: a script of calls over one or
# two scratch databases of different size and content (same genome-set key and version, overlapping primary keys), a
# pool of QueryParams objects / keyword dicts and a pool of query containers, all of them used again and again in any
# order; failing calls in between.  Every strict result is judged as in kind `query`; after every call the params
# objects, keyword dicts, query containers, distance rows, the database object (genome list, signature indices, ORM
# fields, session state) and the two database files must be unchanged.

_QSEQ_FAILS = ('empty', 'inputs-mismatch', 'bad-signature', 'raising-queries', 'bad-chunksize', 'cli-truncated', 'cli-missing-file')


def _q_expect(paths, thr, refs, q):
	"""kind query's expectation for one query with q k-mers: exact rational distances, matched taxa, consensus"""
	from fractions import Fraction
	dex = [1 - Fraction(min(m, q), max(m, q)) for t, m in refs]
	matched = []
	for (t, m), d in zip(refs, dex):
		mt = None
		for a in reversed(paths[t]):
			if thr[a] is not None and d <= Fraction(thr[a], 16):
				mt = a
				break
		matched.append(mt)
	mset = sorted({m for m in matched if m is not None})
	cons, others = _py_spec(paths, mset)
	return dex, matched, mset, cons, others


def _qseq_check(c):
	if not c['dbs'] or not c['qsets'] or not c['params'] or not c['steps']:
		raise ValueError('bad case')
	for D in c['dbs']:
		paths = _paths(D['parents'])
		nref = len(D['refs'])
		if len(D['thr']) != len(paths) or not D['refs']:
			raise ValueError('bad database')
		if sorted(r for r in D['sigorder'] if r >= 0) != list(range(nref)):
			raise ValueError('bad signature order')
		if any(not (0 <= t < len(paths)) or not (1 <= m <= 16) for t, m in D['refs']):
			raise ValueError('bad sizes')
	for Q in c['qsets']:
		if not Q['q'] or any(not (1 <= q <= 16) for q in Q['q']) or Q['as'] not in ('list', 'tuple', 'siglist', 'sigarray'):
			raise ValueError('bad queries')
	for P in c['params']:
		if P['form'] not in ('params', 'positional', 'kw') or not (P['chunksize'] is None or P['chunksize'] >= 1):
			raise ValueError('bad params')
	for s in c['steps']:
		if s['op'] not in ('query', 'item', 'cli', 'fail', 'reload'):
			raise ValueError('bad step')
		c['dbs'][s['db']]
		if s['op'] != 'reload':
			c['qsets'][s['q']]
		if s['op'] in ('query', 'item', 'fail'):
			c['params'][s['p']]
		if s['op'] == 'fail' and s['how'] not in _QSEQ_FAILS:
			raise ValueError('bad step')
		if min(s['db'], s.get('q', 0), s.get('p', 0)) < 0:
			raise ValueError('bad step')


def k_qseq(ctx, cases):
	import hashlib
	import json
	import os
	import shutil
	import attr
	import numpy as np
	from click.testing import CliRunner
	import gambit.cli
	from gambit.db import ReferenceDatabase
	from gambit.query import query, QueryParams, QueryInput, get_result_item
	from gambit.sigs import SignatureList, SignatureArray, SignaturesMeta, AnnotatedSignatures, dump_signatures
	from vf import impl as vimpl
	if _scratch[0] is None:
		_scratch[0] = vimpl.scratch_dir('gambit-verif-c10-')
	for c in cases:
		_qseq_check(c)
		_scratch[1] += 1
		top = os.path.join(_scratch[0], f'qseq{_scratch[1]}')
		os.makedirs(top)
		dbs = []

		def bad(what, **kw):
			ctx.violation('qseq', c, what + f' [script of calls over shared caller objects: databases={c["dbs"]}, query containers (numbers '
			              f'of k-mers, nested sets, distance 1-min/max)={c["qsets"]}, params pool={c["params"]}]', **kw)

		def fhash(p):
			with open(p, 'rb') as f:
				return hashlib.sha1(f.read()).hexdigest()

		def load(i):
			D = c['dbs'][i]
			d = os.path.join(top, f'db{i}')
			db = ReferenceDatabase.load_from_dir(d) if D.get('load') == 'dir' else \
				ReferenceDatabase.load(os.path.join(d, 'db.gdb'), os.path.join(d, 'refs.gs'))
			return dict(db=db, dir=d, paths=_paths(D['parents']), glist=list(db.genomes), gobj=db.genomes, sidx=list(db.sig_indices),
			            files=(fhash(os.path.join(d, 'db.gdb')), fhash(os.path.join(d, 'refs.gs'))), rows={})

		def close(o):
			db = o['db']
			db.session.close()
			try:
				db.session.get_bind().dispose()
			except Exception:  # noqa
				pass
			if hasattr(db.signatures, 'close'):
				db.signatures.close()

		try:
			ks = ws = U = None
			for i, D in enumerate(c['dbs']):
				ks, ws, U = _build_qdb(os.path.join(top, f'db{i}'), D)
				dbs.append(load(i))

			def mkq(Q):
				dt = np.dtype(Q.get('dt', 'u2'))
				arrs = [np.array(U[:q], dtype=dt) for q in Q['q']]
				if Q['as'] == 'siglist':
					return SignatureList(arrs, ks, dtype=dt), arrs
				if Q['as'] == 'sigarray':
					return SignatureArray(arrs, ks, dtype=dt), arrs
				return (tuple(arrs) if Q['as'] == 'tuple' else arrs), arrs
			qobjs = [mkq(Q) for Q in c['qsets']]

			def snap_q(k):
				o, arrs = qobjs[k]
				items = [np.asarray(x) for x in o]
				return (len(o), [x.tobytes() for x in items], [x.dtype.str for x in items],
				        [id(x) for x in o] if c['qsets'][k]['as'] in ('list', 'tuple') else None, [x.tobytes() for x in arrs])
			qsnap = [snap_q(k) for k in range(len(qobjs))]
			pobjs = []
			for P in c['params']:
				if P['form'] == 'kw':
					pobjs.append(dict(classify_strict=P['strict'], chunksize=P['chunksize'], report_closest=P.get('report_closest', 10)))
				else:
					pobjs.append(QueryParams(P['strict'], P['chunksize'], P.get('report_closest', 10)))
			psnap = [dict(p) if isinstance(p, dict) else attr.asdict(p) for p in pobjs]
			rows = {}       # (db, number of k-mers) -> the caller's distance row for get_result_item

			def world():
				for k in range(len(qobjs)):
					if snap_q(k) != qsnap[k]:
						return f'query container #{k} ({c["qsets"][k]}) was changed'
				for k, p in enumerate(pobjs):
					now = dict(p) if isinstance(p, dict) else attr.asdict(p)
					if now != psnap[k]:
						return f'the caller\'s {"keyword dict" if isinstance(p, dict) else "QueryParams object"} #{k} now reads {now} (it was made as {psnap[k]})'
				for key, (row, b) in rows.items():
					if row.tobytes() != b:
						return f'the caller\'s distance row for database {key[0]} / query with {key[1]} k-mers now reads {row.tolist()}'
				for i, o in enumerate(dbs):
					db, D = o['db'], c['dbs'][i]
					if db.genomes is not o['gobj'] or len(db.genomes) != len(o['glist']) or any(a is not b for a, b in zip(db.genomes, o['glist'])):
						return f'the genome list of database object {i} was changed (now {[g.key for g in db.genomes]})'
					if list(db.sig_indices) != o['sidx']:
						return f'sig_indices of database object {i} are now {list(db.sig_indices)} (loaded as {o["sidx"]})'
					if db.session.dirty or db.session.new or db.session.deleted:
						return f'the session of database object {i} has pending changes: dirty={list(db.session.dirty)} new={list(db.session.new)}'
					for g in db.genomes:
						r = int(g.key[1:])
						lin = [(int(t.key[2:]), t.distance_threshold, t.name) for t in g.taxon.ancestors(incself=True)][::-1]
						exp = [(a, None if D['thr'][a] is None else D['thr'][a] / 16, f't{a}') for a in o['paths'][D['refs'][r][0]]]
						if lin != exp:
							return f'database object {i}: the lineage (taxon, threshold, name) of genome g{r} now reads {lin}, the database holds {exp}'
					now = (fhash(os.path.join(o['dir'], 'db.gdb')), fhash(os.path.join(o['dir'], 'refs.gs')))
					if now != o['files']:
						return f'the files of database {i} were changed ({"db.gdb" if now[0] != o["files"][0] else "refs.gs"})'
				return None

			def obs_item(item):
				r = item.classifier_result
				pm = r.primary_match
				return dict(success=bool(r.success), error=r.error,
				            pred=None if r.predicted_taxon is None else int(r.predicted_taxon.key[2:]), warned=_q_warned(r.warnings),
				            primary=None if pm is None else (int(pm.genome.key[1:]), float(pm.distance),
				                                             None if pm.matched_taxon is None else int(pm.matched_taxon.key[2:])))

			def judge(where, i, q, obs, report=bad):
				D, o = c['dbs'][i], dbs[i]
				dex, matched, mset, cons, others = _q_expect(o['paths'], D['thr'], D['refs'], q)
				if report is bad:
					if len(mset) >= 2:
						nt[0] = True
					if _three_level(o['paths'], mset):
						ctx.count('shape:three-level-conflict')
				return _q_judge(report, where, o['paths'], matched, mset, cons, others, dex, obs)

			def canary():
				"""a fixed good call on objects of its own (fresh params, fresh query list) against the first database: None, or what is
				wrong.  Before the script: state left behind in this process by an earlier, reported script must not be blamed on this
				one (the script is skipped); after it: state the script left behind is found by the script that caused it."""
				said = []
				try:
					res = query(dbs[0]['db'], [np.array(U[:16], dtype=np.uint16), np.array(U[:8], dtype=np.uint16)], QueryParams(classify_strict=True))
					for j, item in enumerate(res.items):
						judge(f'query with {(16, 8)[j]} k-mers', 0, (16, 8)[j], obs_item(item), report=lambda w, **kw: said.append(w))
					if len(res.items) != 2:
						said.append(f'{len(res.items)} items for 2 queries')
				except Exception as x:  # noqa
					said.append(f'raises {type(x).__name__}: {x}')
				return said[0] if said else None

			nt = [False]
			w = canary()
			if w is not None:
				if ctx.replaying:
					raise RuntimeError('process state was changed by an earlier case: ' + w)
				ctx.count('qseq:script-skipped (state left behind in the process by an earlier, reported script)')
				if not ctx.violations:
					ctx.broke('qseq: the fixed good call that frames every script is wrong although no violation was reported before', w)
				ctx.case(c)
				continue
			handed = []      # (step, database, result item, observation, warnings)
			failed = False
			used = {}
			ok = True
			ctx.count('stream-part:qseq-steps', len(c['steps']))
			for k, s in enumerate(c['steps']):
				op = s['op']
				where = f'step {k + 1} of {len(c["steps"])} {s}'
				i = s['db']
				if op == 'reload':
					# the caller closes the database object and loads the same files again (new reader, new ORM objects)
					ctx.count('qseq-step:reload')
					handed = [h for h in handed if h[1] != i]
					close(dbs[i])
					dbs[i] = load(i)
					rows = {key: v for key, v in rows.items() if key[0] != i}
					continue
				db = dbs[i]['db']
				Q = c['qsets'][s['q']]
				qo = qobjs[s['q']][0]
				if op == 'fail':
					how = s['how']
					ctx.count('qseq-step:failing-call-' + how)
					p = pobjs[s['p']]
					P = c['params'][s['p']]
					call = (lambda qs, **kw: query(db, qs, **p, **kw)) if isinstance(p, dict) else \
						(lambda qs, **kw: query(db, qs, p, **kw))
					try:
						if how == 'empty':
							call([])
						elif how == 'inputs-mismatch':
							call(qo, inputs=['only one label'] * (len(Q['q']) + 1))
						elif how == 'bad-signature':
							l2 = list(qo)
							l2.insert(min(s.get('at', 1), len(l2)), None)
							call(l2)
						elif how == 'raising-queries':
							def it():
								for j, x in enumerate(qo):
									if j >= s.get('at', 1):
										break
									yield x
								raise _SeqBoom('the caller\'s iterator fails')
							call(it())
						elif how == 'bad-chunksize':
							query(db, qo, QueryParams(bool(P['strict']), 0))
						elif how == 'cli-truncated':
							sigf = os.path.join(top, f'trunc{k}.qs')
							dump_signatures(sigf, AnnotatedSignatures(SignatureList(qobjs[s['q']][1], ks, dtype=np.dtype(Q.get('dt', 'u2'))),
							                                          [f'q{j}' for j in range(len(Q['q']))], SignaturesMeta(id='q')), 'hdf5')
							with open(sigf, 'rb') as f:
								b = f.read()
							with open(sigf, 'wb') as f:
								f.write(b[:max(16, len(b) * min(max(s.get('at', 1), 1), 3) // 4)])
							r = CliRunner().invoke(gambit.cli.cli, ['-d', dbs[i]['dir'], 'query', '--strict', '-s', sigf, '-f', 'archive',
							                                       '-o', os.path.join(top, f'fail{k}.json')])
							if r.exit_code != 0:
								raise _SeqBoom('exit code')
						elif how == 'cli-missing-file':
							r = CliRunner().invoke(gambit.cli.cli, ['-d', dbs[i]['dir'], 'query', '--strict', '-f', 'archive',
							                                       '-o', os.path.join(top, f'fail{k}.json'), os.path.join(top, 'missing.fasta')])
							if r.exit_code != 0:
								raise _SeqBoom('exit code')
						ctx.count('qseq:failing-call-did-not-raise')
					except Exception:  # noqa
						failed = True
					w = world()
					if w is not None:
						bad(f'{where}: after this (failing) call {w}')
						ok = False
						break
					continue
				# ---- good calls
				if failed:
					ctx.count('qseq:good-call-after-a-failed-call')
					failed = False
				ctx.count('qseq-step:' + op)
				used.setdefault(('q', s['q']), set()).add(i)
				if op == 'query':
					p = pobjs[s['p']]
					P = c['params'][s['p']]
					used.setdefault(('p', s['p']), set()).add(i)
					try:
						if isinstance(p, dict):
							res = query(db, qo, **p)
						elif P['form'] == 'positional':
							res = query(db, qo, p)
						else:
							res = query(db, qo, params=p, inputs=[f'q{j}' for j in range(len(Q['q']))])
					except Exception as x:  # noqa
						bad(f'{where}: gambit.query.query raises {type(x).__name__}: {x}', impl=type(x).__name__)
						ok = False
						break
					if len(res.items) != len(Q['q']):
						bad(f'{where}: gambit.query.query returns {len(res.items)} items for {len(Q["q"])} queries')
						ok = False
						break
					if not P['strict']:
						ctx.count('qseq:non-strict-call-in-between (not judged)')
					else:
						ctx.count('stream-part:qseq-strict-results', len(res.items))
						for j, item in enumerate(res.items):
							obs = obs_item(item)
							handed.append((k, i, item, obs, list(item.classifier_result.warnings)))
							if not judge(f'{where}: gambit.query.query item {j} (query with {Q["q"][j]} k-mers) on database {i}', i, Q['q'][j], obs):
								ok = False
								break
				elif op == 'item':
					p = pobjs[s['p']]
					P = c['params'][s['p']]
					if isinstance(p, dict):
						p = QueryParams(**p)
					q = Q['q'][s.get('j', 0) % len(Q['q'])]
					D = c['dbs'][i]
					if (i, q) not in rows:
						row = np.array([1 - min(D['refs'][int(g.key[1:])][1], q) / max(D['refs'][int(g.key[1:])][1], q) for g in dbs[i]['glist']],
						               dtype=np.float32)
						rows[(i, q)] = (row, row.tobytes())
					row = rows[(i, q)][0]
					inp = QueryInput(f'row{k}')
					try:
						item = get_result_item(db, p, row, inp)
					except Exception as x:  # noqa
						bad(f'{where}: get_result_item raises {type(x).__name__}: {x}', impl=type(x).__name__)
						ok = False
						break
					if P['strict']:
						obs = obs_item(item)
						handed.append((k, i, item, obs, list(item.classifier_result.warnings)))
						ctx.count('stream-part:qseq-strict-results')
						if not judge(f'{where}: get_result_item with the caller\'s float32 distance row (query with {q} k-mers) on database {i}', i, q, obs):
							ok = False
					else:
						ctx.count('qseq:non-strict-call-in-between (not judged)')
				elif op == 'cli':
					sigf = os.path.join(top, f'query{s["q"]}.qs')
					if not os.path.exists(sigf):
						dump_signatures(sigf, AnnotatedSignatures(SignatureList([np.array(U[:q], dtype=np.uint16) for q in Q['q']], ks, dtype=np.uint16),
						                                          [f'q{j}' for j in range(len(Q['q']))], SignaturesMeta(id='q')), 'hdf5')
					out = os.path.join(top, f'out{k}.json')
					args = ['-d', dbs[i]['dir'], 'query', '--strict', '-s', sigf, '-f', 'archive', '-o', out] + \
						(['--no-progress'] if s.get('noprogress') else [])
					r = CliRunner().invoke(gambit.cli.cli, args)
					if r.exit_code != 0 or not os.path.exists(out):
						bad(f'{where}: gambit {" ".join(args[2:])}: exit code {r.exit_code}: {r.exception!r}', impl=str(r.exception))
						ok = False
						break
					with open(out) as f:
						items = json.load(f)['items']
					if len(items) != len(Q['q']):
						bad(f'{where}: gambit {" ".join(args[2:])}: {len(items)} items for {len(Q["q"])} queries')
						ok = False
						break
					ctx.count('stream-part:qseq-strict-results', len(items))
					for j, it in enumerate(items):
						cr = it['classifier_result']
						pm = cr['primary_match']
						obs = dict(success=cr['success'], error=cr['error'],
						           pred=None if cr['predicted_taxon'] is None else int(cr['predicted_taxon']['key'][2:]),
						           warned=_q_warned(cr['warnings']),
						           primary=None if pm is None else (int(pm['genome']['key'][1:]), float(pm['distance']),
						                                            None if pm['matched_taxon'] is None else int(pm['matched_taxon']['key'][2:])))
						if not judge(f'{where}: gambit query --strict -f archive item {j} (query with {Q["q"][j]} k-mers) on database {i}', i, Q['q'][j], obs):
							ok = False
							break
				if not ok:
					break
				w = world()
				if w is not None:
					bad(f'{where}: after this call {w}')
					ok = False
					break
			if ok:
				for k, i, item, obs, warnings in handed:
					o2 = obs_item(item)
					if o2 != obs or list(item.classifier_result.warnings) != warnings:
						bad(f'the result returned by step {k + 1} {c["steps"][k]} reads {o2} warnings={list(item.classifier_result.warnings)} at the end of '
						    f'the script; when it was returned it read {obs} warnings={warnings}', impl=o2, spec=obs)
						break
				if any(len(v) > 1 for v in used.values()):
					ctx.count('qseq:object-used-against-two-databases')
				w = canary()
				if w is not None:
					bad(f'after the script (last step: {c["steps"][-1]}) a fixed good call -- gambit.query.query on the first database with a fresh '
					    f'params object and a fresh list of two queries -- is wrong: the script left state behind: {w}')
			ctx.case(c, nontrivial=nt[0])
		finally:
			for o in dbs:
				try:
					close(o)
				except Exception:  # noqa
					pass
			shutil.rmtree(top, ignore_errors=True)


KINDS = {'consensus': k_consensus, 'classify': k_classify, 'cli': k_cli, 'query': k_query, 'seq': k_seq, 'qseq': k_qseq}
# 'query' / 'qseq' have no Coq model behind them (see their headers): they are not listed as model/implementation correspondences
CORRESPONDENCES = ['classify', 'cli', 'consensus', 'seq']


# ---------------------------------------------------------------------------------------------
# generators

def _forests(n):
	"""all parent tables with parent index < own index (-1 = root): every forest shape with n taxa"""
	return itertools.product(*[range(-1, i) for i in range(n)])


def _rand_forest(rng, n):
	style = rng.random()
	parents = []
	for i in range(n):
		if i == 0 or rng.random() < (0.15 if style < 0.7 else 0.03):
			parents.append(-1)
		elif style < 0.35:
			parents.append(rng.randrange(max(0, i - 2), i))   # deep
		else:
			parents.append(rng.randrange(i))
	return parents


def _rand_thr(rng, parents):
	"""thresholds in sixteenths; mostly decreasing towards the leaves (as in real databases), sometimes not"""
	thr = []
	mode = rng.random()
	for i, p in enumerate(parents):
		if rng.random() < 0.25:
			thr.append(None)
		elif mode < 0.7:
			up = 16
			q = p
			while q >= 0:
				if thr[q] is not None:
					up = thr[q]
					break
				q = parents[q]
			thr.append(rng.randint(max(0, up - 5), up))
		else:
			thr.append(rng.randint(0, 16))
	return thr


def _three_level_forest(a, b, j, c):
	"""chain 0..a-1 from a root down to X = a-1; a chain of b taxa below X ending in Y; a chain of c taxa hanging off
	node j <= a-2 ending in Z (so Z is incomparable with X, their lowest common ancestor is j).  a >= 2."""
	parents = [-1] + list(range(a - 1))
	x = a - 1
	p = x
	for _ in range(b):
		parents.append(p)
		p = len(parents) - 1
	y = p
	p = j
	for _ in range(c):
		parents.append(p)
		p = len(parents) - 1
	return parents, x, y, p


def _structured_orders(rng, paths, sel):
	"""orders that are adversarial for a single left-to-right scan"""
	asc = sorted(sel)                                   # parents before children (parent index < own index)
	by_depth = sorted(sel, key=lambda i: (len(paths[i]), i))
	by_tree = sorted(sel, key=lambda i: paths[i])      # depth-first: every lineage contiguous
	half = len(asc) // 2
	inter = [x for pr in zip(asc[:half], asc[::-1][:half]) for x in pr] + asc[half:len(asc) - half]
	rot = asc[half:] + asc[:half]
	return [asc, asc[::-1], by_depth, by_depth[::-1], by_tree, by_tree[::-1], inter, rot]


_ODD_NAMES = ['a, b', '1:x', '', 'Escherichia coli', 'coli, Escherichia', 'é字', 't1', 't1', '. Reporting lowest common ancestor of this set.',
              'x\ny', 'None', ', ', ':', 'Query matched 2 inconsistent taxa: 0:t0, 1:t1', ' lead', 'trail ']


def _rand_opts(rng, genomes, den):
	o = {}
	if rng.random() < 0.8:
		o['layout'] = rng.choice(_LAYOUTS)
	if rng.random() < 0.3:
		o['refs'] = 'tuple'
	if rng.random() < 0.3:
		o['strict'] = rng.choice(['np', 'one'])
	if rng.random() < 0.4:
		o['scalar'] = rng.choice(['py', 'int'])
	if rng.random() < 0.4:
		o['fm'] = rng.choice(['list', 'gen'])
	if rng.random() < 0.25:
		o['alias'] = True
	if rng.random() < 0.4:
		o['reuse'] = True
	return o


def _rand_seq_case(rng, maxsteps):
	"""a random script for kind seq: one or two 'worlds' (trees with the same Taxon.id values 0.., as two databases have), small
	pools of genome objects / reference containers / distance arrays / taxon containers, 2..maxsteps steps over them"""
	n1 = rng.randint(2, 6)
	parents = _rand_forest(rng, n1)
	ids = list(range(n1))
	if rng.random() < 0.5:
		n2 = n1 if rng.random() < 0.5 else rng.randint(2, 5)
		parents += [p if p < 0 else p + n1 for p in _rand_forest(rng, n2)]
		ids += list(range(n2))
	n = len(parents)
	if rng.random() < 0.4:
		# one tree mostly: conflicts (and three-level ones) are frequent
		parents = [-1] + [rng.choice([0, 0, max(0, i - 1), rng.randrange(i)]) for i in range(1, n)]
	thr = _rand_thr(rng, parents)
	ng = rng.randint(2, 6)
	genomes = [rng.randrange(n) for _ in range(ng)]
	lens = rng.choice([[2, 3], [3], [2, 4], [1, 3], [4, 5], [3, 3, 6]])
	lo, hi = rng.choice([0, 0, 4]), 17
	if rng.random() < 0.2:
		# a three-level conflict {X, a descendant Y of it, Z beside X} whose members all match, in every reference order
		parents, x, y, z = _three_level_forest(rng.randint(2, 3), rng.randint(1, 2), 0, rng.randint(1, 2))
		parents = parents + [-1]
		n = len(parents)
		ids = list(range(n))
		thr = [rng.choice([None, 12, 14]) for _ in range(n)]
		thr[x], thr[y], thr[z] = rng.randint(8, 10), rng.randint(6, 8), rng.randint(8, 10)
		genomes = [x, y, z] + [rng.randrange(n) for _ in range(rng.randint(0, 2))]
		ng = len(genomes)
		lens, hi = [3], 9
	lists = [dict(g=[rng.randrange(ng) for _ in range(rng.choice(lens))], **{'as': 'list' if rng.random() < 0.75 else 'tuple'})
	         for _ in range(rng.randint(2, 3))]
	if lens == [3] and hi == 9:
		lists[0]['g'] = rng.sample([0, 1, 2], 3)
	arrays = [dict(v=[rng.randint(lo, hi) for _ in range(rng.choice(lens))], layout=rng.choice(_LAYOUTS)) for _ in range(rng.randint(2, 3))]
	taxsets = [dict(t=[rng.randrange(n) for _ in range(rng.randint(0, 5))], **{'as': rng.choice(_CONTAINERS[:6])}) for _ in range(rng.randint(1, 2))]
	llen = [len(L['g']) for L in lists]
	steps = []
	if rng.random() < 0.45:
		# directed: a call, a change by the caller that matters to exactly that call (a taxon on a lineage of one of its genomes
		# re-parented / given another threshold, one of its genomes moved, one of its distances or list entries overwritten),
		# sometimes a failing call, then the same call on the same objects again -- twice over
		l = rng.randrange(len(lists))
		same = [a for a, A in enumerate(arrays) if len(A['v']) == llen[l]]
		if not same:
			arrays.append(dict(v=[rng.randint(lo, hi) for _ in range(llen[l])], layout=rng.choice(_LAYOUTS)))
			same = [len(arrays) - 1]
		a = rng.choice(same)
		cur, gt = list(parents), list(genomes)
		call = dict(op='classify', l=l, a=a, th=0)
		steps.append(dict(call))
		for _ in range(rng.randint(1, 2)):
			on = set()
			for g in lists[l]['g']:
				t = gt[g]
				while t >= 0:
					on.add(t)
					t = cur[t]
			w = rng.choice(['parent', 'parent', 'parent', 'thr', 'thr', 'taxon', 'dist', 'list'])
			movable = sorted(t for t in on if t > 0)
			if w == 'parent' and movable:
				t = rng.choice(movable)
				p = rng.choice([q for q in range(-1, t) if q != cur[t]])
				cur[t] = p
				steps.append(dict(op='edit', what='parent', t=t, p=p))
			elif w == 'taxon':
				g = rng.choice(lists[l]['g'])
				gt[g] = rng.randrange(n)
				steps.append(dict(op='edit', what='taxon', g=g, t=gt[g]))
			elif w == 'dist' and arrays[a]['layout'] != 'readonly':
				steps.append(dict(op='edit', what='dist', a=a, i=rng.randrange(llen[l]), v=rng.randint(0, 17)))
			elif w == 'list' and lists[l]['as'] == 'list':
				g2 = list(lists[l]['g'])
				g2[rng.randrange(len(g2))] = rng.randrange(ng)
				steps.append(dict(op='edit', what='list', l=l, g=g2))
			else:
				steps.append(dict(op='edit', what='thr', t=rng.choice(sorted(on)), v=rng.choice([None, 0, rng.randint(0, 16), 16, 17])))
			if rng.random() < 0.3:
				steps.append(dict(op='fail', how=rng.choice(_SEQ_FAILS), l=l, a=a, s=0, at=rng.randint(0, 3), th=0))
			steps.append(dict(call, th=1 if rng.random() < 0.25 else 0))
		return dict(parents=parents, thr=thr, ids=ids, genomes=genomes, lists=lists, arrays=arrays, taxsets=taxsets, steps=steps)
	for _ in range(rng.randint(2, maxsteps)):
		x = rng.random()
		th = 1 if rng.random() < 0.25 else 0
		if x < 0.5:
			l = rng.randrange(len(lists))
			same = [a for a, A in enumerate(arrays) if len(A['v']) == llen[l]]
			a = rng.choice(same) if same and rng.random() < 0.9 else rng.randrange(len(arrays))
			s = dict(op='classify' if rng.random() < 0.85 else 'find', l=l, a=a, th=th)
			if s['op'] == 'classify' and rng.random() < 0.25:
				s['strict'] = rng.choice(['np', 'one', 'no'])
		elif x < 0.58:
			s = dict(op='consensus', s=rng.randrange(len(taxsets)), th=th)
		elif x < 0.62:
			s = dict(op='match', g=rng.randrange(ng), d=rng.randint(0, 17), th=th)
			if rng.random() < 0.5:
				s['scalar'] = rng.choice(['py', 'f64'])
		elif x < 0.85:
			w = rng.choice(['parent', 'parent', 'thr', 'thr', 'taxon', 'dist', 'list'])
			if w == 'parent' and n > 1:
				t = rng.randrange(1, n)
				s = dict(op='edit', what='parent', t=t, p=rng.randint(-1, t - 1))
			elif w == 'taxon':
				s = dict(op='edit', what='taxon', g=rng.randrange(ng), t=rng.randrange(n))
			elif w == 'dist' and any(A['layout'] != 'readonly' for A in arrays):
				a = rng.choice([a for a, A in enumerate(arrays) if A['layout'] != 'readonly'])
				s = dict(op='edit', what='dist', a=a, i=rng.randrange(len(arrays[a]['v'])), v=rng.randint(0, 17))
			elif w == 'list' and any(L['as'] == 'list' for L in lists):
				l = rng.choice([l for l, L in enumerate(lists) if L['as'] == 'list'])
				m = llen[l] if rng.random() < 0.7 else max(1, llen[l] + rng.choice([-1, 1]))
				s = dict(op='edit', what='list', l=l, g=[rng.randrange(ng) for _ in range(m)])
				llen[l] = m
			else:
				s = dict(op='edit', what='thr', t=rng.randrange(n), v=rng.choice([None, rng.randint(0, 16), rng.randint(8, 16)]))
		else:
			s = dict(op='fail', how=rng.choice(_SEQ_FAILS), l=rng.randrange(len(lists)), a=rng.randrange(len(arrays)),
			         s=rng.randrange(len(taxsets)), at=rng.randint(0, 3), th=th)
		steps.append(s)
	return dict(parents=parents, thr=thr, ids=ids, genomes=genomes, lists=lists, arrays=arrays, taxsets=taxsets, steps=steps)


def _rand_qseq_case(rng, maxsteps, cli_share):
	def rdb(n=None):
		if rng.random() < 0.3:
			parents, x, y, z = _three_level_forest(rng.randint(2, 3), rng.randint(1, 2), 0, rng.randint(1, 2))
			parents = parents + [-1]
			n = len(parents)
			thr = [None] * n
			thr[x], thr[y], thr[z] = 8, rng.choice([4, 6]), 8
			thr[0] = rng.choice([None, 12])
			thr[n - 1] = rng.choice([None, 8])
			refs = [[x, rng.randint(7, 16)], [y, rng.randint(9, 16)], [z, rng.randint(7, 16)]]
			refs += [[rng.randrange(n), rng.randint(1, 16)] for _ in range(rng.randint(0, 3))]
			rng.shuffle(refs)
		else:
			n = n or rng.randint(2, 7)
			parents = _rand_forest(rng, n)
			thr = _rand_thr(rng, parents)
			refs = [[rng.randrange(n), rng.randint(1, 16)] for _ in range(rng.randint(1, 8))]
		sigorder = list(range(len(refs)))
		if rng.random() < 0.6:
			rng.shuffle(sigorder)
		if rng.random() < 0.3:
			sigorder.insert(rng.randint(0, len(sigorder)), -rng.randint(1, 3))
		return dict(parents=parents, thr=thr, refs=refs, sigorder=sigorder, rdtype=rng.choice(['u2', 'u4']), load=rng.choice(['files', 'dir']))
	dbs = [rdb()]
	if rng.random() < 0.8:
		dbs.append(rdb(len(dbs[0]['parents']) if rng.random() < 0.5 else None))
	qsets = [dict(q=[rng.choice([16, 16, rng.randint(1, 16)])] + [rng.randint(1, 16) for _ in range(rng.randint(0, 2))],
	              dt=rng.choice(['u2', 'u4']), **{'as': rng.choice(['list', 'list', 'tuple', 'siglist', 'sigarray'])}) for _ in range(rng.randint(1, 3))]
	params = [dict(strict=True, chunksize=rng.choice([None, 1, 2, 1000]), form=rng.choice(['params', 'positional', 'kw']),
	               report_closest=rng.choice([10, 1, 3])) for _ in range(rng.randint(1, 2))]
	if rng.random() < 0.5:
		params.append(dict(strict=False, chunksize=rng.choice([None, 2, 1000]), form=rng.choice(['params', 'kw']), report_closest=10))
	steps = []
	for _ in range(rng.randint(3, maxsteps)):
		x = rng.random()
		db, q, p = rng.randrange(len(dbs)), rng.randrange(len(qsets)), rng.randrange(len(params))
		if x < 0.55:
			s = dict(op='query', db=db, q=q, p=p)
		elif x < 0.68:
			s = dict(op='item', db=db, q=q, p=p, j=rng.randrange(3))
		elif x < 0.68 + cli_share:
			s = dict(op='cli', db=db, q=q, noprogress=rng.random() < 0.5)
		elif x < 0.93:
			s = dict(op='fail', how=rng.choice(_QSEQ_FAILS[:5] if rng.random() < 0.8 else _QSEQ_FAILS[5:]), db=db, q=q, p=p, at=rng.randint(0, 2))
		else:
			s = dict(op='reload', db=db)
		steps.append(s)
	return dict(dbs=dbs, qsets=qsets, params=params, steps=steps)


def generate(ctx):
	rng = ctx.rng
	ctx.rule(RULE)
	nmax = ctx.pick(5, 6)
	kmax = 4
	# ---- exhaustive: all orders of all matched sets of size <= 4 over all forests with <= nmax taxa
	for n in range(1, nmax + 1):
		for parents in _forests(n):
			parents = list(parents)
			for k in range(0, min(kmax, n) + 1):
				for order in itertools.permutations(range(n), k):
					ctx.count('stream:exhaustive-consensus')
					yield 'consensus', dict(parents=parents, order=list(order))
	ctx.exhaustive = True
	ctx.extra['exhaustive_scope'] = (f'consensus_taxon: every forest with <= {nmax} taxa (parent tables with parent index < own '
	                                 f'index) x every sequence of <= {kmax} distinct matched taxa (all sets, all orders)')
	# ---- malformed / outside dict.keys(): sequences with repeated taxa (consensus_taxon accepts any iterable)
	for n in range(2, 5):
		for parents in _forests(n):
			for order in itertools.product(range(n), repeat=3):
				if len(set(order)) < 3:
					ctx.count('stream:malformed-repetitions')
					yield 'consensus', dict(parents=list(parents), order=list(order))
	# ---- random larger forests, several orders of the same multiset
	for _ in range(ctx.pick(4000, 20000)):
		n = rng.randint(5, 14)
		parents = _rand_forest(rng, n)
		k = rng.randint(2, 9)
		if rng.random() < 0.8:
			sel = rng.sample(range(n), min(k, n))
		else:
			sel = [rng.randrange(n) for _ in range(k)]
		for _ in range(4):
			rng.shuffle(sel)
			ctx.count('stream:random-consensus')
			yield 'consensus', dict(parents=parents, order=list(sel))
	# ---- classify: small forests, random thresholds, all orders of <= 4 reference genomes
	nc = ctx.pick(4, 5)
	reps = ctx.pick(3, 5)
	for n in range(1, nc + 1):
		for parents in _forests(n):
			parents = list(parents)
			for _ in range(reps):
				thr = _rand_thr(rng, parents)
				g = rng.randint(1, 4)
				genomes = [[rng.randrange(n), rng.randint(0, 17)] for _ in range(g)]
				f32 = rng.random() < 0.5
				for perm in itertools.permutations(genomes):
					ctx.count('stream:classify-all-reference-orders')
					yield 'classify', dict(parents=parents, thr=thr, genomes=[list(x) for x in perm], f32=f32)
	# ---- classify: the three-level conflict {species, its subspecies, a sibling species} under a genus, every
	#      assignment of matching / non-matching distances, all reference orders
	parents = [-1, 0, 0, 1]
	thr = [None, 8, 8, 4]
	for ds in itertools.product([3, 6, 12], repeat=3):
		genomes = [[1, ds[0]], [2, ds[1]], [3, ds[2]]]
		for perm in itertools.permutations(genomes):
			ctx.count('stream:classify-three-level')
			yield 'classify', dict(parents=parents, thr=thr, genomes=[list(x) for x in perm], f32=False)
	# ---- classify: random larger
	for _ in range(ctx.pick(1500, 8000)):
		n = rng.randint(3, 12)
		parents = _rand_forest(rng, n)
		thr = _rand_thr(rng, parents)
		g = rng.randint(1, 14)
		genomes = [[rng.randrange(n), rng.randint(0, 17)] for _ in range(g)]
		f32 = rng.random() < 0.5
		for _ in range(3):
			rng.shuffle(genomes)
			ctx.count('stream:random-classify')
			yield 'classify', dict(parents=parents, thr=thr, genomes=[list(x) for x in genomes], f32=f32)
	# ---- command line: gambit query --strict -f archive on databases built from the case
	parents = [-1, 0, 0, 1]
	thr = [None, 8, 8, 4]
	for perm in itertools.permutations([[1, 6], [2, 6], [3, 3]]):
		ctx.count('stream:cli-three-level')
		yield 'cli', dict(parents=parents, thr=thr, genomes=[list(x) for x in perm])
	for perm in itertools.permutations([[1, 5], [2, 6], [3, 7]]):
		ctx.count('stream:cli-three-siblings')
		yield 'cli', dict(parents=[-1, 0, 0, 0], thr=[None, 8, 8, 8], genomes=[list(x) for x in perm])
	for _ in range(ctx.pick(25, 250)):
		n = rng.randint(2, 8)
		parents = _rand_forest(rng, n)
		thr = _rand_thr(rng, parents)
		genomes = [[rng.randrange(n), rng.randint(0, 16)] for _ in range(rng.randint(1, 8))]
		for _ in range(2):
			rng.shuffle(genomes)
			ctx.count('stream:cli-random')
			yield 'cli', dict(parents=parents, thr=thr, genomes=[list(x) for x in genomes])
	# =============================================================================================
	# streams added by the coverage audit (see the table in the module docstring)
	# ---- consensus_taxon handed other iterables than a list (it is documented for any iterable; classify passes
	#      dict.keys()): tuple, set, frozenset, dict view, dict, generator, one-shot iterator; empty, single, repeated
	for _ in range(ctx.pick(130, 1200)):
		n = rng.randint(1, 10)
		parents = _rand_forest(rng, n)
		k = rng.choice([0, 1, 1, 2, 3, 3, 4, 5, 6])
		sel = [rng.randrange(n) for _ in range(k)] if rng.random() < 0.3 else rng.sample(range(n), min(k, n))
		for kind in _CONTAINERS[1:]:
			ctx.count('stream:consensus-containers')
			yield 'consensus', dict(parents=parents, order=list(sel), container=kind)
	# ---- structured orders of larger matched sets: ancestors first, descendants first, by depth, lineage by lineage,
	#      interleaved from both ends, rotated
	for _ in range(ctx.pick(260, 2500)):
		n = rng.randint(6, 18)
		parents = _rand_forest(rng, n)
		paths = _paths(parents)
		sel = rng.sample(range(n), rng.randint(3, min(n, 11)))
		for order in _structured_orders(rng, paths, sel):
			ctx.count('stream:consensus-structured-orders')
			yield 'consensus', dict(parents=parents, order=order)
	# ---- size classes: large forests (deep chains with side branches, wide stars, random), large matched sets
	for _ in range(ctx.pick(120, 1200)):
		style = rng.randrange(3)
		n = rng.randint(30, 120)
		if style == 0:      # a deep spine with short side branches
			parents = [-1]
			spine = 0
			for i in range(1, n):
				if rng.random() < 0.6:
					parents.append(spine)
					spine = i
				else:
					parents.append(rng.choice([spine, max(0, spine - 1), rng.randrange(i)]))
		elif style == 1:    # wide: a few genera with many species, some subspecies
			parents = [-1] + [rng.choice([0, 0, -1]) for _ in range(4)]
			for i in range(5, n):
				parents.append(rng.randrange(5) if rng.random() < 0.7 else rng.randrange(5, i) if i > 5 else 0)
		else:
			parents = _rand_forest(rng, n)
		k = rng.randint(10, 40)
		sel = rng.sample(range(n), min(k, n)) if rng.random() < 0.8 else [rng.randrange(n) for _ in range(k)]
		paths = _paths(parents)
		orders = [list(sel), sorted(sel), sorted(sel, reverse=True), sorted(sel, key=lambda i: (-len(paths[i]), i))]
		rng.shuffle(orders[0])
		for order in orders:
			ctx.count('stream:consensus-large')
			yield 'consensus', dict(parents=parents, order=order)
	# ---- three-level conflicts in general position: {X, a strict descendant Y any number of levels below, Z incomparable
	#      with X branching off any ancestor of X at any depth}, optionally with the consensus itself, a higher ancestor,
	#      a second branch below X, a taxon of another tree; every order (5 members: 24 sampled orders)
	shapes = [(a, b, j, c) for a in (2, 3) for b in (1, 2) for j in range(a - 1) for c in (1, 2)]
	for _ in range(ctx.pick(16, 300)):
		a = rng.randint(2, 6)
		shapes.append((a, rng.randint(1, 4), rng.randrange(a - 1), rng.randint(1, 4)))
	tl = []
	for a, b, j, c in shapes:
		parents, x, y, z = _three_level_forest(a, b, j, c)
		extras = [j]                                   # the expected consensus, matched directly
		if j > 0:
			extras.append(rng.randrange(j))            # an ancestor of the consensus
		parents = parents + [x, -1]                    # W: a second branch below X; V: another tree
		extras += [len(parents) - 2, len(parents) - 1]
		tl.append((parents, x, y, z, extras))
		for ne in (0, 1, 2):
			for ex in itertools.combinations(extras, ne):
				members = [x, y, z] + list(ex)
				perms = list(itertools.permutations(members))
				if len(perms) > 24:
					perms = rng.sample(perms, 24)
				for order in perms:
					ctx.count('stream:consensus-three-level-general')
					yield 'consensus', dict(parents=parents, order=list(order))
	# ---- the same shapes through classify: thresholds that make exactly the chosen taxa match, genomes assigned to the
	#      matched taxon or to a threshold-less / tighter taxon below it, extra unmatched (sometimes nearest) genomes
	for parents, x, y, z, extras in tl:
		n = len(parents)
		for _ in range(ctx.pick(2, 6)):
			ex = rng.sample(extras, rng.choice([0, 0, 1, 1, 2]))
			members = [x, y, z] + ex
			thr = [None] * n
			paths = _paths(parents)
			# thresholds grow towards the roots; members get 4 + 2*(height above the deepest level), capped
			depth = max(len(q) for q in paths)
			for m in members:
				thr[m] = min(15, 3 + 2 * (depth - len(paths[m])))
			genomes = []
			for m in members:
				d = rng.randint(max(0, thr[m] - 1), thr[m])
				below = [i for i in range(n) if i != m and _is_prefix(paths[m], paths[i])
				         and all(thr[q] is None or thr[q] < d for q in paths[i][len(paths[m]):])]
				genomes.append([rng.choice(below) if below and rng.random() < 0.4 else m, d])
			for _ in range(rng.choice([0, 0, 1, 2])):
				genomes.append([rng.randrange(n), 17 if rng.random() < 0.5 else 16])
			if rng.random() < 0.3:
				# a nearest genome that matches nothing: assigned to a taxon without thresholds on its lineage
				free = [i for i in range(n) if all(thr[q] is None for q in paths[i])]
				if free:
					genomes.append([rng.choice(free), 0])
			perms = list(itertools.permutations(genomes)) if len(genomes) <= 4 else [rng.sample(genomes, len(genomes)) for _ in range(12)]
			f32 = rng.random() < 0.5
			for perm in perms:
				ctx.count('stream:classify-three-level-general')
				yield 'classify', dict(parents=parents, thr=thr, genomes=[list(g) for g in perm], f32=f32)
	# ---- classify / matching_taxon / find_matches call forms: distance array dtype (float16/32/64, byte-swapped), non-contiguous
	#      views with decoy cells, read-only; reference genomes as a tuple; strict=np.True_ / 1; distance scalars as Python
	#      float / int; find_matches fed a list / a generator; one AnnotatedGenome object listed several times; the same
	#      reference list and array used for a second call
	for _ in range(ctx.pick(700, 6000)):
		n = rng.randint(1, 9)
		parents = _rand_forest(rng, n)
		thr = _rand_thr(rng, parents)
		g = rng.randint(1, 8)
		genomes = [[rng.randrange(n), rng.choice([0, 16, 16, 17]) if rng.random() < 0.2 else rng.randint(0, 17)] for _ in range(g)]
		for _ in range(2):
			rng.shuffle(genomes)
			ctx.count('stream:classify-call-forms')
			yield 'classify', dict(parents=parents, thr=thr, genomes=[list(x) for x in genomes], opts=_rand_opts(rng, genomes, 16))
	# ---- unusual taxon names in the warning (commas, colons, empty, repeated, non-ASCII, a line break, the warning's own
	#      wording): recognised by short_repr() '<id>:<name>' in any arrangement
	for _ in range(ctx.pick(300, 3000)):
		n = rng.randint(3, 8)
		parents = _rand_forest(rng, n)
		if rng.random() < 0.5:
			parents = [-1] + [rng.choice([0, 0, max(0, i - 1)]) for i in range(1, n)]     # one tree: conflicts are frequent
		thr = [rng.choice([None, 8, 10, 12]) if i else rng.choice([None, 14]) for i in range(n)]
		names = [rng.choice(_ODD_NAMES) for _ in range(n)]
		genomes = [[rng.randrange(n), rng.randint(0, 12)] for _ in range(rng.randint(2, 6))]
		ctx.count('stream:classify-unusual-names')
		yield 'classify', dict(parents=parents, thr=thr, genomes=genomes, opts=dict(names=names, layout=rng.choice(['f64', 'f32'])))
	# ---- distances and thresholds that are not multiples of 1/16 (thirds, sevenths, tenths, hundredths ...), as float64
	#      and as rounded float32 / float16 arrays: the integer model does not apply, the matched set is computed with
	#      exact comparisons of the very numbers handed over
	for _ in range(ctx.pick(700, 6000)):
		n = rng.randint(1, 9)
		parents = _rand_forest(rng, n)
		den = rng.choice([3, 7, 10, 12, 13, 100, 1000])
		thr16 = _rand_thr(rng, parents)
		thr = [None if t is None else min(den, round(t * den / 16)) for t in thr16]
		g = rng.randint(1, 8)
		tvals = [t for t in thr if t is not None] or [den // 2]
		genomes = []
		for _ in range(g):
			# often exactly on, or one step beside, a threshold
			d = rng.choice(tvals) + rng.choice([-1, 0, 0, 1]) if rng.random() < 0.6 else rng.randint(0, den + 1)
			genomes.append([rng.randrange(n), max(0, d)])
		o = _rand_opts(rng, genomes, den)
		o['layout'] = rng.choice(_LAYOUTS)
		for _ in range(2):
			rng.shuffle(genomes)
			ctx.count('stream:classify-real-distances')
			yield 'classify', dict(parents=parents, thr=thr, genomes=[list(x) for x in genomes], den=den, opts=dict(o))
	# ---- size class: many reference genomes (up to 300, thorough 1000) on larger forests
	for _ in range(ctx.pick(30, 400)):
		n = rng.randint(10, 60)
		parents = _rand_forest(rng, n)
		thr = _rand_thr(rng, parents)
		g = rng.randint(50, ctx.pick(300, 1000))
		lo = rng.choice([0, 0, 4, 8])
		genomes = [[rng.randrange(n), rng.randint(lo, 17)] for _ in range(g)]
		for _ in range(3):
			rng.shuffle(genomes)
			ctx.count('stream:classify-large')
			yield 'classify', dict(parents=parents, thr=thr, genomes=[list(x) for x in genomes], f32=rng.random() < 0.5)
	# ---- database-loaded objects through gambit.query.query (+ the command line with several queries, FASTA input,
	#      -l/--ldir, -c, --no-progress), signature file order different from the genome order, unrelated signatures
	def qcase(parents, thr, refs, queries, full):
		nref = len(refs)
		sigorder = list(range(nref))
		if rng.random() < 0.7:
			rng.shuffle(sigorder)
		for _ in range(rng.choice([0, 0, 1, 2])):
			sigorder.insert(rng.randint(0, len(sigorder)), -rng.randint(1, 3))
		api = dict(form=rng.choice(['params', 'kw', 'positional']), chunksize=rng.choice([None, 1, 2, 3, 1000]),
		           qcontainer=rng.choice(['list', 'tuple', 'siglist', 'sigarray']), load=rng.choice(['files', 'dir']),
		           qdtype=rng.choice(['u2', 'u4', 'u8']))
		cli = {}
		if full:
			cli = dict(input=rng.choice(['sig', 'sig', 'fasta', 'fasta-list']))
			if rng.random() < 0.5:
				cli['cores'] = rng.choice([1, 2])
			if rng.random() < 0.5:
				cli['noprogress'] = True
		return dict(parents=parents, thr=thr, refs=refs, queries=queries, sigorder=sigorder, rdtype=rng.choice(['u2', 'u4', 'u8']),
		            api=api, cli=cli)

	nq = ctx.pick(36, 400)
	for it in range(nq):
		if it % 4 == 0:
			# the three-level conflict {species, subspecies, sibling species} under a genus (+ another tree)
			parents, x, y, z = _three_level_forest(rng.randint(2, 3), rng.randint(1, 2), 0, rng.randint(1, 2))
			parents = parents + [-1]
			n = len(parents)
			thr = [None] * n
			thr[x], thr[y], thr[z] = 8, rng.choice([4, 6]), 8
			thr[0] = rng.choice([None, 12])
			thr[n - 1] = rng.choice([None, 8])
			refs = [[x, rng.randint(7, 16)], [y, rng.randint(9, 16)], [z, rng.randint(7, 16)]]
			refs += [[rng.randrange(n), rng.randint(1, 16)] for _ in range(rng.randint(0, 3))]
			rng.shuffle(refs)
		else:
			n = rng.randint(2, 8)
			parents = _rand_forest(rng, n)
			thr = _rand_thr(rng, parents)
			refs = [[rng.randrange(n), rng.randint(1, 16)] for _ in range(rng.randint(1, 9))]
		queries = [rng.randint(1, 16) for _ in range(rng.randint(1, 5))]
		if rng.random() < 0.5:
			queries[0] = 16
		ctx.count('stream:query-api-and-cli')
		yield 'query', qcase(parents, thr, refs, queries, it % 2 == 0)
	# =============================================================================================
	# streams added by the statefulness / aliasing audit (see "state and aliasing" in the module docstring)
	# ---- scripts of classify / find_matches / matching_taxon / consensus_taxon calls over a shared pool of taxa, genomes,
	#      reference containers and distance arrays; the caller changes its own objects between calls; failing calls in
	#      between; some steps on a second thread; every script also with its steps in the opposite order
	for _ in range(ctx.pick(1400, 10000)):
		case = _rand_seq_case(rng, ctx.pick(6, 8))
		ctx.count('stream:seq-classify-scripts')
		yield 'seq', case
		if rng.random() < 0.5:
			ctx.count('stream:seq-classify-scripts')
			yield 'seq', dict(case, steps=case['steps'][::-1])
	# ---- scripts of gambit.query.query / get_result_item / command-line calls over one or two databases, a pool of
	#      QueryParams objects / keyword dicts and of query containers; failing calls, reloads, non-strict calls in between
	for _ in range(ctx.pick(36, 300)):
		case = _rand_qseq_case(rng, ctx.pick(6, 8), ctx.pick(0.08, 0.12))
		ctx.count('stream:qseq-query-scripts')
		yield 'qseq', case
		if rng.random() < 0.5:
			ctx.count('stream:qseq-query-scripts')
			yield 'qseq', dict(case, steps=case['steps'][::-1])
