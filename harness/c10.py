"""C10 -- strict classification reports an order-independent consensus of all matches.

Tie: B.  gambit.classify.consensus_taxon / matching_taxon / find_matches / classify(strict=True) are run
on transient ORM objects (Taxon(parent=...), AnnotatedGenome(taxon=...), nothing is flushed to a
database) built from the harness's own parent / threshold tables; the extracted model (Model/C10.v,
repaired trunk algorithm) and the extracted specification (Spec/C10.v: LCA of the most specific
matched taxa) get root paths computed from the same tables.  The specification is evaluated on the
*sorted set* of matched taxa, so `impl(order) != spec(set)` is at the same time a wrong consensus and
an order dependence; an independent Python oracle (maximal elements + LCA on the parent table)
cross-checks the extracted specification.  A third stream builds small reference databases
(sqlite + HDF5) and runs `gambit query --strict -s ... -f archive -o ...` in process.  A fourth kind
(`query`, no Coq model behind it) drives the Python entry points with database-loaded objects.

Coverage audit (item of the property text -> streams that run it ON THE IMPLEMENTATION; [P] = the property
predicate is judged there, [M] = also compared with the extracted model; "new" = added by the audit):
  clauses
   each genome matches most specific covering threshold-bearing taxon   classify-* (matching_taxon, find_matches) [P][M]; query, cli via outcome [P]
   consensus = most specific / LCA of most specific / None + failed      exhaustive-consensus, random-consensus [P][M]; classify-*, cli-*, query [P]
   never depends on the order of the references / matches               all orders <=4 (exhaustive-consensus, classify-all-reference-orders), shuffles;
                                                                        new consensus-structured-orders (ancestors/descendants first, by depth,
                                                                        lineage-wise, interleaved, rotated), set/dict iteration orders [P][M]
   prediction comparable with every matched taxon                       implied by impl == spec(set) wherever the consensus is judged [P]
   warning names exactly the matched taxa strictly below                classify-*, cli-*, query [P]; new classify-unusual-names (commas, colons, empty,
                                                                        repeated, non-ASCII names: count and short_repr()s) [P]
   primary match = a nearest genome matched at/below the prediction     classify-*, cli-*, query [P] (ties unconstrained)
  quantifier
   all forests                                                          exhaustive <=5 taxa, random <=14; new consensus-large (30..120 taxa: deep spines,
                                                                        wide stars), classify-large (<=60 taxa, 50..300 genomes) [P][M]
   all sets of matched taxa (empty, single, repeated, >=4 conflicting)   exhaustive k<=4, malformed-repetitions, random k<=9; new consensus-large k<=40
   three-level conflicts                                                fixed instance (classify-three-level, cli-three-level) + random; new
                                                                        consensus-/classify-three-level-general: X, descendant any depth below, Z off any
                                                                        ancestor, +consensus itself / higher ancestor / 2nd branch / other tree, all orders
   distances / thresholds                                               sixteenths, float32/64 (was); new classify-real-distances: thirds .. thousandths as
                                                                        float64/32/16, on and beside thresholds [P, no model]; query: Jaccard p/q [P, no model]
  observe at / call forms
   consensus_taxon(iterable)                                            list only (was); new consensus-containers: tuple, set, frozenset, dict view, dict,
                                                                        generator, one-shot iterator, second call on the same object [P][M]
   classify(refs, dists, strict=)                                       list + contiguous native float32/64 (was); new classify-call-forms: float16,
                                                                        byte-swapped, strided / reversed / column views with decoy cells, read-only, tuple of
                                                                        refs, strict=np.True_ / 1, one genome object listed twice, second call on the same
                                                                        objects; matching_taxon(Python float / int), find_matches(list / generator) [P][M]
   gambit.query.query / QueryParams / get_result_item (persistent objects) was: only through the CLI; new query: load / load_from_dir, params / keyword /
                                                                        positional form, chunksize None/1/2/3/1000, several queries per call, query
                                                                        containers and dtypes, signature order != genome order, unrelated signatures [P]
   gambit query --strict -f archive                                     -s with one query (was); new query: several queries per file, FASTA files
                                                                        positional and -l/--ldir (query_parse), -c, --no-progress [P]
  not driven: non-strict mode, -f csv/json (they show report_taxon, other properties), empty reference list (np.argmin
  raises before strict mode starts), NaN / infinite distances, cyclic parent pointers (outside the stated domain)."""
import itertools
import re

PROP = 'C10'
RULE = ('consensus: (forest, sequence of matched taxa[, container type]) -> consensus_taxon; classify: (forest with thresholds, '
        'reference genomes with distances, in a given order[, call form: array dtype/layout, refs container, strict flag, scalar types, '
        'repeated genome object, second call; unusual taxon names; denominators other than 16]) -> classify(strict=True), matching_taxon, '
        'find_matches; cli: the same through a scratch database and `gambit query --strict -f archive`; query: scratch database + '
        'nested k-mer sets (Jaccard distances 1-min/max) -> ReferenceDatabase.load*, gambit.query.query (params / keyword forms, chunk '
        'sizes, several queries), then `gambit query --strict -f archive` with a multi-query signature file or FASTA files. '
        'non-trivial: at least two distinct matched taxa; counted separately: three-level conflicts '
        '{taxon, a strict descendant, an incomparable taxon of the same tree}, container / option / shape counters')
TRUSTED = ['SQLAlchemy ORM: transient Taxon/AnnotatedGenome objects (parent relationship, identity equality/hash) '
           'behave like loaded ones for .parent/.ancestors()/.distance_threshold',
           'NumPy: np.argmin, float comparison of exactly representable distances k/16 (float32 and float64 arrays) '
           'with Python-float thresholds',
           'CPython dict insertion order / set semantics (modelled by association lists / lists compared as sets)',
           'cli stream: SQLite/SQLAlchemy, h5py and the distance kernel deliver the taxonomy, thresholds and the Jaccard '
           'distances (16-m)/16 the harness designed into the scratch database (query {0..15}, reference = its first m k-mers)',
           'query kind: the same, with k-mer sets that are prefixes of 16 fixed 5-mers over {C,G} (distance 1-min/max); FASTA input: '
           'k-mer search and index coding (ACGT=0123, big-endian; properties C01/C06/C07) turn the contigs ATGAC+w into those sets']
ASSUMPTIONS = ['the taxonomy is a forest (parent pointers acyclic), so every taxon is identified by its root path',
               'distances and thresholds are finite floats; the harness uses multiples of 1/16 so that the model can use integers',
               'the closest-match fields (closest_match, next_taxon, "Primary genome match is not closest match" warning) '
               'are not part of this property and are not compared',
               'primary match: only its distance and the property predicate are compared with the specification '
               '(ties between equally near genomes are not constrained by the property)',
               'streams outside the integer model (classify with denominators other than 16, kind query) are judged by the '
               'specification on the matched set computed with exact comparisons of the numbers handed over, and the property '
               'predicate; the reported primary distance is there only required to agree to float32 accuracy']
SHRINK = True
BATCH = 1500


def setup(ctx):
	from vf import impl
	impl.check_import()


# ---------------------------------------------------------------------------------------------
# own tables -> root paths, python oracle

def _paths(parents):
	paths = []
	for i, p in enumerate(parents):
		if not isinstance(p, int) or p >= i or p < -1:
			raise ValueError('bad parent table')
		paths.append([i] if p < 0 else paths[p] + [i])
	return paths


def _is_prefix(a, b):
	return len(a) <= len(b) and b[:len(a)] == a


def _py_spec(paths, idxs):
	"""(consensus index or None, sorted indices strictly below it) for the set idxs, straight from the
	definition: LCA of the members that have no other member strictly below them."""
	s = sorted(set(idxs))
	if not s:
		return None, []
	mx = [i for i in s if not any(j != i and _is_prefix(paths[i], paths[j]) for j in s)]
	l = list(paths[mx[0]])
	for i in mx[1:]:
		q = paths[i]
		n = 0
		while n < len(l) and n < len(q) and l[n] == q[n]:
			n += 1
		l = l[:n]
	if not l:
		return None, s
	c = l[-1]
	return c, [i for i in s if i != c and _is_prefix(paths[c], paths[i])]


def _three_level(paths, idxs):
	s = sorted(set(idxs))
	for x in s:
		for y in s:
			if y != x and _is_prefix(paths[x], paths[y]):
				for z in s:
					if z not in (x, y) and paths[z][0] == paths[x][0] and not _is_prefix(paths[x], paths[z]) \
							and not _is_prefix(paths[z], paths[x]):
						return True
	return False


def _dec_cons(v):
	"""model/spec value (optc others) -> (index or None, sorted indices)"""
	c = v[0][0][-1] if v[0] else None
	return c, sorted({p[-1] for p in v[1]})


_taxa_cache = {}


def _taxa(parents, thr=None, den=16, names=None):
	from gambit.db import Taxon
	key = (tuple(parents), tuple(thr) if thr is not None else None, den, tuple(names) if names is not None else None)
	if key not in _taxa_cache:
		if len(_taxa_cache) > 64:
			_taxa_cache.clear()
		taxa = []
		for i, p in enumerate(parents):
			kw = {}
			if thr is not None and thr[i] is not None:
				kw['distance_threshold'] = thr[i] / den
			taxa.append(Taxon(id=i, name=f't{i}' if names is None else names[i], parent=taxa[p] if p >= 0 else None, **kw))
		_taxa_cache[key] = taxa
	return _taxa_cache[key]


def _names(parents, idxs):
	return '[' + ', '.join(f't{i}' for i in idxs) + ']'


# ---------------------------------------------------------------------------------------------
# kind: consensus

_CONTAINERS = ('list', 'tuple', 'set', 'frozenset', 'dict_keys', 'dict', 'generator', 'iterator')


def _container(kind, items):
	"""the argument object handed to consensus_taxon (it is documented to take any iterable; classify hands it
	dict.keys()) and whether it can be iterated a second time"""
	if kind == 'list':
		return list(items), True
	if kind == 'tuple':
		return tuple(items), True
	if kind == 'set':
		return set(items), True
	if kind == 'frozenset':
		return frozenset(items), True
	if kind == 'dict_keys':
		return dict.fromkeys(items).keys(), True
	if kind == 'dict':
		return dict.fromkeys(items), True
	if kind == 'generator':
		return (t for t in items), False
	if kind == 'iterator':
		return iter(items), False
	raise ValueError('bad container')


def k_consensus(ctx, cases):
	from gambit.classify import consensus_taxon
	prepared = []
	reqs = []
	for c in cases:
		paths = _paths(c['parents'])
		order = list(c['order'])
		if any((not isinstance(i, int)) or i < 0 or i >= len(paths) for i in order):
			raise ValueError('bad order')
		taxa = _taxa(c['parents'])
		index = {id(t): i for i, t in enumerate(taxa)}
		kind = c.get('container', 'list')
		arg, again = _container(kind, [taxa[i] for i in order])
		# the sequence the implementation will see (sets / dict views: their own iteration order, repetitions gone)
		seen = [index[id(t)] for t in arg] if again else list(order)
		seq = [paths[i] for i in seen]
		canon = [paths[i] for i in sorted(set(order))]
		prepared.append((paths, order, taxa, index, kind, arg, again, seen))
		reqs += [(1001, seq), (1002, seq), (1003, canon)]
	ans = ctx.model(reqs) if ctx.model_ok else None
	for n, c in enumerate(cases):
		paths, order, taxa, index, kind, arg, again, seen = prepared[n]
		impl2 = None
		try:
			r = consensus_taxon(arg)
			impl = (None if r[0] is None else index[id(r[0])], sorted(index[id(t)] for t in r[1]))
			if again and kind != 'list':
				# a caller-supplied object used for a second call: the consensus is a function of the set
				r2 = consensus_taxon(arg)
				impl2 = (None if r2[0] is None else index[id(r2[0])], sorted(index[id(t)] for t in r2[1]))
		except Exception as e:  # noqa
			impl = f'{type(e).__name__}: {e}'
		distinct = len(set(order))
		three = _three_level(paths, order)
		ctx.case(c, nontrivial=distinct >= 2)
		if three:
			ctx.count('shape:three-level-conflict')
		if len(order) != distinct:
			ctx.count('shape:with-repetitions')
		if kind != 'list':
			ctx.count('container:' + kind)
		py = _py_spec(paths, order)
		if ans is not None:
			m = ans[3 * n]
			model = _dec_cons(m[1]) if m[0] == 0 else f'error {m[1]}'
			m0 = ans[3 * n + 1]
			model_v0 = _dec_cons(m0[1]) if m0[0] == 0 else f'error {m0[1]}'
			spec = _dec_cons(ans[3 * n + 2])
			if spec != py:
				ctx.broke('extracted specification vs python oracle (consensus)', f'case {c}: spec={spec} python={py}')
				continue
		else:
			model = model_v0 = None
			spec = py
		how = '' if kind == 'list' else f' (handed over as a {kind}, iterated as {_names(c["parents"], seen)})'
		if impl != spec:
			ctx.violation('consensus', c,
			              f'consensus_taxon({_names(c["parents"], order)}){how} on parents={c["parents"]} returns {_show(impl)}; the consensus '
			              f'of this set of matched taxa (lowest common ancestor of its most specific members, which does not '
			              f'depend on their order) is {_show(spec)}',
			              impl=impl, spec=spec, model=model, model_of_algorithm_as_found=model_v0)
		elif impl2 is not None and impl2 != spec:
			ctx.violation('consensus', c,
			              f'consensus_taxon called a second time with the same {kind} object of {_names(c["parents"], order)} on '
			              f'parents={c["parents"]} returns {_show(impl2)}; the consensus of this set is {_show(spec)}',
			              impl=impl2, spec=spec, model=model)
		elif model is not None and model != impl:
			ctx.broke('correspondence consensus (model of repaired consensus_taxon vs implementation)',
			          f'case {c}: impl={impl} model={model}')


def _show(r):
	if isinstance(r, str):
		return r
	c, o = r
	return f'({"None" if c is None else "t%d" % c}, {{{", ".join("t%d" % i for i in o)}}})'


# ---------------------------------------------------------------------------------------------
# kind: classify

_WARN = re.compile(r'^Query matched (\d+) inconsistent taxa: (.*)\. Reporting lowest common ancestor of this set\.$')


_LAYOUTS = ('f64', 'f32', 'f16', 'be32', 'be64', 'strided', 'reversed', 'column', 'readonly')


def _dists_array(vals, layout):
	"""the distance array in one of the forms a caller may hold it in: dtype (float64/32/16, non-native byte order),
	non-contiguous views whose skipped cells hold decoys (0.0 = nearer than everything), read-only"""
	import numpy as np
	n = len(vals)
	if layout in ('f64', 'f32', 'f16'):
		return np.array(vals, dtype={'f64': np.float64, 'f32': np.float32, 'f16': np.float16}[layout])
	if layout == 'be32':
		return np.array(vals, dtype='>f4')
	if layout == 'be64':
		return np.array(vals, dtype='>f8')
	if layout == 'strided':
		base = np.zeros(2 * n + 1, dtype=np.float32)
		base[1::2] = vals
		return base[1::2]
	if layout == 'reversed':
		base = np.array(vals[::-1], dtype=np.float64)
		return base[::-1]
	if layout == 'column':
		m = np.zeros((n, 3), dtype=np.float32)
		m[:, 1] = vals
		return m[:, 1]
	if layout == 'readonly':
		a = np.array(vals, dtype=np.float32)
		a.flags.writeable = False
		return a
	raise ValueError('bad layout')


def _warn_parse(w, reprs):
	"""None if w is not the inconsistency warning, else (count, names part is a ', '-joined arrangement of reprs)"""
	mo = re.match(r'^Query matched (\d+) inconsistent taxa: (.*)\. Reporting lowest common ancestor of this set\.$', w, re.S)
	if not mo:
		return None
	part = mo.group(2)
	if len(reprs) <= 6:
		ok = any(', '.join(p) == part for p in itertools.permutations(reprs))
	else:
		ok = part == ', '.join(sorted(reprs))
	return int(mo.group(1)), ok


def k_classify(ctx, cases):
	import numpy as np
	from gambit.classify import classify, matching_taxon, find_matches
	from gambit.db import AnnotatedGenome, Genome
	prepared = []
	reqs = []
	for c in cases:
		paths = _paths(c['parents'])
		thr = c['thr']
		den = c.get('den', 16)
		o = c.get('opts') or {}
		if len(thr) != len(paths) or not c['genomes'] or not isinstance(den, int) or den < 1:
			raise ValueError('bad case')
		if any(t is not None and t < 0 for t in thr):
			raise ValueError('bad threshold')
		layout = o.get('layout') or ('f32' if c.get('f32') else 'f64')
		for t, d in c['genomes']:
			if not (0 <= t < len(paths)) or d < 0:
				raise ValueError('bad genome')
		dists = _dists_array([d / den for t, d in c['genomes']], layout)
		# the exact real numbers the implementation is given (float16/32/64 -> double conversion is exact)
		dv = [float(x) for x in dists]
		tv = [None if t is None else t / den for t in thr]
		glist = []
		matched = []
		for i, (t, d) in enumerate(c['genomes']):
			glist.append([[[a, None if thr[a] is None else [thr[a]]] for a in paths[t]], d])
			mt = None
			for a in reversed(paths[t]):
				if tv[a] is not None and dv[i] <= tv[a]:
					mt = a
					break
			if den == 16:
				mi = None
				for a in reversed(paths[t]):
					if thr[a] is not None and d <= thr[a]:
						mi = a
						break
				if mi != mt:
					raise RuntimeError('harness: sixteenths are not exact here')
			matched.append(mt)
		mset = sorted({m for m in matched if m is not None})
		prepared.append((paths, matched, mset, dists, dv, den, o, layout, len(reqs)))
		# the model works on integer sixteenths; other denominators are judged by the specification of the matched set
		# (computed above with exact comparisons) and the property predicate only
		reqs += [(1003, [paths[i] for i in mset])]
		if den == 16:
			reqs += [(1004, glist), (1007, glist)]
	ans = ctx.model(reqs) if ctx.model_ok else None
	for n, c in enumerate(cases):
		paths, matched, mset, dists, dv, den, o, layout, off = prepared[n]
		names = o.get('names')
		taxa = _taxa(c['parents'], c['thr'], den, names)
		index = {id(t): i for i, t in enumerate(taxa)}
		if o.get('alias'):
			# one AnnotatedGenome object per taxon, listed once for every reference entry of that taxon
			per = {}
			gs = []
			for i, (t, d) in enumerate(c['genomes']):
				if t not in per:
					per[t] = AnnotatedGenome(taxon=taxa[t], genome=Genome(key=f'g{i}', description=f'g{i}'))
				gs.append(per[t])
		else:
			gs = [AnnotatedGenome(taxon=taxa[t], genome=Genome(key=f'g{i}', description=f'g{i}'))
			      for i, (t, d) in enumerate(c['genomes'])]
		refs = tuple(gs) if o.get('refs') == 'tuple' else gs
		strict = {None: True, 'True': True, 'np': np.True_, 'one': 1}[o.get('strict')]
		ctx.case(c, nontrivial=len(mset) >= 2)
		if _three_level(paths, mset):
			ctx.count('shape:three-level-conflict')
		if o:
			for k_ in sorted(o):
				ctx.count(f'classify-opt:{k_}={o[k_] if k_ != "names" else "unusual"}')
		py = _py_spec(paths, mset)
		spec = py
		if ans is not None:
			spec = _dec_cons(ans[off])
			if spec != py:
				ctx.broke('extracted specification vs python oracle (classify)', f'case {c}: spec={spec} python={py}')
				continue
		cons, others = spec
		if names is not None and others:
			ctx.count('shape:unusual-names-in-a-warning')
		if den != 16 and len(mset) >= 2:
			ctx.count('shape:real-distances-two-or-more-matched-taxa')
		if den != 16 and any(tv_ is not None and x == tv_ for x in dv for tv_ in (None if t is None else t / den for t in c['thr'])):
			ctx.count('shape:real-distance-exactly-on-a-threshold')

		def bad(what, **kw):
			ctx.violation('classify', c, f'classify(strict=True) on parents={c["parents"]} thr/{den}={c["thr"]} '
			              f'genomes(taxon,{den}*d)={c["genomes"]}' + (f' options={ {k: v for k, v in o.items() if k != "names"} }' if o else '')
			              + ': ' + what, **kw)

		# -- each genome matches the most specific covering threshold-bearing taxon of its lineage
		ok = True
		sc = o.get('scalar')
		for i, (t, d) in enumerate(c['genomes']):
			x = dists[i]
			if sc == 'py':
				x = dv[i]
			elif sc == 'int' and d % den == 0:
				x = d // den
			r = matching_taxon(taxa[t], x)
			r = None if r is None else index[id(r)]
			if r != matched[i]:
				bad(f'matching_taxon(t{t}, {d}/{den} as {type(x).__name__}) = {r}, the most specific taxon of the lineage whose '
				    f'threshold covers the distance is {matched[i]}', impl=r, spec=matched[i])
				ok = False
				break
		if not ok:
			continue
		fmk = o.get('fm')
		if fmk == 'list':
			fm = find_matches([(g, x) for g, x in zip(gs, dists)])
		elif fmk == 'gen':
			fm = find_matches((g, x) for g, x in zip(gs, dv))
		else:
			fm = find_matches(zip(gs, dists))
		fm_i = {index[id(k)]: sorted(v) for k, v in fm.items()}
		fm_spec = {}
		for i, m in enumerate(matched):
			if m is not None:
				fm_spec.setdefault(m, []).append(i)
		if fm_i != fm_spec:
			bad(f'find_matches groups the genomes as {fm_i}, expected {fm_spec}', impl=fm_i, spec=fm_spec)
			continue

		try:
			r = classify(refs, dists, strict=strict)
			r_again = classify(refs, dists, strict=strict) if o.get('reuse') else None
		except Exception as e:  # noqa
			bad(f'raises {type(e).__name__}: {e}', impl=f'{type(e).__name__}')
			continue

		def observe(r):
			pred = None if r.predicted_taxon is None else index[id(r.predicted_taxon)]
			warned = None
			for w in r.warnings:
				if names is None:
					mo = _WARN.match(w)
					if mo:
						nm = [] if not mo.group(2) else mo.group(2).split(', ')
						warned = (int(mo.group(1)), sorted(int(x.split(':', 1)[1][1:]) for x in nm))
				else:
					# unusual names: the taxa are recognised by their short_repr() '<id>:<name>', in any arrangement
					wp = _warn_parse(w, [f'{i}:{names[i]}' for i in others])
					if wp is not None:
						warned = (wp[0], others if wp[1] else 'other taxa than ' + repr(others))
			pm = r.primary_match
			primary = None
			if pm is not None:
				pd = float(pm.distance)
				gi = [i for i, g in enumerate(gs) if g is pm.genome]
				pi = min(gi, key=lambda i: abs(dv[i] - pd))     # (one object listed several times: the entry it stands for)
				primary = (pi, pd * 16 if den == 16 else pd, None if pm.matched_taxon is None else index[id(pm.matched_taxon)])
			return pred, warned, primary

		pred, warned, primary = observe(r)
		dref = (lambda i: c['genomes'][i][1]) if den == 16 else (lambda i: dv[i])
		impl = dict(success=bool(r.success), predicted=pred, primary=primary, warned=warned, error=r.error)
		exp_success = not (mset and cons is None)
		cands = [] if cons is None else [i for i, m in enumerate(matched)
		                                 if m is not None and _is_prefix(paths[cons], paths[m])]
		exp_d = min((dref(i) for i in cands), default=None)
		specv = dict(success=exp_success, predicted=cons, others=others,
		             **{'primary_distance_x16' if den == 16 else 'primary_distance': exp_d})
		model = None
		if ans is not None and den == 16:
			m = ans[off + 1]
			if m[0] == 0:
				s_, p_, b_, o_ = m[1]
				model = dict(success=bool(s_), predicted=p_[0][-1] if p_ else None,
				             primary=(b_[0][0], float(b_[0][1]), b_[0][2][-1]) if b_ else None,
				             others=sorted({p[-1] for p in o_}))
			else:
				model = f'error {m[1]}'
		vals = dict(impl=impl, spec=specv, model=model)
		if pred != cons:
			bad(f'predicted taxon {pred}, the consensus of the matched taxa {mset} is {cons}', **vals)
		elif bool(r.success) != exp_success or (r.error is None) != exp_success:
			bad(f'success={r.success} error={r.error!r}, expected success={exp_success}', **vals)
		elif (warned is None) != (not others) or (warned is not None and (warned[1] != others or warned[0] != len(others))):
			bad(f'warning names {warned}, the matched taxa strictly below the prediction are {others}', **vals)
		elif (primary is None) != (cons is None):
			bad(f'primary match {primary} with prediction {cons}', **vals)
		elif primary is not None and den == 16 and (primary[0] not in cands or primary[1] != dref(primary[0])
		                                            or primary[1] != exp_d or primary[2] != matched[primary[0]]):
			bad(f'primary match (genome, 16*d, taxon) = {primary} is not a nearest genome among those matched at or below '
			    f'the prediction (genomes {cands}, least distance {exp_d}/16)', **vals)
		elif primary is not None and den != 16 and (primary[0] not in cands or dref(primary[0]) != exp_d
		                                            or abs(primary[1] - exp_d) > 1e-6 * max(1.0, exp_d)
		                                            or primary[2] != matched[primary[0]]):
			# arbitrary reals: the genome must be a nearest one by the distances handed over; the distance it is reported
			# with is only required to agree to float32 accuracy (the property does not fix its representation)
			bad(f'primary match (genome, {"16*" if den == 16 else ""}d, taxon) = {primary} is not a nearest genome among those matched at or below '
			    f'the prediction (genomes {cands}, least distance {exp_d}{"/16" if den == 16 else ""})', **vals)
		elif r_again is not None and (observe(r_again)[:2] != (pred, warned) or bool(r_again.success) != bool(r.success)
		                              or (observe(r_again)[2] or (0, None))[1] != (primary or (0, None))[1]):
			bad(f'a second classify call on the same reference list and distance array gives prediction/warning/primary distance '
			    f'{observe(r_again)} after {(pred, warned, primary)}', **vals)
		elif isinstance(model, dict) and not o.get('alias'):
			mi = dict(success=impl['success'], predicted=pred, primary=primary, others=[] if warned is None else warned[1])
			if mi != model:
				ctx.broke('correspondence classify (model of repaired strict classify vs implementation)',
				          f'case {c}: impl={mi} model={model}')
		elif model is not None and not isinstance(model, dict):
			ctx.broke('correspondence classify (model returned an error outcome)', f'case {c}: model={model}')


# ---------------------------------------------------------------------------------------------
# kind: cli  --  gambit -d DB query --strict -s QUERY -f archive -o OUT on a database built from the case

_scratch = [None, 0]


def _build_db(d, parents, thr, genomes):
	"""sqlite + HDF5 reference database whose reference genome i has Jaccard distance genomes[i][1]/16 to the
	query signature {0..15} (first 16-d k-mers of it; a disjoint k-mer for d = 16)"""
	import os
	import numpy as np
	from sqlalchemy import create_engine
	from sqlalchemy.orm import Session
	from gambit.db.models import Base, ReferenceGenomeSet, Taxon, Genome, AnnotatedGenome
	from gambit.sigs import SignatureList, SignaturesMeta, dump_signatures, AnnotatedSignatures
	from gambit.kmers import KmerSpec
	os.makedirs(d)
	eng = create_engine('sqlite:///' + os.path.join(d, 'db.gdb'))
	Base.metadata.create_all(eng)
	s = Session(eng)
	gset = ReferenceGenomeSet(key='verif/c10', version='1.0', name='c10')
	s.add(gset)
	taxa = []
	for i, p in enumerate(parents):
		taxa.append(Taxon(key=f'tk{i}', name=f't{i}', genome_set=gset, parent=taxa[p] if p >= 0 else None,
		                  distance_threshold=None if thr[i] is None else thr[i] / 16))
	s.add_all(taxa)
	for i, (t, dd) in enumerate(genomes):
		s.add(AnnotatedGenome(genome_set=gset, genome=Genome(key=f'g{i}', description=f'genome {i}'), taxon=taxa[t],
		                      organism=f'org{i}'))
	s.commit()
	s.close()
	eng.dispose()
	ks = KmerSpec(6, 'AT')
	sigs = [np.arange(16 - dd, dtype=np.uint16) if dd < 16 else np.array([1000 + i], dtype=np.uint16)
	        for i, (t, dd) in enumerate(genomes)]
	refs = AnnotatedSignatures(SignatureList(sigs, ks, dtype=np.uint16), [f'g{i}' for i in range(len(genomes))],
	                           SignaturesMeta(id='c10', id_attr='key'))
	dump_signatures(os.path.join(d, 'refs.gs'), refs, 'hdf5')
	q = AnnotatedSignatures(SignatureList([np.arange(16, dtype=np.uint16)], ks, dtype=np.uint16), ['q0'], SignaturesMeta(id='q'))
	dump_signatures(os.path.join(d, 'query.qs'), q, 'hdf5')


def k_cli(ctx, cases):
	import json
	import os
	import shutil
	from click.testing import CliRunner
	import gambit.cli
	from vf import impl as vimpl
	if _scratch[0] is None:
		_scratch[0] = vimpl.scratch_dir('gambit-verif-c10-')
	reqs = []
	prepared = []
	for c in cases:
		paths = _paths(c['parents'])
		thr = c['thr']
		if len(thr) != len(paths) or not c['genomes']:
			raise ValueError('bad case')
		matched = []
		for t, d in c['genomes']:
			if not (0 <= t < len(paths)) or not (0 <= d <= 16):
				raise ValueError('bad genome')
			mt = None
			for a in reversed(paths[t]):
				if thr[a] is not None and d <= thr[a]:
					mt = a
					break
			matched.append(mt)
		mset = sorted({m for m in matched if m is not None})
		prepared.append((paths, matched, mset))
		reqs.append((1003, [paths[i] for i in mset]))
	ans = ctx.model(reqs) if ctx.model_ok else None
	for n, c in enumerate(cases):
		paths, matched, mset = prepared[n]
		ctx.case(c, nontrivial=len(mset) >= 2)
		py = _py_spec(paths, mset)
		spec = py
		if ans is not None:
			spec = _dec_cons(ans[n])
			if spec != py:
				ctx.broke('extracted specification vs python oracle (cli)', f'case {c}: spec={spec} python={py}')
				continue
		cons, others = spec
		_scratch[1] += 1
		d = os.path.join(_scratch[0], f'db{_scratch[1]}')
		_build_db(d, c['parents'], c['thr'], c['genomes'])
		out = os.path.join(d, 'out.json')
		r = CliRunner().invoke(gambit.cli.cli, ['-d', d, 'query', '--strict', '-s', os.path.join(d, 'query.qs'),
		                                       '-f', 'archive', '-o', out])

		def bad(what, **kw):
			ctx.violation('cli', c, f'gambit query --strict -f archive on a database with parents={c["parents"]} thr/16={c["thr"]} '
			              f'reference genomes(taxon,16*d)={c["genomes"]}: ' + what, **kw)

		if r.exit_code != 0 or not os.path.exists(out):
			bad(f'exit code {r.exit_code}: {r.exception!r}', impl=str(r.exception))
			shutil.rmtree(d, ignore_errors=True)
			continue
		cr = json.load(open(out))['items'][0]['classifier_result']
		shutil.rmtree(d, ignore_errors=True)
		pred = None if cr['predicted_taxon'] is None else int(cr['predicted_taxon']['key'][2:])
		warned = None
		for w in cr['warnings']:
			mo = _WARN.match(w)
			if mo:
				names = [] if not mo.group(2) else mo.group(2).split(', ')
				warned = (int(mo.group(1)), sorted(int(x.split(':', 1)[1][1:]) for x in names))
		pm = cr['primary_match']
		primary = None if pm is None else (int(pm['genome']['key'][1:]), float(pm['distance']) * 16,
		                                   None if pm['matched_taxon'] is None else int(pm['matched_taxon']['key'][2:]))
		exp_success = not (mset and cons is None)
		cands = [] if cons is None else [i for i, m in enumerate(matched)
		                                 if m is not None and _is_prefix(paths[cons], paths[m])]
		exp_d = min((c['genomes'][i][1] for i in cands), default=None)
		vals = dict(impl=dict(success=cr['success'], predicted=pred, primary=primary, warned=warned, error=cr['error']),
		            spec=dict(success=exp_success, predicted=cons, others=others, primary_distance_x16=exp_d))
		if pred != cons:
			bad(f'predicted taxon {pred}, the consensus of the matched taxa {mset} is {cons}', **vals)
		elif bool(cr['success']) != exp_success or (cr['error'] is None) != exp_success:
			bad(f'success={cr["success"]} error={cr["error"]!r}, expected success={exp_success}', **vals)
		elif (warned is None) != (not others) or (warned is not None and (warned[1] != others or warned[0] != len(others))):
			bad(f'warning names {warned}, the matched taxa strictly below the prediction are {others}', **vals)
		elif (primary is None) != (cons is None):
			bad(f'primary match {primary} with prediction {cons}', **vals)
		elif primary is not None and (primary[0] not in cands or primary[1] != exp_d or primary[2] != matched[primary[0]]):
			bad(f'primary match (genome, 16*d, taxon) = {primary} is not a nearest genome among those matched at or below '
			    f'the prediction (genomes {cands}, least distance {exp_d}/16)', **vals)


# ---------------------------------------------------------------------------------------------
# kind: query  --  the public Python entry points that reach classify(strict=True) with database-loaded (persistent)
# ORM objects: ReferenceDatabase.load / load_from_dir + gambit.query.query(params=QueryParams(classify_strict=True) or
# classify_strict=True, chunksize=...), several queries in one call; then the command line on the same database with a
# query signature file holding all queries, or with FASTA files (positional / -l list file), -c, --no-progress.
# Distances are Jaccard distances 1 - min(m,n)/max(m,n) of nested k-mer sets (mostly NOT multiples of 1/16), so this
# kind is outside the integer model: it is judged by the specification of the matched set (python oracle, and the
# extracted specification on the set) and the property predicate only.

_QK, _QPREFIX = 5, 'ATGAC'      # k >= 5: a narrower k-mer index type (uint8) is not accepted by the distance kernel


def _q_universe():
	"""the 16 smallest 5-mers over {C,G}: with prefix ATGAC a contig 'ATGAC'+w holds exactly one prefix occurrence on either
	strand (w has no A/T, the reverse complement GTCAT of the prefix cannot occur); index = base-4 number, ACGT=0123"""
	ws = [''.join(w) for w in itertools.product('CG', repeat=_QK)]
	idx = {w: sum('ACGT'.index(ch) * 4 ** (_QK - 1 - i) for i, ch in enumerate(w)) for w in ws}
	ws.sort(key=lambda w: idx[w])
	ws = ws[:16]
	return ws, [idx[w] for w in ws]


def _build_qdb(d, c):
	import os
	import numpy as np
	from sqlalchemy import create_engine
	from sqlalchemy.orm import Session
	from gambit.db.models import Base, ReferenceGenomeSet, Taxon, Genome, AnnotatedGenome
	from gambit.sigs import SignatureList, SignaturesMeta, dump_signatures, AnnotatedSignatures
	from gambit.kmers import KmerSpec
	ws, U = _q_universe()
	os.makedirs(d)
	eng = create_engine('sqlite:///' + os.path.join(d, 'db.gdb'))
	Base.metadata.create_all(eng)
	s = Session(eng)
	gset = ReferenceGenomeSet(key='verif/c10q', version='1.0', name='c10q')
	s.add(gset)
	taxa = []
	for i, p in enumerate(c['parents']):
		taxa.append(Taxon(key=f'tk{i}', name=f't{i}', genome_set=gset, parent=taxa[p] if p >= 0 else None,
		                  distance_threshold=None if c['thr'][i] is None else c['thr'][i] / 16))
	s.add_all(taxa)
	for i, (t, m) in enumerate(c['refs']):
		s.add(AnnotatedGenome(genome_set=gset, genome=Genome(key=f'g{i}', description=f'genome {i}'), taxon=taxa[t],
		                      organism=f'org{i}'))
	s.commit()
	s.close()
	eng.dispose()
	ks = KmerSpec(_QK, _QPREFIX)
	dt = np.dtype(c.get('rdtype', 'u2'))
	sigs, ids = [], []
	for pos, r in enumerate(c['sigorder']):
		if r >= 0:
			sigs.append(np.array(U[:c['refs'][r][1]], dtype=dt))
			ids.append(f'g{r}')
		else:
			# a signature of no genome of the set; identical to the whole query universe (distance 0 to the largest query)
			sigs.append(np.array(U[:16 + r + 1] if r < -1 else U, dtype=dt))
			ids.append(f'x{pos}')
	refs = AnnotatedSignatures(SignatureList(sigs, ks, dtype=dt), ids, SignaturesMeta(id='c10q', id_attr='key'))
	dump_signatures(os.path.join(d, 'refs.gs'), refs, 'hdf5')
	return ks, ws, U


def _q_judge(bad, where, paths, matched, mset, cons, others, dex, obs):
	"""the property predicate on one observed result: obs = dict(success, error, pred, warned, primary=(genome, d, taxon))"""
	exp_success = not (mset and cons is None)
	cands = [] if cons is None else [i for i, m in enumerate(matched) if m is not None and _is_prefix(paths[cons], paths[m])]
	exp_d = min((dex[i] for i in cands), default=None)
	vals = dict(impl=obs, spec=dict(success=exp_success, predicted=cons, others=others,
	                                primary_distance=None if exp_d is None else str(exp_d)))
	pred, warned, primary = obs['pred'], obs['warned'], obs['primary']
	if pred != cons:
		bad(f'{where}: predicted taxon {pred}, the consensus of the matched taxa {mset} is {cons}', **vals)
	elif bool(obs['success']) != exp_success or (obs['error'] is None) != exp_success:
		bad(f'{where}: success={obs["success"]} error={obs["error"]!r}, expected success={exp_success}', **vals)
	elif (warned is None) != (not others) or (warned is not None and (warned[1] != others or warned[0] != len(others))):
		bad(f'{where}: warning names {warned}, the matched taxa strictly below the prediction are {others}', **vals)
	elif (primary is None) != (cons is None):
		bad(f'{where}: primary match {primary} with prediction {cons}', **vals)
	elif primary is not None and (primary[0] not in cands or dex[primary[0]] != exp_d or abs(primary[1] - float(exp_d)) > 1e-6
	                              or primary[2] != matched[primary[0]]):
		bad(f'{where}: primary match (genome, d, taxon) = {primary} is not a nearest genome among those matched at or below '
		    f'the prediction (genomes {cands}, least distance {exp_d})', **vals)
	else:
		return True
	return False


def _q_warned(warnings):
	warned = None
	for w in warnings:
		mo = _WARN.match(w)
		if mo:
			nm = [] if not mo.group(2) else mo.group(2).split(', ')
			warned = (int(mo.group(1)), sorted(int(x.split(':', 1)[1][1:]) for x in nm))
	return warned


def k_query(ctx, cases):
	import json
	import os
	import shutil
	from fractions import Fraction
	import numpy as np
	from click.testing import CliRunner
	import gambit.cli
	from gambit.db import ReferenceDatabase
	from gambit.query import query, QueryParams
	from gambit.sigs import SignatureList, SignatureArray, SignaturesMeta, AnnotatedSignatures, dump_signatures
	from vf import impl as vimpl
	if _scratch[0] is None:
		_scratch[0] = vimpl.scratch_dir('gambit-verif-c10-')
	for c in cases:
		paths = _paths(c['parents'])
		thr = c['thr']
		nref = len(c['refs'])
		if len(thr) != len(paths) or not c['refs'] or not c['queries']:
			raise ValueError('bad case')
		if sorted(r for r in c['sigorder'] if r >= 0) != list(range(nref)):
			raise ValueError('bad signature order')
		if any(not (0 <= t < len(paths)) or not (1 <= m <= 16) for t, m in c['refs']) or any(not (1 <= q <= 16) for q in c['queries']):
			raise ValueError('bad sizes')
		# expected per query, exact rationals
		exp = []
		nontrivial = False
		for q in c['queries']:
			dex = [1 - Fraction(min(m, q), max(m, q)) for t, m in c['refs']]
			matched = []
			for (t, m), d in zip(c['refs'], dex):
				mt = None
				for a in reversed(paths[t]):
					if thr[a] is not None and d <= Fraction(thr[a], 16):
						mt = a
						break
				matched.append(mt)
			mset = sorted({m for m in matched if m is not None})
			cons, others = _py_spec(paths, mset)
			exp.append((dex, matched, mset, cons, others))
			if others:
				ctx.count('shape:query-with-conflict-warning')
			if any(d.denominator not in (1, 2, 4, 8, 16) for d in dex):
				ctx.count('shape:query-with-non-dyadic-distances')
			nontrivial = nontrivial or len(mset) >= 2
			if _three_level(paths, mset):
				ctx.count('shape:three-level-conflict')
		if ctx.model_ok:
			ans = ctx.model([(1003, [paths[i] for i in e[2]]) for e in exp])
			for e, a in zip(exp, ans):
				if _dec_cons(a) != (e[3], e[4]):
					ctx.broke('extracted specification vs python oracle (query)', f'case {c}: spec={_dec_cons(a)} python={(e[3], e[4])}')
		ctx.case(c, nontrivial=nontrivial)
		_scratch[1] += 1
		d = os.path.join(_scratch[0], f'qdb{_scratch[1]}')
		ks, ws, U = _build_qdb(d, c)
		api = c.get('api') or {}
		cli = c.get('cli') or {}

		def bad(what, **kw):
			ctx.violation('query', c, f'database with parents={c["parents"]} thr/16={c["thr"]} reference genomes (taxon, number of '
			              f'k-mers)={c["refs"]}, signature file order {c["sigorder"]}, queries with {c["queries"]} k-mers (nested sets, '
			              f'distance 1-min/max): ' + what, **kw)

		try:
			# ---- Python API
			qdt = np.dtype(api.get('qdtype', 'u2'))
			qs = [np.array(U[:q], dtype=qdt) for q in c['queries']]
			qc = api.get('qcontainer', 'list')
			if qc == 'siglist':
				qs = SignatureList(qs, ks, dtype=qdt)
			elif qc == 'sigarray':
				qs = SignatureArray(qs, ks, dtype=qdt)
			elif qc == 'tuple':
				qs = tuple(qs)
			if api.get('load') == 'dir':
				db = ReferenceDatabase.load_from_dir(d)
			else:
				db = ReferenceDatabase.load(os.path.join(d, 'db.gdb'), os.path.join(d, 'refs.gs'))
			try:
				chunk = api.get('chunksize', 1000)
				if api.get('form') == 'kw':
					res = query(db, qs, classify_strict=True, chunksize=chunk)
				elif api.get('form') == 'positional':
					res = query(db, qs, QueryParams(True, chunk))
				else:
					res = query(db, qs, QueryParams(classify_strict=True, chunksize=chunk), inputs=[f'q{j}' for j in range(len(c['queries']))])
				ctx.count('stream-part:query-api', len(res.items))
				okall = len(res.items) == len(c['queries'])
				if not okall:
					bad(f'gambit.query.query returns {len(res.items)} items for {len(c["queries"])} queries')
				for j, item in enumerate(res.items if okall else []):
					r = item.classifier_result
					pm = r.primary_match
					obs = dict(success=bool(r.success), error=r.error,
					           pred=None if r.predicted_taxon is None else int(r.predicted_taxon.key[2:]),
					           warned=_q_warned(r.warnings),
					           primary=None if pm is None else (int(pm.genome.key[1:]), float(pm.distance),
					                                            None if pm.matched_taxon is None else int(pm.matched_taxon.key[2:])))
					dex, matched, mset, cons, others = exp[j]
					if not _q_judge(bad, f'gambit.query.query({api}) item {j} (query with {c["queries"][j]} k-mers)', paths, matched, mset,
					                cons, others, dex, obs):
						okall = False
						break
			finally:
				db.session.close()
				try:
					db.session.get_bind().dispose()
				except Exception:  # noqa
					pass
				if hasattr(db.signatures, 'close'):
					db.signatures.close()
			# ---- command line on the same database
			if okall and cli.get('input'):
				args = ['-d', d, 'query', '--strict']
				if cli['input'] == 'sig':
					sigf = os.path.join(d, 'query.qs')
					dump_signatures(sigf, AnnotatedSignatures(SignatureList([np.array(U[:q], dtype=np.uint16) for q in c['queries']], ks,
					                                                        dtype=np.uint16),
					                                          [f'q{j}' for j in range(len(c['queries']))], SignaturesMeta(id='q')), 'hdf5')
					args += ['-s', sigf]
				else:
					files = []
					rs = __import__('random').Random(len(c['refs']) * 131 + sum(c['queries']))
					for j, q in enumerate(c['queries']):
						fn = os.path.join(d, f'q{j}.fa')
						order = list(range(q))
						rs.shuffle(order)
						with open(fn, 'w') as f:
							for n_, i in enumerate(order):
								seq = _QPREFIX + ws[i]
								f.write(f'>contig{n_} k-mer {i}\n{seq.lower() if (i + j) % 5 == 0 else seq}\n')
						files.append(fn)
					if cli['input'] == 'fasta':
						tail = files
					else:
						lf = os.path.join(d, 'list.txt')
						with open(lf, 'w') as f:
							f.write(''.join(os.path.basename(x) + '\n' for x in files))
						tail = ['-l', lf, '--ldir', d]
				out = os.path.join(d, 'out.json')
				args += ['-f', 'archive', '-o', out]
				if cli.get('cores'):
					args += ['-c', str(cli['cores'])]
				if cli.get('noprogress'):
					args += ['--no-progress']
				if cli['input'] != 'sig':
					args += tail
				r = CliRunner().invoke(gambit.cli.cli, args)
				ctx.count('stream-part:query-cli-' + cli['input'], len(c['queries']))
				if r.exit_code != 0 or not os.path.exists(out):
					bad(f'gambit {" ".join(args[2:])}: exit code {r.exit_code}: {r.exception!r}', impl=str(r.exception))
				else:
					items = json.load(open(out))['items']
					if len(items) != len(c['queries']):
						bad(f'gambit {" ".join(args[2:])}: {len(items)} items for {len(c["queries"])} queries')
						items = []
					for j, it in enumerate(items):
						cr = it['classifier_result']
						pm = cr['primary_match']
						obs = dict(success=cr['success'], error=cr['error'],
						           pred=None if cr['predicted_taxon'] is None else int(cr['predicted_taxon']['key'][2:]),
						           warned=_q_warned(cr['warnings']),
						           primary=None if pm is None else (int(pm['genome']['key'][1:]), float(pm['distance']),
						                                            None if pm['matched_taxon'] is None else int(pm['matched_taxon']['key'][2:])))
						dex, matched, mset, cons, others = exp[j]
						if not _q_judge(bad, f'gambit query --strict -f archive ({cli}) item {j} (query with {c["queries"][j]} k-mers)',
						                paths, matched, mset, cons, others, dex, obs):
							break
		finally:
			shutil.rmtree(d, ignore_errors=True)


KINDS = {'consensus': k_consensus, 'classify': k_classify, 'cli': k_cli, 'query': k_query}
# 'query' has no Coq model behind it (see its header): it is not listed as a model/implementation correspondence
CORRESPONDENCES = ['classify', 'cli', 'consensus']


# ---------------------------------------------------------------------------------------------
# generators

def _forests(n):
	"""all parent tables with parent index < own index (-1 = root): every forest shape with n taxa"""
	return itertools.product(*[range(-1, i) for i in range(n)])


def _rand_forest(rng, n):
	style = rng.random()
	parents = []
	for i in range(n):
		if i == 0 or rng.random() < (0.15 if style < 0.7 else 0.03):
			parents.append(-1)
		elif style < 0.35:
			parents.append(rng.randrange(max(0, i - 2), i))   # deep
		else:
			parents.append(rng.randrange(i))
	return parents


def _rand_thr(rng, parents):
	"""thresholds in sixteenths; mostly decreasing towards the leaves (as in real databases), sometimes not"""
	thr = []
	mode = rng.random()
	for i, p in enumerate(parents):
		if rng.random() < 0.25:
			thr.append(None)
		elif mode < 0.7:
			up = 16
			q = p
			while q >= 0:
				if thr[q] is not None:
					up = thr[q]
					break
				q = parents[q]
			thr.append(rng.randint(max(0, up - 5), up))
		else:
			thr.append(rng.randint(0, 16))
	return thr


def _three_level_forest(a, b, j, c):
	"""chain 0..a-1 from a root down to X = a-1; a chain of b taxa below X ending in Y; a chain of c taxa hanging off
	node j <= a-2 ending in Z (so Z is incomparable with X, their lowest common ancestor is j).  a >= 2."""
	parents = [-1] + list(range(a - 1))
	x = a - 1
	p = x
	for _ in range(b):
		parents.append(p)
		p = len(parents) - 1
	y = p
	p = j
	for _ in range(c):
		parents.append(p)
		p = len(parents) - 1
	return parents, x, y, p


def _structured_orders(rng, paths, sel):
	"""orders that are adversarial for a single left-to-right scan"""
	asc = sorted(sel)                                   # parents before children (parent index < own index)
	by_depth = sorted(sel, key=lambda i: (len(paths[i]), i))
	by_tree = sorted(sel, key=lambda i: paths[i])      # depth-first: every lineage contiguous
	half = len(asc) // 2
	inter = [x for pr in zip(asc[:half], asc[::-1][:half]) for x in pr] + asc[half:len(asc) - half]
	rot = asc[half:] + asc[:half]
	return [asc, asc[::-1], by_depth, by_depth[::-1], by_tree, by_tree[::-1], inter, rot]


_ODD_NAMES = ['a, b', '1:x', '', 'Escherichia coli', 'coli, Escherichia', 'é字', 't1', 't1', '. Reporting lowest common ancestor of this set.',
              'x\ny', 'None', ', ', ':', 'Query matched 2 inconsistent taxa: 0:t0, 1:t1', ' lead', 'trail ']


def _rand_opts(rng, genomes, den):
	o = {}
	if rng.random() < 0.8:
		o['layout'] = rng.choice(_LAYOUTS)
	if rng.random() < 0.3:
		o['refs'] = 'tuple'
	if rng.random() < 0.3:
		o['strict'] = rng.choice(['np', 'one'])
	if rng.random() < 0.4:
		o['scalar'] = rng.choice(['py', 'int'])
	if rng.random() < 0.4:
		o['fm'] = rng.choice(['list', 'gen'])
	if rng.random() < 0.25:
		o['alias'] = True
	if rng.random() < 0.4:
		o['reuse'] = True
	return o


def generate(ctx):
	rng = ctx.rng
	ctx.rule(RULE)
	nmax = ctx.pick(5, 6)
	kmax = 4
	# ---- exhaustive: all orders of all matched sets of size <= 4 over all forests with <= nmax taxa
	for n in range(1, nmax + 1):
		for parents in _forests(n):
			parents = list(parents)
			for k in range(0, min(kmax, n) + 1):
				for order in itertools.permutations(range(n), k):
					ctx.count('stream:exhaustive-consensus')
					yield 'consensus', dict(parents=parents, order=list(order))
	ctx.exhaustive = True
	ctx.extra['exhaustive_scope'] = (f'consensus_taxon: every forest with <= {nmax} taxa (parent tables with parent index < own '
	                                 f'index) x every sequence of <= {kmax} distinct matched taxa (all sets, all orders)')
	# ---- malformed / outside dict.keys(): sequences with repeated taxa (consensus_taxon accepts any iterable)
	for n in range(2, 5):
		for parents in _forests(n):
			for order in itertools.product(range(n), repeat=3):
				if len(set(order)) < 3:
					ctx.count('stream:malformed-repetitions')
					yield 'consensus', dict(parents=list(parents), order=list(order))
	# ---- random larger forests, several orders of the same multiset
	for _ in range(ctx.pick(4000, 20000)):
		n = rng.randint(5, 14)
		parents = _rand_forest(rng, n)
		k = rng.randint(2, 9)
		if rng.random() < 0.8:
			sel = rng.sample(range(n), min(k, n))
		else:
			sel = [rng.randrange(n) for _ in range(k)]
		for _ in range(4):
			rng.shuffle(sel)
			ctx.count('stream:random-consensus')
			yield 'consensus', dict(parents=parents, order=list(sel))
	# ---- classify: small forests, random thresholds, all orders of <= 4 reference genomes
	nc = ctx.pick(4, 5)
	reps = ctx.pick(3, 5)
	for n in range(1, nc + 1):
		for parents in _forests(n):
			parents = list(parents)
			for _ in range(reps):
				thr = _rand_thr(rng, parents)
				g = rng.randint(1, 4)
				genomes = [[rng.randrange(n), rng.randint(0, 17)] for _ in range(g)]
				f32 = rng.random() < 0.5
				for perm in itertools.permutations(genomes):
					ctx.count('stream:classify-all-reference-orders')
					yield 'classify', dict(parents=parents, thr=thr, genomes=[list(x) for x in perm], f32=f32)
	# ---- classify: the three-level conflict {species, its subspecies, a sibling species} under a genus, every
	#      assignment of matching / non-matching distances, all reference orders
	parents = [-1, 0, 0, 1]
	thr = [None, 8, 8, 4]
	for ds in itertools.product([3, 6, 12], repeat=3):
		genomes = [[1, ds[0]], [2, ds[1]], [3, ds[2]]]
		for perm in itertools.permutations(genomes):
			ctx.count('stream:classify-three-level')
			yield 'classify', dict(parents=parents, thr=thr, genomes=[list(x) for x in perm], f32=False)
	# ---- classify: random larger
	for _ in range(ctx.pick(1500, 8000)):
		n = rng.randint(3, 12)
		parents = _rand_forest(rng, n)
		thr = _rand_thr(rng, parents)
		g = rng.randint(1, 14)
		genomes = [[rng.randrange(n), rng.randint(0, 17)] for _ in range(g)]
		f32 = rng.random() < 0.5
		for _ in range(3):
			rng.shuffle(genomes)
			ctx.count('stream:random-classify')
			yield 'classify', dict(parents=parents, thr=thr, genomes=[list(x) for x in genomes], f32=f32)
	# ---- command line: gambit query --strict -f archive on databases built from the case
	parents = [-1, 0, 0, 1]
	thr = [None, 8, 8, 4]
	for perm in itertools.permutations([[1, 6], [2, 6], [3, 3]]):
		ctx.count('stream:cli-three-level')
		yield 'cli', dict(parents=parents, thr=thr, genomes=[list(x) for x in perm])
	for perm in itertools.permutations([[1, 5], [2, 6], [3, 7]]):
		ctx.count('stream:cli-three-siblings')
		yield 'cli', dict(parents=[-1, 0, 0, 0], thr=[None, 8, 8, 8], genomes=[list(x) for x in perm])
	for _ in range(ctx.pick(25, 250)):
		n = rng.randint(2, 8)
		parents = _rand_forest(rng, n)
		thr = _rand_thr(rng, parents)
		genomes = [[rng.randrange(n), rng.randint(0, 16)] for _ in range(rng.randint(1, 8))]
		for _ in range(2):
			rng.shuffle(genomes)
			ctx.count('stream:cli-random')
			yield 'cli', dict(parents=parents, thr=thr, genomes=[list(x) for x in genomes])
	# =============================================================================================
	# streams added by the coverage audit (see the table in the module docstring)
	# ---- consensus_taxon handed other iterables than a list (it is documented for any iterable; classify passes
	#      dict.keys()): tuple, set, frozenset, dict view, dict, generator, one-shot iterator; empty, single, repeated
	for _ in range(ctx.pick(130, 1200)):
		n = rng.randint(1, 10)
		parents = _rand_forest(rng, n)
		k = rng.choice([0, 1, 1, 2, 3, 3, 4, 5, 6])
		sel = [rng.randrange(n) for _ in range(k)] if rng.random() < 0.3 else rng.sample(range(n), min(k, n))
		for kind in _CONTAINERS[1:]:
			ctx.count('stream:consensus-containers')
			yield 'consensus', dict(parents=parents, order=list(sel), container=kind)
	# ---- structured orders of larger matched sets: ancestors first, descendants first, by depth, lineage by lineage,
	#      interleaved from both ends, rotated
	for _ in range(ctx.pick(260, 2500)):
		n = rng.randint(6, 18)
		parents = _rand_forest(rng, n)
		paths = _paths(parents)
		sel = rng.sample(range(n), rng.randint(3, min(n, 11)))
		for order in _structured_orders(rng, paths, sel):
			ctx.count('stream:consensus-structured-orders')
			yield 'consensus', dict(parents=parents, order=order)
	# ---- size classes: large forests (deep chains with side branches, wide stars, random), large matched sets
	for _ in range(ctx.pick(120, 1200)):
		style = rng.randrange(3)
		n = rng.randint(30, 120)
		if style == 0:      # a deep spine with short side branches
			parents = [-1]
			spine = 0
			for i in range(1, n):
				if rng.random() < 0.6:
					parents.append(spine)
					spine = i
				else:
					parents.append(rng.choice([spine, max(0, spine - 1), rng.randrange(i)]))
		elif style == 1:    # wide: a few genera with many species, some subspecies
			parents = [-1] + [rng.choice([0, 0, -1]) for _ in range(4)]
			for i in range(5, n):
				parents.append(rng.randrange(5) if rng.random() < 0.7 else rng.randrange(5, i) if i > 5 else 0)
		else:
			parents = _rand_forest(rng, n)
		k = rng.randint(10, 40)
		sel = rng.sample(range(n), min(k, n)) if rng.random() < 0.8 else [rng.randrange(n) for _ in range(k)]
		paths = _paths(parents)
		orders = [list(sel), sorted(sel), sorted(sel, reverse=True), sorted(sel, key=lambda i: (-len(paths[i]), i))]
		rng.shuffle(orders[0])
		for order in orders:
			ctx.count('stream:consensus-large')
			yield 'consensus', dict(parents=parents, order=order)
	# ---- three-level conflicts in general position: {X, a strict descendant Y any number of levels below, Z incomparable
	#      with X branching off any ancestor of X at any depth}, optionally with the consensus itself, a higher ancestor,
	#      a second branch below X, a taxon of another tree; every order (5 members: 24 sampled orders)
	shapes = [(a, b, j, c) for a in (2, 3) for b in (1, 2) for j in range(a - 1) for c in (1, 2)]
	for _ in range(ctx.pick(16, 300)):
		a = rng.randint(2, 6)
		shapes.append((a, rng.randint(1, 4), rng.randrange(a - 1), rng.randint(1, 4)))
	tl = []
	for a, b, j, c in shapes:
		parents, x, y, z = _three_level_forest(a, b, j, c)
		extras = [j]                                   # the expected consensus, matched directly
		if j > 0:
			extras.append(rng.randrange(j))            # an ancestor of the consensus
		parents = parents + [x, -1]                    # W: a second branch below X; V: another tree
		extras += [len(parents) - 2, len(parents) - 1]
		tl.append((parents, x, y, z, extras))
		for ne in (0, 1, 2):
			for ex in itertools.combinations(extras, ne):
				members = [x, y, z] + list(ex)
				perms = list(itertools.permutations(members))
				if len(perms) > 24:
					perms = rng.sample(perms, 24)
				for order in perms:
					ctx.count('stream:consensus-three-level-general')
					yield 'consensus', dict(parents=parents, order=list(order))
	# ---- the same shapes through classify: thresholds that make exactly the chosen taxa match, genomes assigned to the
	#      matched taxon or to a threshold-less / tighter taxon below it, extra unmatched (sometimes nearest) genomes
	for parents, x, y, z, extras in tl:
		n = len(parents)
		for _ in range(ctx.pick(2, 6)):
			ex = rng.sample(extras, rng.choice([0, 0, 1, 1, 2]))
			members = [x, y, z] + ex
			thr = [None] * n
			paths = _paths(parents)
			# thresholds grow towards the roots; members get 4 + 2*(height above the deepest level), capped
			depth = max(len(q) for q in paths)
			for m in members:
				thr[m] = min(15, 3 + 2 * (depth - len(paths[m])))
			genomes = []
			for m in members:
				d = rng.randint(max(0, thr[m] - 1), thr[m])
				below = [i for i in range(n) if i != m and _is_prefix(paths[m], paths[i])
				         and all(thr[q] is None or thr[q] < d for q in paths[i][len(paths[m]):])]
				genomes.append([rng.choice(below) if below and rng.random() < 0.4 else m, d])
			for _ in range(rng.choice([0, 0, 1, 2])):
				genomes.append([rng.randrange(n), 17 if rng.random() < 0.5 else 16])
			if rng.random() < 0.3:
				# a nearest genome that matches nothing: assigned to a taxon without thresholds on its lineage
				free = [i for i in range(n) if all(thr[q] is None for q in paths[i])]
				if free:
					genomes.append([rng.choice(free), 0])
			perms = list(itertools.permutations(genomes)) if len(genomes) <= 4 else [rng.sample(genomes, len(genomes)) for _ in range(12)]
			f32 = rng.random() < 0.5
			for perm in perms:
				ctx.count('stream:classify-three-level-general')
				yield 'classify', dict(parents=parents, thr=thr, genomes=[list(g) for g in perm], f32=f32)
	# ---- classify / matching_taxon / find_matches call forms: distance array dtype (float16/32/64, byte-swapped), non-contiguous
	#      views with decoy cells, read-only; reference genomes as a tuple; strict=np.True_ / 1; distance scalars as Python
	#      float / int; find_matches fed a list / a generator; one AnnotatedGenome object listed several times; the same
	#      reference list and array used for a second call
	for _ in range(ctx.pick(700, 6000)):
		n = rng.randint(1, 9)
		parents = _rand_forest(rng, n)
		thr = _rand_thr(rng, parents)
		g = rng.randint(1, 8)
		genomes = [[rng.randrange(n), rng.choice([0, 16, 16, 17]) if rng.random() < 0.2 else rng.randint(0, 17)] for _ in range(g)]
		for _ in range(2):
			rng.shuffle(genomes)
			ctx.count('stream:classify-call-forms')
			yield 'classify', dict(parents=parents, thr=thr, genomes=[list(x) for x in genomes], opts=_rand_opts(rng, genomes, 16))
	# ---- unusual taxon names in the warning (commas, colons, empty, repeated, non-ASCII, a line break, the warning's own
	#      wording): recognised by short_repr() '<id>:<name>' in any arrangement
	for _ in range(ctx.pick(300, 3000)):
		n = rng.randint(3, 8)
		parents = _rand_forest(rng, n)
		if rng.random() < 0.5:
			parents = [-1] + [rng.choice([0, 0, max(0, i - 1)]) for i in range(1, n)]     # one tree: conflicts are frequent
		thr = [rng.choice([None, 8, 10, 12]) if i else rng.choice([None, 14]) for i in range(n)]
		names = [rng.choice(_ODD_NAMES) for _ in range(n)]
		genomes = [[rng.randrange(n), rng.randint(0, 12)] for _ in range(rng.randint(2, 6))]
		ctx.count('stream:classify-unusual-names')
		yield 'classify', dict(parents=parents, thr=thr, genomes=genomes, opts=dict(names=names, layout=rng.choice(['f64', 'f32'])))
	# ---- distances and thresholds that are not multiples of 1/16 (thirds, sevenths, tenths, hundredths ...), as float64
	#      and as rounded float32 / float16 arrays: the integer model does not apply, the matched set is computed with
	#      exact comparisons of the very numbers handed over
	for _ in range(ctx.pick(700, 6000)):
		n = rng.randint(1, 9)
		parents = _rand_forest(rng, n)
		den = rng.choice([3, 7, 10, 12, 13, 100, 1000])
		thr16 = _rand_thr(rng, parents)
		thr = [None if t is None else min(den, round(t * den / 16)) for t in thr16]
		g = rng.randint(1, 8)
		tvals = [t for t in thr if t is not None] or [den // 2]
		genomes = []
		for _ in range(g):
			# often exactly on, or one step beside, a threshold
			d = rng.choice(tvals) + rng.choice([-1, 0, 0, 1]) if rng.random() < 0.6 else rng.randint(0, den + 1)
			genomes.append([rng.randrange(n), max(0, d)])
		o = _rand_opts(rng, genomes, den)
		o['layout'] = rng.choice(_LAYOUTS)
		for _ in range(2):
			rng.shuffle(genomes)
			ctx.count('stream:classify-real-distances')
			yield 'classify', dict(parents=parents, thr=thr, genomes=[list(x) for x in genomes], den=den, opts=dict(o))
	# ---- size class: many reference genomes (up to 300, thorough 1000) on larger forests
	for _ in range(ctx.pick(30, 400)):
		n = rng.randint(10, 60)
		parents = _rand_forest(rng, n)
		thr = _rand_thr(rng, parents)
		g = rng.randint(50, ctx.pick(300, 1000))
		lo = rng.choice([0, 0, 4, 8])
		genomes = [[rng.randrange(n), rng.randint(lo, 17)] for _ in range(g)]
		for _ in range(3):
			rng.shuffle(genomes)
			ctx.count('stream:classify-large')
			yield 'classify', dict(parents=parents, thr=thr, genomes=[list(x) for x in genomes], f32=rng.random() < 0.5)
	# ---- database-loaded objects through gambit.query.query (+ the command line with several queries, FASTA input,
	#      -l/--ldir, -c, --no-progress), signature file order different from the genome order, unrelated signatures
	def qcase(parents, thr, refs, queries, full):
		nref = len(refs)
		sigorder = list(range(nref))
		if rng.random() < 0.7:
			rng.shuffle(sigorder)
		for _ in range(rng.choice([0, 0, 1, 2])):
			sigorder.insert(rng.randint(0, len(sigorder)), -rng.randint(1, 3))
		api = dict(form=rng.choice(['params', 'kw', 'positional']), chunksize=rng.choice([None, 1, 2, 3, 1000]),
		           qcontainer=rng.choice(['list', 'tuple', 'siglist', 'sigarray']), load=rng.choice(['files', 'dir']),
		           qdtype=rng.choice(['u2', 'u4', 'u8']))
		cli = {}
		if full:
			cli = dict(input=rng.choice(['sig', 'sig', 'fasta', 'fasta-list']))
			if rng.random() < 0.5:
				cli['cores'] = rng.choice([1, 2])
			if rng.random() < 0.5:
				cli['noprogress'] = True
		return dict(parents=parents, thr=thr, refs=refs, queries=queries, sigorder=sigorder, rdtype=rng.choice(['u2', 'u4', 'u8']),
		            api=api, cli=cli)

	nq = ctx.pick(36, 400)
	for it in range(nq):
		if it % 4 == 0:
			# the three-level conflict {species, subspecies, sibling species} under a genus (+ another tree)
			parents, x, y, z = _three_level_forest(rng.randint(2, 3), rng.randint(1, 2), 0, rng.randint(1, 2))
			parents = parents + [-1]
			n = len(parents)
			thr = [None] * n
			thr[x], thr[y], thr[z] = 8, rng.choice([4, 6]), 8
			thr[0] = rng.choice([None, 12])
			thr[n - 1] = rng.choice([None, 8])
			refs = [[x, rng.randint(7, 16)], [y, rng.randint(9, 16)], [z, rng.randint(7, 16)]]
			refs += [[rng.randrange(n), rng.randint(1, 16)] for _ in range(rng.randint(0, 3))]
			rng.shuffle(refs)
		else:
			n = rng.randint(2, 8)
			parents = _rand_forest(rng, n)
			thr = _rand_thr(rng, parents)
			refs = [[rng.randrange(n), rng.randint(1, 16)] for _ in range(rng.randint(1, 9))]
		queries = [rng.randint(1, 16) for _ in range(rng.randint(1, 5))]
		if rng.random() < 0.5:
			queries[0] = 16
		ctx.count('stream:query-api-and-cli')
		yield 'query', qcase(parents, thr, refs, queries, it % 2 == 0)
