"""C07 -- k-mer/index conversion is the base-4 bijection, consistent with revcomp.

Tie: T (Gen/KmersPyx.v regenerated from kmers.pyx) + B (this file): the compiled
extension, the generated model and the extracted specification are run on the same
inputs.  The specification determines the output, so `impl != spec` is a violation
with the input as replay; `impl == spec != model` is a broken correspondence.

Coverage table of the audit (item of the property text -> kind:stream that drives the IMPLEMENTATION and the
predicate checked there; "audit:" = added by the coverage audit, the rest existed before):

  item                                                 driven by (kind: stream)                  predicate checked on the implementation
  base-4 code, first nucleotide most significant       enc: exhaustive-kmers, random             == Coq spec_encode
  inverse, dec -> enc                                  dec: all indices k<=6, boundary, random   kmer_to_index(index_to_kmer(i,k)) == i
  inverse, enc -> dec                                  only through the spec                     audit: enc, index_to_kmer(kmer_to_index(b),k) == upper(b), same
                                                                                                 for the rc index, on every enc case
  case ignored                                         enc: first letter lower, random mixed     == spec; audit: enc(b) == enc(upper/lower/swapcase b) directly;
                                                                                                 allcase-kmers (all 8^k patterns k<=4), lower-and-alternating k<=6
  other byte / longer than 32 rejected                 enc: bytes<=2, random, lengths <=40       error iff spec rejects; audit: long (enc-long, 33..70000 bytes
                                                                                                 of pure nucleotides), forms/text (non-ASCII str, Seq of bytes)
  revcomp: involution, case kept, others mirrored      rc: k-mers k<=6, bytes<=2, random <=80    == spec_revcomp, rc(rc(b)) == b; audit: k=7 (8 thorough), long
                                                                                                 (rc-long, 81..2^17+1 bytes; beyond 4096 bytes by the predicate
                                                                                                 alone: the extracted functions are quadratic there); round 9:
                                                                                                 long (rc-ladder: every length m * 2^p, m = 1..9, p = 6..22 [24
                                                                                                 thorough], m * 10^d, each -1 / +1, random lengths and random
                                                                                                 block multiples up to 4 MiB -- length kept, every byte in its
                                                                                                 mirrored position == _py_rc, twice == input; bytes, bytearray,
                                                                                                 memoryview through gambit.seq / gambit.kmers / _cython.kmers)
  index of revcomp == kmer_to_index_rc                 only through the spec                     audit: enc, kmer_to_index_rc(b) == kmer_to_index(revcomp(b))
  all k-mers k<=8                                      enc: k<=7 quick, 8 thorough only          audit: k=8 (upper case) also in the quick tier
  all byte strings of length<=2                        enc, rc                                   as above; audit: now also through gambit.kmers.kmer_to_index_rc
  boundary k-mers every k<=32; random; index<2^64      enc, dec, rc                              as above; audit: the same boundaries through forms / decforms
  gambit.kmers.kmer_to_index (bytes, bytearray)        enc                                       == extension
  gambit.kmers.kmer_to_index_rc                        NOT called before                         audit: enc (bytes, bytearray == extension), forms, text, long
  gambit.kmers.index_to_kmer: int, uint64, own dtype   dec                                       == extension
  gambit.seq.revcomp (bytes)                           rc                                        as above
  gambit.kmers.revcomp, _cython.kmers.revcomp          NOT called before                         audit: forms, long (same predicate under every public name)
  str / Seq(str) / Seq(bytes) / bytes subclass,        NOT driven before                         audit: forms (value or rejection exactly as for the bytes), text
    kmer= / seq= keyword                                                                         (code points that are not bytes: must be rejected)
  memoryview, NumPy uint8 (copy / read-only), array B, NOT driven before                         audit: forms -- kmer_to_index, kmer_to_index_rc, revcomp (+ twice)
    strided, negative stride, 2-D column, a caller's                                             judged against the spec of the bytes the view exposes; a valid k-mer
    bytearray / array reused over several calls                                                  refused in one of these forms counts as a violation
  signed-char buffers (int8, array b)                  outside the domain (refused today)        audit: forms, lenient -- an error or the right value
  index / k as any NumPy integer scalar, 0-d array,    only uint64 + own dtype, k always int     audit: decforms (== base-4 digits == Coq spec_decode, and back)
    element of byte-swapped / strided array, keywords
  KmerMatch.kmer() / kmer_index(), both strands,       NOT driven (C01 drives find_kmers)        audit: match (== spec of the window / of its reverse complement)
    str / bytes / bytearray / Seq sequences
  KmerAccumulator.add_kmer (Set / Array), repeats,     NOT driven before                         audit: acc (signature and members == set of spec indices of the
    case variants, invalid members                                                               valid k-mers)
New kinds judge with the property predicate written out in Python (_py_enc, _py_rc); whenever the model driver runs
the Coq specification is evaluated on the same bytes and any disagreement is reported as a broken obligation.  The
translated kmers.pyx model knows byte lists only, so the tie is not re-checked per container form (enc/rc/dec do that).
Not driven (stated, not hidden): None as k-mer (Cython takes None for a memoryview argument and returns 0 -- not a
k-mer, no alarm), buffers of 2^31 bytes or more (C `int` length), float / bool indices, concurrent callers.

State and aliasing (statefulness audit).  Every kind above makes single calls on fresh objects, in one fixed order; the only
exception was forms' "reused bytearray / NumPy array" (same content every time, fixed order of functions, a modified argument
seen only through the NEXT answer).  None of the anchored code keeps state today (all C variables are locals, the error flag
included; gambit.kmers / gambit.seq hold only the constants NUCLEOTIDES, SEQ_TYPES, DEFAULT_KMERSPEC) -- so what the kind
`script` guards is that it stays that way.  A script is a short sequence of steps over a small pool of shared objects; every call
step is judged by the same predicate as the single-call kinds and, in addition: (b) after EVERY call -- also between the two
calls of a pair -- all pool objects are compared with the harness's own record of what the caller put there, (d) every call is
made twice in a row and must answer the same, a writable result is written to by the "caller" in between (it must not be a
window onto a pool object or onto the implementation's memory), and every bytes-like result is kept and re-read at the end.

  entry point                          objects that outlive a call                          (a) reused, other args, both orders / (c) failed calls interleaved / (e) second thread
  kmer_to_index, kmer_to_index_rc      the caller's k-mer object: bytearray, NumPy uint8    before: forms (same content, fixed order).  script codec: 2-3 objects (variants of one
    (_cython.kmers + gambit.kmers)     (+ strided view), array('B'), memoryview of a        k-mer: other case, reverse complement, one byte invalid, other length, > 32) x 4 names,
                                       bytearray; immutable bytes / str / Seq reusable by   random order with repetition; script put: the caller REWRITES its buffer in place
                                       identity.  A memo / scratch / error flag would sit   (same or other length) between two calls -- an identity-keyed memo goes stale;
                                       in module globals or thread-locals                   script fail: invalid byte / > 32 / undefined Seq / non-ASCII str / unsupported type /
                                                                                            junk argument, then a good call through ANOTHER name on another object
  revcomp (gambit.seq, gambit.kmers,   the caller's buffer; the result (today bytes copied  as above (codec, put, fail); results retained to the end of the script
    _cython.kmers)                     from a fresh bytearray)                              round 9 (size classes, not state): long rc-ladder -- single calls on fresh objects
                                                                                            of 63 bytes .. 4 MiB (16 MiB thorough); a block-wise wrapper's output buffer is
                                                                                            observed only through the returned bytes (length, mirrored content, involution)
  index_to_kmer (both names)           index / k objects (0-d NumPy arrays are mutable);    before: decforms (fresh objects; one list shared by the two names by accident).
                                       the bytearray(k) work buffer (fresh, copied)         script dec: 1-2 k objects x 1-3 index objects in every integer form, all pairs,
                                                                                            keyword order swapped between the two calls, out-of-range / junk calls between
  KmerSpec, DEFAULT_KMERSPEC           frozen; one spec shared by many matches              script match: one spec against 2-3 sequences of different length and content and two
                                                                                            specs against one sequence; fields compared after every step
  KmerMatch.kmer(), .kmer_index()      the match (slots, NOT frozen: pos / reverse / seq    before: match (fresh match per form, kmer() then kmer_index(), once).  script match:
                                       assignable) holding the caller's sequence object     2-3 long-lived matches, both methods in random order with repetition; pos / reverse /
                                                                                            seq reassigned between calls (strict: the answer is for the attributes as they are
                                                                                            now); a bytearray sequence rewritten in place (lenient: any content it had since the
                                                                                            match pointed at it); windows with invalid bytes / undefined Seq (failing calls)
  KmerAccumulator.add_kmer             the accumulator -- modified BY DESIGN, judged so:    before: acc (one accumulator per case).  script acc: two accumulators (same or other k
    (SetAccumulator, ArrayAccumulator) members == indices of the valid k-mers of length k   and class) fed alternately from one pool of k-mers, invalid and wrong-length (raises)
                                       added since the last clear(); the caller's k-mer     members between; EVERY accumulator of the pool is compared after every step
  seq_to_bytes                         returns the caller's bytes / bytearray ITSELF        covered through the wrappers (whatever writes to its result writes to the caller)
  module constants                     NUCLEOTIDES, SEQ_TYPES, DEFAULT_KMERSPEC             compared at the end of every script
  threads                              calc_file_signatures reaches kmer_to_index[_rc]      about a fifth of the call steps run in one long-lived second thread (alternating with
                                       through KmerMatch.kmer_index in pool threads         the main thread, never at the same time)
Replays: a script carries every literal it needs.  A replay, and every attempt of the shrinker, is executed in a FRESH interpreter
(_script_isolated), because the state the kind looks for may have been left in the campaign process by an earlier script; the first
findings of a campaign are re-run that way at once, and a script that fails only after others is reported together with them (key
'before', shrunk like any list).  Cost of the kind per run: coverage.script_seconds + script_generate_seconds in the evidence file.
Not driven: two calls at the same instant; forked workers (a child has a copy of all module state; C13 drives process pools);
command-line entry points (none observes this property).  mset steps are dropped (and counted) should KmerMatch become immutable.
"""
import itertools

PROP = 'C07'
RULE = ('enc: byte strings -> kmer_to_index / kmer_to_index_rc (value or ValueError); dec: (index,k) -> '
        'index_to_kmer and back; rc: byte strings -> revcomp.  non-trivial: enc with a valid k-mer of '
        'length >= 2 or an invalid byte not in first position; dec with k >= 2; rc containing a nucleotide '
        'and a non-nucleotide byte or length >= 2.  '
        'forms: one byte string handed over as bytes/bytearray/memoryview/NumPy uint8 (contiguous, strided, negative '
        'stride, 2-D column)/array(B)/str/Bio.Seq/keyword argument/reused bytearray through every public name of '
        'kmer_to_index, kmer_to_index_rc and revcomp (non-trivial like enc).  decforms: (index,k) with index and k as '
        'NumPy integer scalars of every width that holds them, 0-d array, element of a byte-swapped array, keyword '
        'arguments, through gambit.kmers.index_to_kmer and the extension (non-trivial: k >= 2).  match: KmerMatch.kmer() '
        '/ kmer_index() on a random window of a str/bytes/bytearray/Seq sequence, forward and reverse (non-trivial: '
        'k >= 2).  acc: KmerAccumulator.add_kmer over a list of k-mers, Set and Array accumulators (non-trivial: >= 2 '
        'distinct valid k-mers).  enc-long / rc-long: inputs of 41..2^17+1 bytes (rc-long beyond 4096 bytes is judged '
        'by the property predicate alone).  rc-ladder: revcomp under its three public names on bytes / bytearray / '
        'memoryview of every length m * 2^p (m = 1..9, p >= 6), m * 10^d, their two neighbours and random lengths up to '
        '4 MiB (16 MiB thorough), judged by the property predicate (same length, mirrored complement, involution).  script: 2-6 (mixed: up to ~9) steps over a pool of shared caller objects -- '
        'k-mer buffers in every form, index / k objects, KmerSpec, long-lived KmerMatch objects, two accumulators -- every '
        'call made twice in a row (same answer), judged by the same predicate, all pool objects compared with the '
        'harness\'s record after every single call, writable results written to, results re-read at the end, about a '
        'fifth of the calls in a second thread (non-trivial: some judged call uses a pool object used before)')
TRUSTED = ['tools/pyx2v.py (Cython subset -> Gallina; C integer semantics as documented in its header)',
           'gcc-compiled extension = semantics of kmers.pyx (the .so is exercised by the correspondence run)',
           'script: the harness\'s shadow record of the pool (contents it wrote, index sets it expects) and _py_enc / _py_rc / '
           '_digits, cross-checked against the Coq specification on every byte string and index a script asked about']
ASSUMPTIONS = ['k-mers are passed as bytes-like objects; `int k` arguments fit a C int',
               'CPython buffer protocol delivers the bytes unchanged to the Cython memoryview',
               'script: state is looked for through caller-visible objects and answers only; a KmerMatch whose bytearray '
               'sequence the caller rewrote in place may answer for any content since the match was pointed at it; calls of '
               'the two threads alternate, they never overlap']

NUC = b'ACGT'
NUCS = b'ACGTacgt'
_COMP = bytes.maketrans(b'ACGTacgt', b'TGCAtgca')
REJ = 'rejected'


def _py_enc(b):
	"""the property's encoding, written out in Python (cross-checked against the Coq spec whenever the model runs):
	base-4 code, first nucleotide most significant, case ignored; REJ for any other byte or more than 32 bytes"""
	if len(b) > 32:
		return REJ
	v = 0
	for c in b:
		d = NUCS.find(bytes([c]))
		if d < 0:
			return REJ
		v = v * 4 + d % 4
	return v


def _py_rc(b):
	"""the property's reverse complement: A<->T, C<->G keeping case, every other byte unchanged, mirrored"""
	return bytes(b).translate(_COMP)[::-1]


def _call(fn, *a, **kw):
	"""canonical outcome of an implementation call: the value, or ('error', exception type name)"""
	try:
		return fn(*a, **kw)
	except Exception as e:  # noqa -- any exception is a rejection; which one is not part of the property
		return ('error', type(e).__name__)


def _is_err(r):
	return isinstance(r, tuple) and len(r) == 2 and r[0] == 'error'


def _canon_int(r):
	if _is_err(r):
		return REJ
	try:
		import operator
		return operator.index(r)
	except TypeError:
		return ('not an integer', repr(r))


def _canon_bytes(r):
	if _is_err(r):
		return REJ
	if isinstance(r, (bytes, bytearray, memoryview)):
		return bytes(r)
	return ('not bytes', repr(r))


def setup(ctx):
	from vf import impl
	impl.check_import()


def _impl_enc(fn, b):
	try:
		return int(fn(b))
	except ValueError:
		return 'ValueError'
	except OverflowError:
		return 'OverflowError'


def _res(v):
	"""model result (0 x) / (1 code) -> python"""
	from vf.main import ERRNAMES
	if v[0] == 0:
		return v[1]
	return ERRNAMES.get(v[1], f'err{v[1]}')


def k_enc(ctx, cases):
	import gambit.kmers as gk
	from gambit._cython import kmers as ck
	from gambit.seq import revcomp as grevcomp
	reqs = []
	for h in cases:
		b = bytes.fromhex(h)
		reqs += [(701, b), (702, b), (711, b), (713, b)]
	ans = ctx.model(reqs) if ctx.model_ok else None
	# spec of rc: encode(revcomp)
	rc_specs = ctx.model([(711, bytes(ans[4 * i + 3])) for i in range(len(cases))]) if ans else None
	for i, h in enumerate(cases):
		b = bytes.fromhex(h)
		i1 = _impl_enc(ck.kmer_to_index, b)
		i2 = _impl_enc(ck.kmer_to_index_rc, b)
		valid = len(b) <= 32 and all(c in b'ACGTacgt' for c in b)
		nontriv = (valid and len(b) >= 2) or (not valid and len(b) >= 2 and (b[0] in b'ACGTacgt'))
		ctx.case(dict(kmer=h), nontrivial=nontriv, stream=None)
		# python-level wrappers must agree with the extension on every input type
		w1 = _impl_enc(gk.kmer_to_index, b)
		w1b = _impl_enc(gk.kmer_to_index, bytearray(b))
		if w1 != i1 or w1b != i1:
			ctx.violation('enc', h, f'gambit.kmers.kmer_to_index differs between wrapper/bytes/bytearray on {b!r}',
			              ext=i1, wrapper=w1, wrapper_bytearray=w1b)
		# (audit) gambit.kmers.kmer_to_index_rc is named in "observe at" but was never called
		w2 = _impl_enc(gk.kmer_to_index_rc, b)
		w2b = _impl_enc(gk.kmer_to_index_rc, bytearray(b))
		if w2 != i2 or w2b != i2:
			ctx.violation('enc', h, f'gambit.kmers.kmer_to_index_rc differs between wrapper/bytes/bytearray on {b!r}',
			              ext=i2, wrapper=w2, wrapper_bytearray=w2b)
		# (audit) the clauses of the property evaluated directly on the implementation (they hold whether or not the
		# model driver runs): accepted iff a k-mer of <= 32 nucleotides, case ignored, enc -> dec inverse, and
		# index of the reverse complement == index after reverse-complementing first
		if valid != isinstance(i1, int) or valid != isinstance(i2, int):
			ctx.violation('enc', h, f'{b!r} is {"a valid k-mer" if valid else "not a k-mer of <= 32 nucleotides"} but kmer_to_index '
			              f'gives {i1} and kmer_to_index_rc gives {i2}', impl=i1, impl_rc=i2, spec='value' if valid else 'ValueError')
		for nm, b2 in (('upper', b.upper()), ('lower', b.lower()), ('swapcase', b.swapcase())):
			if b2 != b:
				c1, c2 = _impl_enc(ck.kmer_to_index, b2), _impl_enc(ck.kmer_to_index_rc, b2)
				if c1 != i1 or c2 != i2:
					ctx.violation('enc', h, f'case is not ignored: {b!r} -> {i1} / rc {i2}, but its {nm} form {b2!r} -> {c1} / rc {c2}',
					              impl=[i1, i2], other_case=[c1, c2])
					break
		rb = grevcomp(b)
		via = _impl_enc(ck.kmer_to_index, rb)
		if via != i2:
			ctx.violation('enc', h, f'kmer_to_index_rc({b!r}) = {i2} but kmer_to_index(revcomp(..) = {rb!r}) = {via}', impl=i2, via_revcomp=via)
		if valid and isinstance(i1, int) and isinstance(i2, int):
			d1, d2 = ck.index_to_kmer(i1, len(b)), ck.index_to_kmer(i2, len(b))
			if d1 != b.upper() or d2 != rb.upper():
				ctx.violation('enc', h, f'not inverse: index_to_kmer(kmer_to_index({b!r}) = {i1}, {len(b)}) = {d1!r}; '
				              f'index_to_kmer(kmer_to_index_rc = {i2}) = {d2!r}, revcomp = {rb!r}', impl=[i1, i2], back=[d1, d2])
		if ans is None:
			continue
		m1, m2 = _res(ans[4 * i]), _res(ans[4 * i + 1])
		s1 = ans[4 * i + 2][0] if ans[4 * i + 2] else 'ValueError'
		s2 = rc_specs[i][0] if rc_specs[i] else 'ValueError'
		if i1 != s1:
			ctx.violation('enc', h, f'kmer_to_index({b!r}) = {i1}, base-4 code says {s1}', impl=i1, spec=s1, model=m1)
		elif m1 != s1:
			ctx.violation('enc', h, f'kmers.pyx as translated: kmer_to_index({b!r}) = {m1}, base-4 code says {s1} '
			              f'(the compiled extension returns {i1}: stale build or translator mismatch)', impl=i1, spec=s1, model=m1)
		if i2 != s2:
			ctx.violation('enc', h, f'kmer_to_index_rc({b!r}) = {i2}, index of the reverse complement is {s2}',
			              impl=i2, spec=s2, model=m2)
		elif m2 != s2:
			ctx.violation('enc', h, f'kmers.pyx as translated: kmer_to_index_rc({b!r}) = {m2}, index of the reverse '
			              f'complement is {s2} (the compiled extension returns {i2})', impl=i2, spec=s2, model=m2)


def k_dec(ctx, cases):
	from gambit._cython import kmers as ck
	reqs = []
	for idx, k in cases:
		reqs += [(703, [idx, k]), (712, [idx, k])]
	ans = ctx.model(reqs) if ctx.model_ok else None
	for i, (idx, k) in enumerate(cases):
		try:
			r = ck.index_to_kmer(idx, k)
		except OverflowError:
			r = 'OverflowError'
		except ValueError:
			r = 'ValueError'
		inrange = 0 <= k <= 32 and 0 <= idx < 4 ** k
		ctx.case(dict(index=idx, k=k), nontrivial=inrange and k >= 2)
		if inrange:
			# the public name gambit.kmers.index_to_kmer, with the index as Python int and as the NumPy scalars a
			# signature array hands out (uint64, and the signature's own dtype when the index fits it)
			import numpy as np
			import gambit.kmers as gk
			forms = [('int', idx), ('numpy.uint64', np.uint64(idx))]
			dt = gk.index_dtype(k) if k >= 1 else None
			if dt is not None:
				forms.append((f'element of a {dt} array', np.array([idx], dtype=dt)[0]))
			for name, val in forms:
				try:
					w = gk.index_to_kmer(val, k)
				except Exception as e:  # noqa
					w = type(e).__name__
				if w != r:
					ctx.violation('dec', [idx, k], f'gambit.kmers.index_to_kmer({idx} as {name}, {k}) = {w!r} but the extension gives {r!r} for the Python int',
					              impl=w, ext=r)
					break
		if inrange:
			# mutually inverse on the domain of the property
			if not isinstance(r, bytes) or len(r) != k or any(c not in NUC for c in r):
				ctx.violation('dec', [idx, k], f'index_to_kmer({idx},{k}) = {r!r} is not an upper-case {k}-mer', impl=r)
				continue
			back = _impl_enc(ck.kmer_to_index, r)
			if back != idx:
				ctx.violation('dec', [idx, k], f'kmer_to_index(index_to_kmer({idx},{k})) = {back}', impl=r, back=back)
				continue
		if ans is None:
			continue
		m = _res(ans[2 * i])
		m = bytes(m) if isinstance(m, list) else m
		s = bytes(ans[2 * i + 1])
		if inrange and r != s:
			ctx.violation('dec', [idx, k], f'index_to_kmer({idx},{k}) = {r!r}, base-4 digits say {s!r}', impl=r, spec=s, model=m)
		elif m != r:
			if inrange:
				ctx.violation('dec', [idx, k], f'kmers.pyx as translated: index_to_kmer({idx},{k}) = {m!r}, base-4 digits say '
				              f'{s!r} (the compiled extension returns {r!r})', impl=r, spec=s, model=m)
			else:
				# outside the property's domain only the tie is checked
				ctx.broke('correspondence dec (index_to_kmer, out-of-domain input)', f'input {(idx, k)}: impl={r!r} model={m!r}')


def k_rc(ctx, cases):
	from gambit.seq import revcomp
	reqs = []
	for h in cases:
		b = bytes.fromhex(h)
		reqs += [(704, b), (713, b)]
	ans = ctx.model(reqs) if ctx.model_ok else None
	for i, h in enumerate(cases):
		b = bytes.fromhex(h)
		r = revcomp(b)
		ctx.case(dict(seq=h), nontrivial=len(b) >= 2)
		if revcomp(r) != b:
			ctx.violation('rc', h, f'revcomp is not an involution on {b!r}', impl=r, twice=revcomp(r))
			continue
		if ans is None:
			continue
		m = _res(ans[2 * i])
		m = bytes(m) if isinstance(m, list) else m
		s = bytes(ans[2 * i + 1])
		if r != s:
			ctx.violation('rc', h, f'revcomp({b!r}) = {r!r}, mirrored complement is {s!r}', impl=r, spec=s, model=m)
		elif m != s:
			ctx.violation('rc', h, f'kmers.pyx as translated: revcomp({b!r}) = {m!r}, mirrored complement is {s!r} '
			              f'(the compiled extension returns {r!r})', impl=r, spec=s, model=m)


# ------------------------------------------------------------------------------------------------------
# (audit) input forms: the same byte string through every container type / call form / public name


def _filler(b, j):
	"""a nucleotide that differs from the neighbouring real byte: a reader that ignores strides or offsets gets a
	valid but different k-mer, not an error"""
	c = b[j % len(b)] if b else 65
	d = NUCS.find(bytes([c]))
	return NUC[(d + 1 + j) % 4] if d >= 0 else NUC[j % 4]


def _buffer_forms(b, stride, off):
	"""(name, object, strict) -- objects exposing exactly the bytes `b` through the buffer protocol.  strict=False:
	element type is not `unsigned char`; the unchanged code rejects those, so only 'an error or the right value'."""
	import array
	import numpy as np
	n = len(b)
	big = bytearray(_filler(b, j) for j in range(off + n * stride + 3))
	for i in range(n):
		big[off + i * stride] = b[i]
	rev = bytes(reversed(b))
	mat = np.frombuffer(bytes(big[off:off + n * stride]), dtype=np.uint8).reshape(n, stride) if n else np.zeros((0, stride), dtype=np.uint8)
	ro = np.frombuffer(b, dtype=np.uint8)
	signed = [x - 256 if x > 127 else x for x in b]
	return [
		('bytes', bytes(b), True),
		('bytearray', bytearray(b), True),
		('memoryview', memoryview(b), True),
		('memoryview-of-bytearray', memoryview(bytearray(b)), True),
		('numpy-uint8', np.array(list(b), dtype=np.uint8), True),
		('numpy-uint8-readonly', ro, True),
		('array-B', array.array('B', b), True),
		('numpy-strided', np.frombuffer(big, dtype=np.uint8)[off:off + n * stride:stride], True),
		('memoryview-strided', memoryview(big)[off:off + n * stride:stride], True),
		('numpy-negative-stride', np.frombuffer(rev, dtype=np.uint8)[::-1], True),
		('memoryview-negative-stride', memoryview(rev)[::-1], True),
		('numpy-2d-column', mat[:, 0], True),
		('numpy-int8', np.array(signed, dtype=np.int8), False),
		('array-b', array.array('b', signed), False),
	]


def _seq_forms(b):
	"""(name, object, content) for the DNASeq types gambit.kmers.kmer_to_index[_rc] document: str, bytes, bytearray,
	Bio.Seq.  `content` is the byte string the property speaks about, or None when the text is not a byte string of
	nucleotide letters at all (non-ASCII str) and must therefore be rejected"""
	from Bio.Seq import Seq

	class B2(bytes):
		pass

	out = [('bytes', bytes(b), b), ('bytearray', bytearray(b), b), ('bytes-subclass', B2(b), b), ('Seq-of-bytes', Seq(bytes(b)), b)]
	if all(c < 128 for c in b):
		t = b.decode('ascii')
		out += [('str', t, b), ('Seq-of-str', Seq(t), b)]
	else:
		t = b.decode('latin-1')
		out += [('str-non-ascii', t, None)]
	return out


def k_forms(ctx, cases):
	import gambit.kmers as gk
	import gambit.seq as gs
	from gambit._cython import kmers as ck
	ans = None
	if ctx.model_ok:
		bs = [bytes.fromhex(c['kmer']) for c in cases]
		a1 = ctx.model([x for b in bs for x in ((711, b), (713, b))])
		a2 = ctx.model([(711, bytes(a1[2 * i + 1])) for i in range(len(bs))])
		ans = [(a1[2 * i][0] if a1[2 * i] else REJ, bytes(a1[2 * i + 1]), a2[i][0] if a2[i] else REJ) for i in range(len(bs))]
	encs = [('_cython.kmers.kmer_to_index', ck.kmer_to_index, 0), ('_cython.kmers.kmer_to_index_rc', ck.kmer_to_index_rc, 1)]
	wraps = [('gambit.kmers.kmer_to_index', gk.kmer_to_index, 0), ('gambit.kmers.kmer_to_index_rc', gk.kmer_to_index_rc, 1)]
	rcs = [('gambit.seq.revcomp', gs.revcomp), ('gambit.kmers.revcomp', gk.revcomp), ('_cython.kmers.revcomp', ck.revcomp)]
	for i, c in enumerate(cases):
		b = bytes.fromhex(c['kmer'])
		stride, off = c.get('stride', 2), c.get('off', 1)
		e_rc = _py_rc(b)
		exp = (_py_enc(b), _py_enc(e_rc))
		valid = exp[0] != REJ
		ctx.case(c, nontrivial=len(b) >= 2 and (valid or b[0] in NUCS))
		if ans is not None and ans[i] != (exp[0], e_rc, exp[1]):
			# the Python rendering of the predicate and the Coq specification disagree: a harness defect, not a finding
			ctx.broke('harness predicate vs Coq specification (forms)', f'input {b!r}: python={(exp[0], e_rc, exp[1])!r} coq={ans[i]!r}')
			continue
		bad = None

		def judge(api, form, got, want, strict=True):
			nonlocal bad
			if bad is None and got != want and (strict or got != REJ):
				bad = f'{api}({form} holding {b!r}) = {got!r}, the property says {want!r}'

		for form, obj, strict in _buffer_forms(b, stride, off):
			ctx.count('stream:form:' + form)
			for api, fn, j in encs:
				judge(api, form, _canon_int(_call(fn, obj)), exp[j], strict)
			for api, fn in rcs:
				r = _canon_bytes(_call(fn, obj))
				judge(api, form, r, e_rc, strict)
				if isinstance(r, bytes) and r == e_rc:
					judge(api + ' twice', form, _canon_bytes(_call(fn, r)), b)
		for form, obj, content in _seq_forms(b):
			ctx.count('stream:form:' + form)
			for api, fn, j in wraps:
				judge(api, form, _canon_int(_call(fn, obj)), exp[j] if content is not None else REJ)
		# keyword call forms
		ctx.count('stream:form:keyword')
		judge('_cython.kmers.kmer_to_index', 'kmer=bytes', _canon_int(_call(ck.kmer_to_index, kmer=b)), exp[0])
		judge('_cython.kmers.kmer_to_index_rc', 'kmer=bytes', _canon_int(_call(ck.kmer_to_index_rc, kmer=b)), exp[1])
		judge('gambit.kmers.kmer_to_index', 'kmer=bytearray', _canon_int(_call(gk.kmer_to_index, kmer=bytearray(b))), exp[0])
		judge('gambit.kmers.kmer_to_index_rc', 'kmer=bytes', _canon_int(_call(gk.kmer_to_index_rc, kmer=b)), exp[1])
		judge('gambit.seq.revcomp', 'seq=bytes', _canon_bytes(_call(gs.revcomp, seq=b)), e_rc)
		# one caller-owned mutable buffer handed to every function in turn, twice: each answer is judged against the
		# ORIGINAL content (a function that rewrites its argument shows up in the next answer)
		ctx.count('stream:form:reused-bytearray')
		ba = bytearray(b)
		arr = __import__('numpy').array(list(b), dtype='uint8')
		for rnd in (1, 2):
			for obj, nm in ((ba, 'reused bytearray'), (arr, 'reused NumPy array')):
				judge('gambit.seq.revcomp', f'{nm}, round {rnd}', _canon_bytes(_call(gs.revcomp, obj)), e_rc)
				judge('_cython.kmers.kmer_to_index', f'{nm}, round {rnd}', _canon_int(_call(ck.kmer_to_index, obj)), exp[0])
				judge('_cython.kmers.kmer_to_index_rc', f'{nm}, round {rnd}', _canon_int(_call(ck.kmer_to_index_rc, obj)), exp[1])
			judge('gambit.kmers.kmer_to_index', f'reused bytearray, round {rnd}', _canon_int(_call(gk.kmer_to_index, ba)), exp[0])
			judge('gambit.kmers.kmer_to_index_rc', f'reused bytearray, round {rnd}', _canon_int(_call(gk.kmer_to_index_rc, ba)), exp[1])
		if bad:
			ctx.violation('forms', c, bad, spec=dict(index=exp[0], revcomp=e_rc, index_rc=exp[1]))


def k_text(ctx, cases):
	"""str k-mers that are not byte strings of nucleotide letters (non-ASCII code points whose low byte, upper-case
	form or look is a nucleotide): outside the Coq model (no byte string to send); judged by the predicate alone --
	rejected with an error, never encoded"""
	import gambit.kmers as gk
	from Bio.Seq import Seq
	for c in cases:
		t = ''.join(chr(x) for x in c['text'])
		pure = all(x < 128 and x in NUCS for x in c['text'])
		ctx.case(c, nontrivial=len(t) >= 2)
		want = _py_enc(t.encode('ascii')) if pure else REJ
		want_rc = _py_enc(_py_rc(t.encode('ascii'))) if pure else REJ
		forms = [('str', t)]
		try:
			forms.append(('Seq-of-str', Seq(t)))
		except Exception:  # noqa -- Biopython itself refuses non-ASCII text: nothing of gambit to observe
			pass
		for form, obj in forms:
			ctx.count('stream:text:' + form)
			g1 = _canon_int(_call(gk.kmer_to_index, obj))
			g2 = _canon_int(_call(gk.kmer_to_index_rc, obj))
			if (g1, g2) != (want, want_rc):
				ctx.violation('text', c, f'gambit.kmers.kmer_to_index / _rc ({form} {t!a}) = {g1!r} / {g2!r}, the property says '
				              f'{want!r} / {want_rc!r}', impl=[g1, g2], spec=[want, want_rc])
				break


# ------------------------------------------------------------------------------------------------------
# (audit) index_to_kmer with the index and k in every integer form, both public names, keyword arguments

_INT_TYPES = ['uint8', 'int8', 'uint16', 'int16', 'uint32', 'int32', 'uint64', 'int64', 'uintp', 'intp', 'ulonglong', 'longlong']


def _int_forms(v):
	"""(name, object) for every NumPy integer form that represents the Python int v exactly"""
	import numpy as np
	out = [('int', v)]
	for tn in _INT_TYPES:
		ty = getattr(np, tn)
		info = np.iinfo(ty)
		if info.min <= v <= info.max:
			out.append(('numpy.' + tn, ty(v)))
	if 0 <= v < 2 ** 64:
		out.append(('0-d uint64 array', np.array(v, dtype=np.uint64)))
		out.append(('element of a big-endian >u8 array', np.array([v], dtype='>u8')[0]))
		out.append(('element of a strided uint64 array', np.array([v, 0, v, 0], dtype=np.uint64)[::2][1]))
	return out


def k_decforms(ctx, cases):
	import gambit.kmers as gk
	from gambit._cython import kmers as ck
	ans = ctx.model([(712, [idx, k]) for idx, k in cases]) if ctx.model_ok else None
	for i, (idx, k) in enumerate(cases):
		if not (0 <= k <= 32 and 0 <= idx < 4 ** k):
			continue  # the property speaks about indices in range only; the dec kind ties the rest to the model
		want = bytes(NUC[(idx >> (2 * (k - 1 - j))) & 3] for j in range(k))
		ctx.case(dict(index=idx, k=k, forms=True), nontrivial=k >= 2)
		if ans is not None and bytes(ans[i]) != want:
			ctx.broke('harness predicate vs Coq specification (decforms)', f'input {(idx, k)}: python={want!r} coq={bytes(ans[i])!r}')
			continue
		bad = None
		iforms, kforms = _int_forms(idx), _int_forms(k)
		for api, fn in (('gambit.kmers.index_to_kmer', gk.index_to_kmer), ('_cython.kmers.index_to_kmer', ck.index_to_kmer)):
			calls = [(f'{inm}, k as {knm}', (iv, kv), {}) for inm, iv in iforms for knm, kv in kforms[:1]]
			calls += [(f'{inm}, k as {knm}', (iv, kv), {}) for inm, iv in iforms[:2] for knm, kv in kforms[1:]]
			calls += [('index=, k= keywords', (), dict(index=idx, k=k)), ('k= keyword', (iforms[-1][1],), dict(k=kforms[-1][1])),
			          ('k=, index= keywords reversed', (), dict(k=k, index=iforms[1 % len(iforms)][1]))]
			for nm, a, kw in calls:
				got = _canon_bytes(_call(fn, *a, **kw))
				if got != want:
					bad = f'{api}({idx} as {nm}; k={k}) = {got!r}, base-4 digits say {want!r}'
					break
				back = _canon_int(_call(gk.kmer_to_index, got))
				if back != idx:
					bad = f'gambit.kmers.kmer_to_index({api}({idx} as {nm}; k={k}) = {got!r}) = {back!r}'
					break
			if bad:
				break
		for inm, _ in iforms:
			ctx.count('stream:decform:index as ' + inm)
		for knm, _ in kforms:
			ctx.count('stream:decform:k as ' + knm)
		if bad:
			ctx.violation('decforms', [idx, k], bad, spec=want)


# ------------------------------------------------------------------------------------------------------
# (audit) the wrappers through which the package itself reaches the codec


def k_match(ctx, cases):
	"""KmerMatch.kmer() / kmer_index(): window of a sequence, forward or reverse strand (the only caller of
	kmer_to_index_rc in the package).  Expected values come from the harness's own slice of its own bytes."""
	import gambit.kmers as gk
	from Bio.Seq import Seq
	wins = []
	for c in cases:
		seq = bytes.fromhex(c['seq'])
		k, pl, pos = c['k'], c['plen'], c['pos']
		lo = pos - (k + pl) + 1 if c['reverse'] else pos + pl
		wins.append(seq[lo:lo + k])
	ans = None
	if ctx.model_ok:
		a1 = ctx.model([(713, w) for w in wins])
		ans = [bytes(x) for x in a1]
	for i, c in enumerate(cases):
		seq, w = bytes.fromhex(c['seq']), wins[i]
		k, pl, pos, rev = c['k'], c['plen'], c['pos'], c['reverse']
		assert len(w) == k
		want_kmer = _py_rc(w) if rev else w
		want_idx = _py_enc(want_kmer)
		ctx.case(c, nontrivial=k >= 2)
		if ans is not None and ans[i] != _py_rc(w):
			ctx.broke('harness predicate vs Coq specification (match)', f'window {w!r}: python={_py_rc(w)!r} coq={ans[i]!r}')
			continue
		forms = [('bytes', seq), ('bytearray', bytearray(seq)), ('Seq-of-bytes', Seq(seq))]
		if all(x < 128 for x in seq):
			forms += [('str', seq.decode('ascii')), ('Seq-of-str', Seq(seq.decode('ascii')))]
		spec = gk.KmerSpec(k, 'ACGT'[:pl] if pl <= 4 else 'A' * pl)
		for form, obj in forms:
			ctx.count('stream:match:' + form + (':reverse' if rev else ':forward'))
			m = gk.KmerMatch(spec, obj, pos, rev)
			gk_ = _canon_bytes(_call(m.kmer))
			gi = _canon_int(_call(m.kmer_index))
			if gk_ != want_kmer or gi != want_idx:
				ctx.violation('match', c, f'KmerMatch(k={k}, prefix length {pl}, {form} sequence, pos={pos}, reverse={rev}) on window {w!r}: '
				              f'kmer() = {gk_!r}, kmer_index() = {gi!r}; the property says {want_kmer!r} / {want_idx!r}',
				              impl=[gk_, gi], spec=[want_kmer, want_idx])
				break


def k_acc(ctx, cases):
	"""KmerAccumulator.add_kmer: valid k-mers are added under their base-4 index, anything else is ignored"""
	from gambit.sigs.calc import SetAccumulator, ArrayAccumulator
	from Bio.Seq import Seq
	for c in cases:
		k = c['k']
		kms = [bytes.fromhex(h) for h in c['kmers']]
		want = sorted({_py_enc(b) for b in kms if _py_enc(b) != REJ})
		ctx.case(c, nontrivial=len(want) >= 2)
		ctx.count('stream:acc:' + c['cls'])
		acc = (SetAccumulator if c['cls'] == 'set' else ArrayAccumulator)(k)
		err = None
		for j, b in enumerate(kms):
			obj = b
			if all(x < 128 for x in b):
				obj = (b, bytearray(b), b.decode('ascii'), Seq(b.decode('ascii')))[j % 4]
			r = _call(acc.add_kmer, obj)
			if _is_err(r):
				err = f'add_kmer({obj!r}) raised {r[1]}'
				break
		got = err or [int(x) for x in acc.signature()]
		members = err or sorted(int(x) for x in acc)
		if got != want or members != want:
			ctx.violation('acc', c, f'{c["cls"]} accumulator k={k} after add_kmer of {kms!r}: signature {got!r}, members {members!r}; '
			              f'base-4 indices of the valid k-mers are {want!r}', impl=got, spec=want)


# ------------------------------------------------------------------------------------------------------
# (audit) long inputs


def k_long(ctx, cases):
	"""inputs longer than the rc / enc streams produce: revcomp of up to 2^17+1 bytes (rc-ladder: up to 4 / 16 MiB, at and
	around every multiple of a power of two), and over-long k-mers (must be rejected whatever they contain).  Up to 4096 bytes the Coq specification is evaluated too; beyond that the
	extracted functions are quadratic and the case is judged by the property predicate alone."""
	import gambit.kmers as gk
	import gambit.seq as gs
	from gambit._cython import kmers as ck
	import random

	def content(c):
		"""the n bytes of a case, from its seed.  gen='randbytes' (the size ladder): Random(seed).randbytes(n) mapped onto
		the alphabet with one translate() -- megabytes in milliseconds; otherwise Random(seed).choices (the older cases)"""
		r, alpha = random.Random(c['seed']), bytes.fromhex(c['alphabet'])
		if c.get('gen') == 'randbytes':
			return r.randbytes(c['n']).translate(bytes(alpha[j % len(alpha)] for j in range(256)))
		return bytes(r.choices(alpha, k=c['n']))

	# only the short inputs are kept for the whole batch (they go to the model driver); the long ones -- up to a few MiB
	# each -- are made when their turn comes
	bs = [content(c) if c['n'] <= 4096 else None for c in cases]
	small = [i for i, b in enumerate(bs) if b is not None] if ctx.model_ok else []
	ans = ctx.model([x for i in small for x in ((713, bs[i]), (711, bs[i]), (704, bs[i]), (701, bs[i]), (702, bs[i]))])
	ans = {i: ans[5 * j:5 * j + 5] for j, i in enumerate(small)}
	for i, c in enumerate(cases):
		b, n, alpha = (bs[i] if bs[i] is not None else content(c)), c['n'], bytes.fromhex(c['alphabet'])
		ctx.case(c, nontrivial=True)
		e_rc = _py_rc(b)
		e1, e2 = _py_enc(b), _py_enc(e_rc)
		if i in ans:
			a = ans[i]
			coq = (bytes(a[0]), a[1][0] if a[1] else REJ)
			if coq != (e_rc, e1):
				ctx.broke('harness predicate vs Coq specification (long)', f'case {c}: python={(e_rc[:40], e1)!r} coq={(coq[0][:40], coq[1])!r}')
				continue
			mrc = _res(a[2])
			mrc = bytes(mrc) if isinstance(mrc, list) else mrc
			m1, m2 = _res(a[3]), _res(a[4])
			m1, m2 = (REJ if m1 == 'ValueError' else m1), (REJ if m2 == 'ValueError' else m2)
			if (mrc, m1, m2) != (e_rc, e1, e2):
				ctx.broke('correspondence long (kmers.pyx as translated)', f'case {c}: model enc/enc_rc = {m1!r}/{m2!r} expected {e1!r}/{e2!r}; '
				          f'revcomp equal: {mrc == e_rc}')
		bad = None
		for form, obj in (('bytes', b), ('bytearray', bytearray(b)), ('memoryview', memoryview(b))):
			ctx.count('stream:long:' + c['what'] + ':' + form)
			for api, fn in (('gambit.seq.revcomp', gs.revcomp), ('gambit.kmers.revcomp', gk.revcomp), ('_cython.kmers.revcomp', ck.revcomp)):
				got = _canon_bytes(_call(fn, obj))
				if got != e_rc:
					if isinstance(got, bytes) and len(got) == len(e_rc):
						p = next(j for j in range(n) if got[j] != e_rc[j])
						bad = bad or f'{api}({form}, {n} bytes): output byte {p} is {got[p]:#x}, mirrored complement of input byte {n - 1 - p} ({b[n - 1 - p]:#x}) is {e_rc[p]:#x}'
					else:
						bad = bad or f'{api}({form}, {n} bytes) = {got if not isinstance(got, bytes) else ("%d bytes" % len(got))!r}'
				elif _canon_bytes(_call(fn, got)) != b:
					bad = bad or f'{api}({form}, {n} bytes): not an involution'
			for api, fn, want in (('_cython.kmers.kmer_to_index', ck.kmer_to_index, e1), ('_cython.kmers.kmer_to_index_rc', ck.kmer_to_index_rc, e2),
			                      ('gambit.kmers.kmer_to_index', gk.kmer_to_index, e1), ('gambit.kmers.kmer_to_index_rc', gk.kmer_to_index_rc, e2)):
				if form == 'memoryview' and api.startswith('gambit.kmers'):
					continue  # not a DNASeq type
				got = _canon_int(_call(fn, obj))
				if got != want:
					bad = bad or f'{api}({form}, {n} bytes over {alpha[:12]!r}) = {got!r}, the property says {want!r}'
		if bad:
			ctx.violation('long', c, bad)


# ------------------------------------------------------------------------------------------------------
# (state audit) call sequences over a small pool of shared caller objects -- see "state and aliasing" in the docstring

_ENC_APIS = ['_cython.kmers.kmer_to_index', '_cython.kmers.kmer_to_index_rc', 'gambit.kmers.kmer_to_index', 'gambit.kmers.kmer_to_index_rc']
_RC_APIS = ['gambit.seq.revcomp', 'gambit.kmers.revcomp', '_cython.kmers.revcomp']
_DEC_APIS = ['gambit.kmers.index_to_kmer', '_cython.kmers.index_to_kmer']
_F_BUFFER = ('bytes', 'bytearray', 'numpy', 'numpy-strided', 'array-B', 'memoryview-bytearray')   # unsigned-char buffers
_F_DNASEQ = ('bytes', 'bytearray', 'str', 'Seq-str', 'Seq-bytes', 'Seq-undefined')                # gambit.seq.DNASeq
_F_WRITABLE = ('bytearray', 'numpy', 'numpy-strided', 'array-B', 'memoryview-bytearray')
_F_RESIZABLE = ('bytearray',)
_INT_FORMS = ('int', 'uint8', 'int32', 'uint64', 'int64', '0d-uint64', '0d-int64')
_UNDEF = 'undefined'
_POOL = None


def _worker():
	"""the second thread of the script kind (one long-lived worker: thread-local state filled by one case is still
	there in the next)"""
	global _POOL
	if _POOL is None:
		from concurrent.futures import ThreadPoolExecutor
		_POOL = ThreadPoolExecutor(max_workers=1, thread_name_prefix='c07-script')
	return _POOL


def teardown(ctx):
	global _POOL
	if _POOL is not None:
		_POOL.shutdown(wait=False)
		_POOL = None


def _mk_buf(form, b):
	"""the caller's object of the given form holding the bytes b"""
	import array
	import numpy as np
	from Bio.Seq import Seq
	if form == 'bytes':
		return bytes(b)
	if form == 'bytearray':
		return bytearray(b)
	if form == 'numpy':
		return np.array(list(b), dtype=np.uint8)
	if form == 'numpy-strided':
		big = np.frombuffer(bytearray(_filler(b, j) for j in range(2 * len(b) + 3)), dtype=np.uint8)
		v = big[1:1 + 2 * len(b):2]
		v[:] = np.frombuffer(bytes(b), dtype=np.uint8)
		return v
	if form == 'array-B':
		return array.array('B', b)
	if form == 'memoryview-bytearray':
		return memoryview(bytearray(b))
	if form == 'str':
		return b.decode('latin-1')
	if form == 'Seq-str':
		return Seq(b.decode('ascii')) if all(x < 128 for x in b) else Seq(bytes(b))
	if form == 'Seq-bytes':
		return Seq(bytes(b))
	if form == 'Seq-undefined':
		return Seq(None, len(b))
	raise KeyError(form)


def _read_buf(form, obj):
	"""what the caller sees in its object now"""
	if form in ('numpy', 'numpy-strided', 'array-B'):
		return obj.tobytes()
	if form == 'str':
		return obj.encode('latin-1')
	if form == 'Seq-undefined':
		try:
			return bytes(obj)
		except Exception:  # noqa -- still undefined
			return (_UNDEF, len(obj))
	return bytes(obj)


def _write_buf(form, obj, new):
	"""the caller rewrites its own object in place"""
	import numpy as np
	if form in ('numpy', 'numpy-strided'):
		obj[:] = np.frombuffer(bytes(new), dtype=np.uint8)
	elif form == 'array-B':
		obj[:] = __import__('array').array('B', new)
	else:
		obj[:] = new


def _opaque(form, b):
	"""no byte string of nucleotide letters to speak about: undefined Seq, or text with a code point >= 128"""
	return form == 'Seq-undefined' or (form == 'str' and any(x >= 128 for x in b))


def _mk_int(form, v):
	import numpy as np
	if form == 'int':
		return v
	if form.startswith('0d-'):
		return np.array(v, dtype=form[3:])
	return getattr(np, form)(v)


def _int_fits(form, v):
	import numpy as np
	if form == 'int':
		return True
	info = np.iinfo(form[3:] if form.startswith('0d-') else form)
	return info.min <= v <= info.max


def _digits(idx, k):
	return bytes(NUC[(idx >> (2 * (k - 1 - j))) & 3] for j in range(k))


def _run_script(c, env, oracle_log):
	"""Execute one script.  Returns (first finding or None, number of judged calls on an object already used before).
	Every call step runs twice; every step is followed by the comparison of ALL pool objects with the harness's own
	record of what the caller put there."""
	import operator
	bufs = []      # [form, object, content]
	for form, h in c['bufs']:
		b = bytes.fromhex(h)
		bufs.append([form, _mk_buf(form, b), b])
	ints = [(form, _mk_int(form, v), v) for form, v in c.get('ints', [])]
	specs = [(env['gk'].KmerSpec(k, 'ACGT'[:pl] if pl <= 4 else 'A' * pl), k, pl) for k, pl in c.get('specs', [])]
	spec_snap = [(s.k, s.prefix, s.prefix_str, s.prefix_len, s.total_len, s.nkmers, s.index_dtype) for s, _, _ in specs]
	accs = []      # [class name, k, object, shadow set]
	for cls, k in c.get('accs', []):
		accs.append([cls, k, (env['SetAccumulator'] if cls == 'set' else env['ArrayAccumulator'])(k), set()])
	matches = []   # [object, spec index, buffer index, pos, reverse, contents the buffer had since the match points at it]
	retained = []  # (raw result, canonical value when it was returned, where)
	used = set()
	reuse = 0
	frozen_match = False

	def run(t, fn, *a, **kw):
		if t:
			return _worker().submit(_call, fn, *a, **kw).result()
		return _call(fn, *a, **kw)

	def same_seq(x, bi, hist):
		"""the match still points at the caller's sequence (or, should matches ever keep a private copy, at a copy of
		something the caller's object held since then)"""
		form, obj, b = bufs[bi]
		if x is obj:
			return True
		try:
			now = _read_buf('str' if isinstance(x, str) else form if form.startswith('Seq') else 'bytes', x)
		except Exception:  # noqa
			return False
		return now in hist or now == (_UNDEF, len(b))

	def pool_diff():
		for i, (form, obj, b) in enumerate(bufs):
			now = _read_buf(form, obj)
			if now != ((_UNDEF, len(b)) if form == 'Seq-undefined' else b):
				return f'the caller\'s {form} #{i} held {b!r} and now holds {now!r}'
		for i, (form, obj, v) in enumerate(ints):
			try:
				now = operator.index(obj)
			except Exception as e:  # noqa
				now = type(e).__name__
			if now != v or (form != 'int' and str(obj.dtype) != (form[3:] if form.startswith('0d-') else form)):
				return f'the caller\'s integer #{i} ({form}) was {v} and is now {obj!r}'
		for i, (s, _, _) in enumerate(specs):
			if (s.k, s.prefix, s.prefix_str, s.prefix_len, s.total_len, s.nkmers, s.index_dtype) != spec_snap[i]:
				return f'KmerSpec #{i} changed: {spec_snap[i]!r} -> {s!r}'
		for i, (m, si, bi, pos, rev, hist) in enumerate(matches):
			if m.kmerspec != specs[si][0] or m.pos != pos or m.reverse != rev or not same_seq(m.seq, bi, hist):
				return (f'KmerMatch #{i} was built with (spec #{si} {specs[si][0]!r}, sequence #{bi}, pos={pos}, reverse={rev}) and now has '
				        f'(kmerspec={m.kmerspec!r}, seq is the same object: {m.seq is bufs[bi][1]}, pos={m.pos!r}, reverse={m.reverse!r})')
		for i, (cls, k, a, shadow) in enumerate(accs):
			got = _call(lambda: [int(x) for x in a.signature()])
			if got != sorted(shadow) or a.k != k:
				return f'{cls} accumulator #{i} (k={k}) should hold {sorted(shadow)!r}, signature() = {got!r}, k = {a.k!r}'
		return None

	def touch(*keys):
		nonlocal reuse
		if any(k in used for k in keys):
			reuse += 1
		used.update(keys)

	def scribble(r):
		"""a result the caller may write to: write to it -- it must not be a window onto a pool object"""
		if isinstance(r, bytearray) or (isinstance(r, memoryview) and not r.readonly):
			for j in range(len(r)):
				r[j] ^= 0xFF
			return True
		return False

	def twice(canon, t, fn, *a, kw2=None, **kw):
		"""the same call two times in a row.  The pool is compared after the FIRST call as well (a call that swaps
		something and a second one that swaps it back would otherwise go unseen), and a writable result of the first
		call is written to before the second call.  -> canonical results, what to retain, finding"""
		r1 = run(t, fn, *a, **kw)
		g1 = canon(r1)
		d = pool_diff()
		if d:
			return g1, g1, [], 'after the first of two identical calls ' + d
		keep = []
		if scribble(r1):
			d = pool_diff()
			if d:
				return g1, g1, [], f'the caller wrote to the {type(r1).__name__} the call returned, and {d}'
		else:
			keep.append((r1, g1))
		r2 = run(t, fn, *a, **(kw if kw2 is None else kw2))
		g2 = canon(r2)
		keep.append((r2, g2))
		return g1, g2, [(r, g, where) for r, g in keep if isinstance(g, bytes)], None

	def window(mrec, content):
		_, si, bi, pos, rev, _ = mrec
		_, k, pl = specs[si]
		lo = pos - (k + pl) + 1 if rev else pos + pl
		if lo < 0 or lo + k > len(content):
			return None
		return content[lo:lo + k]

	for n, st in enumerate(c['steps']):
		op, t = st['op'], st.get('t', 0)
		where = f'step {n + 1} of {len(c["steps"])} ({_json_short(st)})'
		bad = None
		if op in ('enc', 'rc'):
			form, obj, b = bufs[st['b']]
			if op == 'enc':
				api, fn, canon = _ENC_APIS[st['api']], env['enc'][st['api']], _canon_int
				rcflag = st['api'] % 2 == 1
				strict = form in (_F_DNASEQ if st['api'] >= 2 else _F_BUFFER)
				want = REJ if _opaque(form, b) else _py_enc(_py_rc(b) if rcflag else b)
			else:
				api, fn, canon = _RC_APIS[st['api']], env['rc'][st['api']], _canon_bytes
				strict = form in _F_BUFFER
				want = REJ if _opaque(form, b) else _py_rc(b)
			if not _opaque(form, b):
				oracle_log['bytes'].add(b)
			g1, g2, keep, bad = twice(canon, t, fn, obj)
			if g1 != want and (strict or g1 != REJ):
				bad = f'{api}({form} #{st["b"]} holding {b!r}) = {g1!r}, the property says {want!r}'
			elif g1 != g2:
				bad = f'{api}({form} #{st["b"]} holding {b!r}) called twice in a row gave {g1!r} and then {g2!r}'
			retained += keep
			touch(('b', st['b']))
		elif op == 'put':
			form, obj, _ = bufs[st['b']]
			new = bytes.fromhex(st['hex'])
			_write_buf(form, obj, new)
			bufs[st['b']][2] = new
			for mrec in matches:
				if mrec[2] == st['b']:
					mrec[5].append(new)
		elif op == 'dec':
			(iform, iobj, iv), (kform, kobj, kv) = ints[st['i']], ints[st['k']]
			api, fn = _DEC_APIS[st['api']], env['dec'][st['api']]
			if not -2 <= kv <= 64:
				raise ValueError('malformed script: k out of the range a script may use')
			if st.get('kw'):
				g1, g2, keep, bad = twice(_canon_bytes, t, fn, kw2=dict(k=kobj, index=iobj), index=iobj, k=kobj)
			else:
				g1, g2, keep, bad = twice(_canon_bytes, t, fn, iobj, kobj)
			inrange = 0 <= kv <= 32 and 0 <= iv < 4 ** kv
			if inrange:
				oracle_log['dec'].add((iv, kv))
			if inrange and g1 != _digits(iv, kv):
				bad = f'{api}({iv} as {iform} #{st["i"]}, {kv} as {kform} #{st["k"]}) = {g1!r}, base-4 digits say {_digits(iv, kv)!r}'
			elif g1 != g2:
				bad = f'{api}({iv} as {iform} #{st["i"]}, {kv} as {kform} #{st["k"]}) called twice in a row gave {g1!r} and then {g2!r}'
			elif inrange:
				retained += keep
				touch(('i', st['i']), ('i', st['k']))
		elif op == 'junk':
			# a call that cannot succeed (not a k-mer / not an index at all): nothing to judge but what it leaves behind
			arg = {'int': 5, 'float': 2.5, 'list': [65, 67, 71], 'object': object(), 'tuple': (b'A', b'C')}[st['arg']]
			fam, a = st['api']
			if fam == 'dec':
				bad_args = {'int': (-1, 3), 'float': (2 ** 64, 3), 'list': (5, -1), 'object': ('A', 2), 'tuple': (3, 'x')}[st['arg']]
				run(t, env['dec'][a], *bad_args)
			else:
				run(t, env[fam][a], arg)
		elif op == 'match':
			si, bi = st['s'], st['b']
			m = run(t, env['gk'].KmerMatch, specs[si][0], bufs[bi][1], st['pos'], bool(st['rev']))
			if _is_err(m):
				bad = f'KmerMatch(spec #{si}, sequence #{bi}, {st["pos"]}, {bool(st["rev"])}) raised {m[1]}'
			else:
				matches.append([m, si, bi, st['pos'], bool(st['rev']), [bufs[bi][2]]])
		elif op == 'mset':
			mrec = matches[st['m']]
			attr, val = st['attr'], st['value']
			try:
				if attr == 'seq':
					setattr(mrec[0], 'seq', bufs[val][1])
					mrec[2], mrec[5] = val, [bufs[val][2]]
				elif attr == 'pos':
					setattr(mrec[0], 'pos', val)
					mrec[3] = val
				else:
					setattr(mrec[0], 'reverse', bool(val))
					mrec[4] = bool(val)
			except AttributeError:
				frozen_match = True  # an immutable KmerMatch is not this property's business: the step is dropped
		elif op in ('kmer', 'kidx'):
			mrec = matches[st['m']]
			m, si, bi, pos, rev, hist = mrec
			form = bufs[bi][0]
			fn, canon = (m.kmer, _canon_bytes) if op == 'kmer' else (m.kmer_index, _canon_int)
			wants = []
			for content in hist[-1:] + hist[:-1]:
				w = window(mrec, content)
				if w is None:
					continue
				if _opaque(form, w):
					wants.append(REJ)
				else:
					oracle_log['bytes'].add(w)
					wants.append((_py_rc(w) if rev else w) if op == 'kmer' else _py_enc(_py_rc(w) if rev else w))
			g1, g2, keep, bad = twice(canon, t, fn)
			desc = (f'KmerMatch #{st["m"]} (k={specs[si][1]}, prefix length {specs[si][2]}, {form} sequence #{bi} holding {bufs[bi][2]!r}, '
			        f'pos={pos}, reverse={rev}).{"kmer" if op == "kmer" else "kmer_index"}()')
			if bad:
				bad = f'{desc}: {bad}'
			elif window(mrec, hist[-1]) is not None and wants and g1 not in wants and (form in _F_DNASEQ or g1 != REJ):
				bad = f'{desc} = {g1!r}, the property says {wants[0]!r}' + (f' (or, for the content the sequence had earlier, one of {wants[1:]!r})' if len(wants) > 1 else '')
			elif g1 != g2:
				bad = f'{desc} called twice in a row gave {g1!r} and then {g2!r}'
			elif wants:
				retained += keep
				touch(('m', st['m']), ('b', bi), ('s', si))
		elif op == 'add':
			arec = accs[st['a']]
			form, obj, b = bufs[st['b']]
			adds = len(b) == arec[1] and not _opaque(form, b) and _py_enc(b) != REJ
			# strict for the DNASeq forms; any other form may be refused, but then both times
			r1 = run(t, arec[2].add_kmer, obj)
			if adds and not _is_err(r1):
				oracle_log['bytes'].add(b)
				arec[3].add(_py_enc(b))
			bad = pool_diff()
			if bad:
				bad = 'after the first of two identical calls ' + bad
			r2 = run(t, arec[2].add_kmer, obj)
			if adds and not bad and (_is_err(r1) or _is_err(r2)) and (form in _F_DNASEQ or _is_err(r1) != _is_err(r2)):
				bad = (f'{arec[0]} accumulator #{st["a"]} (k={arec[1]}).add_kmer({form} #{st["b"]} holding {b!r}) called twice in a row: '
				       f'{r1[1] if _is_err(r1) else "ok"}, {r2[1] if _is_err(r2) else "ok"}')
			touch(('a', st['a']), ('b', st['b']))
		elif op == 'clear':
			arec = accs[st['a']]
			run(t, arec[2].clear)
			arec[3].clear()
		elif op == 'members':
			arec = accs[st['a']]
			got = run(t, lambda: sorted(int(x) for x in arec[2]))
			ln = run(t, lambda: int(len(arec[2])))
			if got != sorted(arec[3]) or ln != len(arec[3]):
				bad = f'{arec[0]} accumulator #{st["a"]} (k={arec[1]}): members {got!r}, len {ln!r}; the valid k-mers added have indices {sorted(arec[3])!r}'
			touch(('a', st['a']))
		else:
			raise KeyError(op)
		bad = bad or pool_diff()
		if bad:
			return f'{where}: {bad}', reuse, frozen_match
	for r, g, where in retained:
		now = _canon_bytes(r)
		if now != g:
			return f'the result returned at {where} was {g!r} and reads {now!r} at the end of the script', reuse, frozen_match
	d, s = env['gk'].DEFAULT_KMERSPEC, env['gs']
	if (d.k, d.prefix, d.prefix_len, d.total_len, d.nkmers, str(d.index_dtype)) != (11, b'ATGAC', 5, 16, 4 ** 11, 'uint32') \
			or s.NUCLEOTIDES != b'ACGT' or len(s.SEQ_TYPES) != 4:
		return f'module constants changed: DEFAULT_KMERSPEC = {d!r}, NUCLEOTIDES = {s.NUCLEOTIDES!r}, SEQ_TYPES = {s.SEQ_TYPES!r}', reuse, frozen_match
	return None, reuse, frozen_match


def _json_short(st):
	import json
	return json.dumps(st, sort_keys=True, separators=(',', ':'))


def _script_env():
	import gambit.kmers as gk
	import gambit.seq as gs
	from gambit._cython import kmers as ck
	from gambit.sigs.calc import SetAccumulator, ArrayAccumulator
	return dict(gk=gk, gs=gs, ck=ck, SetAccumulator=SetAccumulator, ArrayAccumulator=ArrayAccumulator,
	            enc=[ck.kmer_to_index, ck.kmer_to_index_rc, gk.kmer_to_index, gk.kmer_to_index_rc],
	            rc=[gs.revcomp, gk.revcomp, ck.revcomp], dec=[gk.index_to_kmer, ck.index_to_kmer])


def _script_with_history(c, env, log):
	"""a case may carry, under 'before', the scripts that ran before it in the process where it failed (state that
	leaks from one script into the next); they are run first, their own findings do not count here"""
	for b in c.get('before', []):
		try:
			_run_script(b, env, log)
		except Exception:  # noqa -- shrinking may leave a malformed one behind
			pass
	return _run_script(c, env, log)


def _script_child(c):
	"""entry point of the fresh interpreter started by _script_isolated"""
	return list(_script_with_history(c, _script_env(), dict(bytes=set(), dec=set())))


def _script_isolated(c):
	"""Run one script in a FRESH interpreter (same implementation, same harness file): whatever earlier cases left
	behind in this process -- the very thing the kind looks for -- cannot take part, so a replay file that fails
	there fails on its own.  -> (finding or None, reuse, frozen); raises if the child cannot run the case."""
	import json
	import os
	import subprocess
	import sys
	code = 'import sys, json\nimport harness.c07 as h\nprint("\\n@@" + json.dumps(h._script_child(json.load(sys.stdin))))\n'
	env = dict(os.environ, PYTHONPATH=os.pathsep.join(x for x in sys.path if x))
	p = subprocess.run([sys.executable, '-c', code], input=json.dumps(c), capture_output=True, text=True, timeout=600, env=env)
	lines = [ln for ln in p.stdout.splitlines() if ln.startswith('@@')]
	if p.returncode != 0 or not lines:
		raise RuntimeError('script child failed: ' + p.stderr[-600:])
	return tuple(json.loads(lines[-1][2:]))


_SCRIPT_VERIFIED = [0]


def k_script(ctx, cases):
	"""call sequences over shared caller objects (see "state and aliasing" in the module docstring).  A replay (and
	every attempt of the shrinker) runs in a fresh interpreter; in a campaign the first findings are re-run there and,
	if a script does not fail on its own, it is reported together with the scripts that ran before it."""
	env = _script_env()
	log = dict(bytes=set(), dec=set())
	t0 = __import__('time').time()
	for n, c in enumerate(cases):
		if ctx.replaying:
			bad, reuse, frozen = _script_isolated(c)
		else:
			bad, reuse, frozen = _script_with_history(c, env, log)
		ctx.case(c, nontrivial=reuse >= 1)
		ctx.count('stream:script:' + c.get('theme', 'corpus'))
		for st in c['steps']:
			if st.get('t'):
				ctx.count('stream:script:steps-in-second-thread')
				break
		if frozen:
			ctx.count('script:mset-steps-dropped(KmerMatch immutable)')
		if bad and not ctx.replaying and _SCRIPT_VERIFIED[0] < 3:
			_SCRIPT_VERIFIED[0] += 1
			try:
				alone = _script_isolated(c)[0]
				if alone:
					bad = alone
				else:
					c2 = dict(c, before=[x for x in cases[max(0, n - 400):n] if 'before' not in x])
					again = _script_isolated(c2)[0]
					if again:
						c, bad = c2, again + f' [only after the {len(c2["before"])} scripts under "before": state left behind by an earlier script]'
					else:
						bad += ' [seen in the campaign process only: neither the script alone nor with the scripts of its batch fails in a fresh interpreter]'
			except Exception as e:  # noqa
				bad += f' [not re-run in a fresh interpreter: {e}]'
		if bad:
			ctx.violation('script', c, bad)
	# the Python rendering of the predicate against the Coq specification, on every byte string / index the oracle was asked about
	if ctx.model_ok and not ctx.replaying:
		bs = sorted(b for b in log['bytes'] if len(b) <= 4096)
		ds = sorted(log['dec'])
		a = ctx.model([x for b in bs for x in ((711, b), (713, b))] + [(712, [i, k]) for i, k in ds])
		for j, b in enumerate(bs):
			coq = (a[2 * j][0] if a[2 * j] else REJ, bytes(a[2 * j + 1]))
			if coq != (_py_enc(b), _py_rc(b)):
				ctx.broke('harness predicate vs Coq specification (script)', f'input {b!r}: python={(_py_enc(b), _py_rc(b))!r} coq={coq!r}')
				break
		for j, (i, k) in enumerate(ds):
			if bytes(a[2 * len(bs) + j]) != _digits(i, k):
				ctx.broke('harness predicate vs Coq specification (script, decode)', f'input {(i, k)}: python={_digits(i, k)!r} coq={bytes(a[2 * len(bs) + j])!r}')
				break
	# what the kind costs, measured (the quick tier has a budget)
	ctx.extra['script_seconds'] = round(ctx.extra.get('script_seconds', 0) + __import__('time').time() - t0, 2)


_SCRIPT_THEMES = ('codec', 'put', 'fail', 'match', 'acc', 'dec', 'mixed')
_BAD_BYTES = [ord('N'), ord('n'), 0xC1, 0xE1, 0xD4, 0x00, 0x21, 0x55, 0x75, 0x80]


def _gen_script(rng, theme):
	"""one random script (a JSON-serialisable case carrying every literal it needs)"""
	bufs, ints, specs, accs, steps = [], [], [], [], []

	def kmer(k=None, p_bad=0.0, alpha=None):
		k = rng.choice([1, 2, 3, 4, 5, 6, 8, 11, 12, 16, 17, 31, 32]) if k is None else k
		alpha = alpha or rng.choice([NUCS, NUC])
		b = bytearray(rng.choice(alpha) for _ in range(k))
		if k and rng.random() < p_bad:
			b[rng.randrange(k)] = rng.choice(_BAD_BYTES + [rng.randrange(256)])
		return bytes(b)

	def T():
		return 1 if rng.random() < 0.2 else 0

	def buf(form, b):
		bufs.append([form, bytes(b).hex()])
		return len(bufs) - 1

	def call(bi, same_api=None):
		"""a codec call on buffer bi through an entry point that documents its form"""
		form = bufs[bi][0]
		apis = [('enc', a) for a in range(4) if form in (_F_DNASEQ if a >= 2 else _F_BUFFER)] + \
		       [('rc', a) for a in range(3) if form in _F_BUFFER]
		if rng.random() < 0.08:
			apis = [('enc', a) for a in range(4)] + [('rc', a) for a in range(3)]   # also outside the documented forms
		op, a = same_api if same_api in apis and rng.random() < 0.5 else rng.choice(apis)
		steps.append(dict(op=op, api=a, b=bi, t=T()))
		return op, a

	def variant(b):
		r = rng.random()
		if r < 0.2:
			return _py_rc(b)
		if r < 0.4:
			return b.swapcase()
		if r < 0.5 and b:
			x = bytearray(b)
			x[rng.randrange(len(b))] = rng.choice(_BAD_BYTES)
			return bytes(x)
		return kmer(len(b))

	def codec(nsteps):
		n0 = len(bufs)
		first = kmer(p_bad=0.1)
		buf(rng.choice(_F_BUFFER + _F_DNASEQ[2:5]), first)
		for _ in range(rng.randint(1, 2)):
			b = rng.choice([variant(first), kmer(p_bad=0.1), kmer(rng.randint(33, 40)), first])
			buf(rng.choice(_F_BUFFER + _F_DNASEQ[2:5]), b)
		last = None
		for _ in range(nsteps):
			last = call(rng.randrange(n0, len(bufs)), last)

	def put(nsteps):
		form = rng.choice(_F_WRITABLE)
		b = kmer(p_bad=0.05)
		bi = buf(form, b)
		other = buf(rng.choice(_F_BUFFER), variant(b)) if rng.random() < 0.5 else bi
		last = call(bi)
		for _ in range(max(1, nsteps // 2)):
			new = variant(b)
			if form in _F_RESIZABLE and rng.random() < 0.4:
				new = kmer(p_bad=0.05)
			steps.append(dict(op='put', b=bi, hex=new.hex()))
			b = new
			last = call(rng.choice([bi, bi, other]), last)

	def fail(nsteps):
		r = rng.random()
		good = kmer()
		if r < 0.35:
			x = bytearray(kmer(rng.choice([2, 3, 5, 11, 17, 32])))
			x[rng.randrange(len(x))] = rng.choice(_BAD_BYTES)
			bad = buf(rng.choice(_F_BUFFER + _F_DNASEQ[2:5]), x)
		elif r < 0.55:
			bad = buf(rng.choice(_F_BUFFER + _F_DNASEQ[2:5]), kmer(rng.randint(33, 45)))
		elif r < 0.7:
			bad = buf('Seq-undefined', kmer(len(good)))
		elif r < 0.85:
			x = bytearray(kmer(rng.choice([2, 3, 5, 11])))
			x[rng.randrange(len(x))] = rng.choice([0xC1, 0xE1, 0xD4, 0xFF, 0x80])
			bad = buf('str', x)
		else:
			bad = buf(rng.choice(['numpy', 'array-B', 'memoryview-bytearray', 'str']), kmer())   # a form some entry points refuse
		gi = buf(rng.choice(_F_BUFFER + _F_DNASEQ[2:5]), good)
		for j in range(nsteps):
			if j % 2 == 0:
				if rng.random() < 0.25:
					fam = rng.choice(['enc', 'rc', 'dec'])
					steps.append(dict(op='junk', api=[fam, rng.randrange(dict(enc=4, rc=3, dec=2)[fam])], arg=rng.choice(['int', 'float', 'list', 'object', 'tuple']), t=T()))
				else:
					form = bufs[bad][0]
					steps.append(dict(op=rng.choice(['enc', 'enc', 'rc']), api=0, b=bad, t=T()))
					steps[-1]['api'] = rng.randrange(4 if steps[-1]['op'] == 'enc' else 3)
			else:
				call(gi)

	def match(nsteps):
		s0 = len(specs)
		for _ in range(rng.randint(1, 2)):
			specs.append([rng.choice([1, 2, 3, 4, 5, 7, 8, 11, 12, 16, 17, 31, 32, 33]) if rng.random() < 0.8 else rng.randint(1, 33), rng.randint(0, 3)])
		need = max(k + pl for k, pl in specs[s0:])
		b0 = len(bufs)
		alpha = rng.choice([NUCS, NUCS, NUC, NUCS * 3 + b'Nn', NUCS * 4 + b'N-\x00\xff\xc1'])
		for _ in range(rng.randint(2, 3)):
			form = rng.choice(_F_DNASEQ[:5] + ('bytearray',) + (('Seq-undefined',) if rng.random() < 0.1 else ()))
			buf(form, kmer(need + rng.choice([0, 1, rng.randint(0, 30), need]), alpha=alpha))
		m0 = sum(1 for st in steps if st['op'] == 'match')

		def positions(si, bi, rev):
			k, pl = specs[si]
			ln = len(bufs[bi][1]) // 2
			lo = rng.choice([0, ln - k - pl, rng.randint(0, ln - k - pl)])
			return lo + k + pl - 1 if rev else lo

		ms = []
		for _ in range(rng.randint(2, 3)):
			si, bi, rev = rng.randrange(s0, len(specs)), rng.randrange(b0, len(bufs)), rng.random() < 0.5
			steps.append(dict(op='match', s=si, b=bi, pos=positions(si, bi, rev), rev=int(rev), t=T()))
			ms.append([m0 + len(ms), si, bi, rev])
		for _ in range(nsteps):
			mrec = rng.choice(ms)
			r = rng.random()
			if r < 0.12:
				mrec[3] = rng.random() < 0.5
				steps.append(dict(op='mset', m=mrec[0], attr='reverse', value=int(mrec[3])))
				steps.append(dict(op='mset', m=mrec[0], attr='pos', value=positions(mrec[1], mrec[2], mrec[3])))
			elif r < 0.2:
				steps.append(dict(op='mset', m=mrec[0], attr='pos', value=positions(mrec[1], mrec[2], mrec[3])))
			elif r < 0.28:
				mrec[2] = rng.randrange(b0, len(bufs))
				steps.append(dict(op='mset', m=mrec[0], attr='seq', value=mrec[2]))
				steps.append(dict(op='mset', m=mrec[0], attr='pos', value=positions(mrec[1], mrec[2], mrec[3])))
			elif r < 0.36 and bufs[mrec[2]][0] == 'bytearray':
				old = bytes.fromhex(bufs[mrec[2]][1])
				steps.append(dict(op='put', b=mrec[2], hex=kmer(len(old), alpha=alpha).hex()))
			steps.append(dict(op=rng.choice(['kmer', 'kidx']), m=mrec[0], t=T()))

	def acc(nsteps):
		a0 = len(accs)
		k1 = rng.choice([1, 2, 3, 4, 5, 6])
		k2 = k1 if rng.random() < 0.5 else rng.choice([1, 2, 3, 4, 5, 6, 11, 16, 17, 32])
		accs.append([rng.choice(['set', 'array']), k1])
		accs.append(['set' if k2 > 6 else rng.choice(['set', 'array']), k2])
		b0 = len(bufs)
		for _ in range(rng.randint(2, 4)):
			k = rng.choice([k1, k2, k1, k2, rng.choice([k1, k2]) + 1])
			form = 'Seq-undefined' if rng.random() < 0.05 else rng.choice(_F_DNASEQ[:5])
			buf(form, kmer(k, p_bad=0.2))
		for _ in range(nsteps):
			r = rng.random()
			a = rng.randrange(a0, len(accs))
			if r < 0.7:
				steps.append(dict(op='add', a=a, b=rng.randrange(b0, len(bufs)), t=T()))
			elif r < 0.92:
				steps.append(dict(op='members', a=a, t=T()))
			else:
				steps.append(dict(op='clear', a=a))
		steps.append(dict(op='members', a=rng.randrange(a0, len(accs)), t=T()))

	def dec(nsteps):
		i0 = len(ints)
		ks = []
		for _ in range(rng.randint(1, 2)):
			k = rng.choice([0, 1, 2, 3, 4, 8, 11, 16, 17, 27, 31, 32]) if rng.random() < 0.7 else rng.randint(0, 32)
			form = rng.choice([f for f in _INT_FORMS if _int_fits(f, k)])
			ints.append([form, k])
			ks.append(len(ints) - 1)
		ix = []
		for _ in range(rng.randint(1, 3)):
			k = ints[rng.choice(ks)][1]
			v = rng.choice([0, 4 ** k - 1, rng.randrange(4 ** k), rng.randrange(4 ** k), 4 ** k // 3])
			if rng.random() < 0.1:
				v = rng.choice([2 ** 64 - 1, 4 ** k, rng.randrange(2 ** 64)])
			form = rng.choice([f for f in _INT_FORMS if _int_fits(f, v)])
			if rng.random() < 0.4 and _int_fits('0d-uint64', v):
				form = rng.choice(['0d-uint64', 'uint64'])
			ints.append([form, v])
			ix.append(len(ints) - 1)
		for _ in range(nsteps):
			if rng.random() < 0.1:
				steps.append(dict(op='junk', api=['dec', rng.randrange(2)], arg=rng.choice(['int', 'float', 'list', 'object', 'tuple']), t=T()))
			steps.append(dict(op='dec', api=rng.randrange(2), i=rng.choice(ix), k=rng.choice(ks), kw=int(rng.random() < 0.2), t=T()))

	parts = dict(codec=codec, put=put, fail=fail, match=match, acc=acc, dec=dec)
	if theme == 'mixed':
		# two or three parts over one pool, their steps interleaved (order within a part kept)
		chunks = []
		for name in rng.sample(sorted(parts), rng.randint(2, 3)):
			parts[name](rng.randint(2, 3))
			chunks.append(steps[:])
			del steps[:]
		while any(chunks):
			ch = rng.choice([x for x in chunks if x])
			steps.append(ch.pop(0))
	else:
		parts[theme](rng.randint(2, 6))
	c = dict(theme=theme, bufs=bufs, steps=steps)
	for name, val in (('ints', ints), ('specs', specs), ('accs', accs)):
		if val:
			c[name] = val
	return c


def _size_ladder(cap, pmin=6):
	"""lengths at which an implementation that cuts its input into blocks (or halves, or SIMD lanes) changes path: m * 2^p for
	m = 1..9 and every p >= pmin, and m * 10^d (m = 1, 2, 3, 5; d >= 3), up to `cap` bytes, each with the lengths just below
	and above it"""
	s = set()
	p = pmin
	while (1 << p) <= cap:
		s.update(m << p for m in range(1, 10) if (m << p) <= cap)
		p += 1
	d = 1000
	while d <= cap:
		s.update(m * d for m in (1, 2, 3, 5) if m * d <= cap)
		d *= 10
	return sorted(x for n in s for x in (n - 1, n, n + 1) if x <= cap)


KINDS = {'enc': k_enc, 'dec': k_dec, 'rc': k_rc, 'forms': k_forms, 'text': k_text, 'decforms': k_decforms,
         'match': k_match, 'acc': k_acc, 'long': k_long, 'script': k_script}


def generate(ctx):
	rng = ctx.rng
	kmax = ctx.pick(7, 8)
	ctx.rule(RULE)
	# exhaustive: all k-mers up to kmax, first letter in both cases
	for k in range(0, kmax + 1):
		for t in itertools.product(NUC, repeat=k):
			b = bytes(t)
			yield 'enc', b.hex()
			if k:
				yield 'enc', (b[:1].lower() + b[1:]).hex()
			if k <= 6:
				yield 'rc', b.hex()
		ctx.count('stream:exhaustive-kmers', 4 ** k)
	# exhaustive: all byte strings of length <= 2
	yield 'enc', ''
	for a in range(256):
		yield 'enc', bytes([a]).hex()
		yield 'rc', bytes([a]).hex()
		for c in range(256):
			yield 'enc', bytes([a, c]).hex()
			yield 'rc', bytes([a, c]).hex()
	ctx.count('stream:exhaustive-bytes<=2', 65793)
	ctx.exhaustive = True
	ctx.extra['exhaustive_scope'] = f'all k-mers k<={kmax} (first letter both cases), all byte strings of length<=2, all indices for k<=6'
	# exhaustive: all indices for k <= 6
	for k in range(0, 7):
		for idx in range(4 ** k):
			yield 'dec', [idx, k]
	# boundary k-mers for every k up to 33 (+ rejection lengths up to 40)
	for k in range(1, 41):
		for b in (b'A' * k, b'T' * k, b'A' * (k - 1) + b'T', b'T' + b'A' * (k - 1), b't' * k, b'C' * k, b'G' * k):
			yield 'enc', b.hex()
			yield 'rc', b.hex()
		if k <= 32:
			for idx in (0, 4 ** k - 1, 1, 4 ** (k - 1), 3 * 4 ** (k - 1), (4 ** k) // 3):
				yield 'dec', [idx, k]
	# random k-mers, mixed case, with and without one invalid byte at a random position
	n = ctx.pick(6000, 60000)
	for _ in range(n):
		k = rng.randint(1, 36)
		b = bytearray(rng.choice(b'ACGTacgt') for _ in range(k))
		r = rng.random()
		if r < 0.25:
			b[rng.randrange(k)] = rng.choice([rng.randrange(256), ord('N'), ord('n'), 0x41 ^ 0x20 ^ 0x80, 0xC1, 0xE1, 0x21, 0x01])
		yield 'enc', bytes(b).hex()
		yield 'rc', bytes(b).hex()
	# random indices up to 2^64-1
	for _ in range(n):
		k = rng.randint(0, 32)
		idx = rng.randrange(4 ** k) if rng.random() < 0.8 else rng.randrange(2 ** 64)
		yield 'dec', [idx, k]
	# random byte strings for revcomp
	for _ in range(n // 4):
		ln = rng.randint(0, 80)
		yield 'rc', bytes(rng.choice(b'ACGTacgtNn-*\x00\xff' + bytes([rng.randrange(256)])) for _ in range(ln)).hex()
	# malformed stream: out-of-range index / k
	for idx, k in [(-1, 3), (2 ** 64, 3), (2 ** 64 - 1, 32), (5, -1), (0, 0), (2 ** 70, 0), (4 ** 5, 5), (4 ** 5 + 7, 5)]:
		ctx.count('stream:malformed')
		yield 'dec', [idx, k]
	# ------------------------------------------------------------------------------------------------
	# streams added by the coverage audit (see the table in the module docstring)
	# the property says "all k-mers for k<=8": k=8 (upper case) also in the quick tier; revcomp up to k=7 (8 thorough)
	if kmax < 8:
		for t in itertools.product(NUC, repeat=8):
			yield 'enc', bytes(t).hex()
		ctx.count('stream:exhaustive-kmers', 4 ** 8)
		ctx.extra['exhaustive_scope'] = ('all k-mers k<=8 (first letter both cases for k<=7), all byte strings of length<=2, '
		                                 'all indices for k<=6, all 8^k upper/lower-case patterns for k<=4')
	else:
		ctx.extra['exhaustive_scope'] += ', all 8^k upper/lower-case patterns for k<=4'
	for k in range(7, ctx.pick(7, 8) + 1):
		for t in itertools.product(NUC, repeat=k):
			yield 'rc', bytes(t).hex()
		ctx.count('stream:exhaustive-kmers-revcomp', 4 ** k)
	# "input case is ignored" / "preserving case": every upper/lower pattern for k <= 4, all-lower and alternating for k <= 6
	for k in range(1, 5):
		for t in itertools.product(NUCS, repeat=k):
			yield 'enc', bytes(t).hex()
			yield 'rc', bytes(t).hex()
		ctx.count('stream:allcase-kmers', 8 ** k)
	for k in range(5, 7):
		for t in itertools.product(NUC, repeat=k):
			b = bytes(t)
			yield 'enc', b.lower().hex()
			yield 'enc', bytes(c | 0x20 if j % 2 else c for j, c in enumerate(b)).hex()
		ctx.count('stream:lower-and-alternating-kmers', 2 * 4 ** k)

	def rand_kmer(kmin=1, kmax_=36, p_bad=0.25):
		k = rng.randint(kmin, kmax_)
		b = bytearray(rng.choice(NUCS) for _ in range(k))
		if k and rng.random() < p_bad:
			b[rng.randrange(k)] = rng.choice([rng.randrange(256), ord('N'), ord('n'), 0xC1, 0xE1, 0xD4, 0x61 ^ 0x80, 0x21, 0x00, 0x55, 0x75])
		return bytes(b)

	def form_case(b):
		ctx.count('stream:forms')
		return 'forms', dict(kmer=bytes(b).hex(), stride=rng.randint(2, 5), off=rng.randint(0, 3))

	# input forms: empty, every single byte, all k-mers k<=3, the property's boundary k-mers for every k up to 34,
	# random k-mers (mixed case, some with one foreign byte, some too long), random byte pairs
	yield form_case(b'')
	for a in range(256):
		yield form_case(bytes([a]))
	for k in range(2, 4):
		for t in itertools.product(NUC, repeat=k):
			yield form_case(bytes(t))
	for k in range(1, 35):
		for b in (b'A' * k, b'T' * k, b'A' * (k - 1) + b'T', b'T' + b'A' * (k - 1), b't' * k, bytes(rng.choice(NUCS) for _ in range(k))):
			yield form_case(b)
	for _ in range(ctx.pick(2500, 25000)):
		yield form_case(rand_kmer())
	for _ in range(ctx.pick(800, 8000)):
		yield form_case(bytes([rng.randrange(256), rng.randrange(256)]))
	# str k-mers with code points that are not bytes: low byte / look-alike / case-mapping of a nucleotide letter
	odd = [0x100 + c for c in NUCS] + [0x4100 + c for c in NUC] + [0xFF21, 0xFF23, 0xFF27, 0xFF34, 0xFF41, 0x410, 0x421, 0x422, 0x391, 0x3A4,
	                                                                0xC1, 0xE1, 0xC7, 0xE7, 0x1D00, 0x2C6F, 0x0250, 0x10000 + 65, 0x1F9EC]
	for _ in range(ctx.pick(500, 5000)):
		t = list(rand_kmer(1, 33, 0.0))
		r = rng.random()
		if r < 0.75:
			t[rng.randrange(len(t))] = rng.choice(odd)
		elif r < 0.85:
			t.insert(rng.randrange(len(t) + 1), rng.choice(odd + [0x20, 0x0A, 0x00]))
		ctx.count('stream:text')
		yield 'text', dict(text=t)
	# index_to_kmer: index and k in every integer form
	for k in range(0, 4):
		for idx in range(4 ** k):
			ctx.count('stream:decforms')
			yield 'decforms', [idx, k]
	for k in range(1, 33):
		for idx in (0, 4 ** k - 1, 1, 4 ** (k - 1), 3 * 4 ** (k - 1), (4 ** k) // 3, 4 ** k // 2 - 1, 4 ** k // 2):
			ctx.count('stream:decforms')
			yield 'decforms', [idx, k]
	for _ in range(ctx.pick(2500, 25000)):
		k = rng.randint(0, 32)
		ctx.count('stream:decforms')
		yield 'decforms', [rng.randrange(4 ** k) if rng.random() < 0.7 else min(4 ** k - 1, 2 ** rng.randint(0, 2 * k) - rng.randint(0, 1)), k]
	# KmerMatch windows
	for _ in range(ctx.pick(2500, 25000)):
		k, pl = rng.randint(1, 34), rng.randint(0, 6)
		ln = k + pl + rng.choice([0, 0, 1, rng.randint(0, 40)])
		alpha = rng.choice([NUCS, NUCS, NUC, NUCS + b'Nn', NUCS * 4 + b'N-\x00\xff\xc1' + bytes([rng.randrange(256)])])
		seq = bytes(rng.choice(alpha) for _ in range(ln))
		rev = rng.random() < 0.5
		lo = rng.choice([0, ln - k - pl, rng.randint(0, ln - k - pl)])
		# forward: prefix starts at pos=lo; reverse: pos is the LAST byte of the (reverse-complemented) prefix
		pos = lo + k + pl - 1 if rev else lo
		ctx.count('stream:match')
		yield 'match', dict(seq=seq.hex(), k=k, plen=pl, pos=pos, reverse=rev)
	# accumulators: lists of k-mers with repeats, case variants of one k-mer, invalid members
	for _ in range(ctx.pick(400, 4000)):
		cls = rng.choice(['set', 'array'])
		k = rng.randint(1, 8) if cls == 'array' else rng.choice([rng.randint(1, 32), 32, 31, 16, 17, 11, 12])
		kms = []
		for _ in range(rng.randint(0, 10)):
			r = rng.random()
			if kms and r < 0.3:
				b = rng.choice(kms)
				b = rng.choice([b, b.upper(), b.lower(), b.swapcase()])
			else:
				b = rand_kmer(k, k, 0.2)
			kms.append(b)
		ctx.count('stream:acc')
		yield 'acc', dict(k=k, cls=cls, kmers=[b.hex() for b in kms])
	# long inputs
	full = bytes(range(256)).hex()
	lens = [rng.randint(81, 400) for _ in range(ctx.pick(40, 400))] + [1000, 2048, 4095, 4096, 4097, 32767, 32768, 65535, 65536, 65537, 131073]
	for n in lens:
		alpha = rng.choice([(NUCS + b'Nn-').hex(), full, NUCS.hex(), (NUCS * 8 + b'\xc1\xe1\xd4\xf4N').hex()])
		ctx.count('stream:rc-long')
		yield 'long', dict(what='rc', n=n, alphabet=alpha, seed=rng.randrange(2 ** 32))
	lens = [rng.randint(41, 300) for _ in range(ctx.pick(40, 400))] + list(range(33, 41)) + [63, 64, 65, 127, 128, 129, 255, 256, 257, 1000, 4096, 65536, 65537, 70000]
	for n in lens:
		alpha = rng.choice([NUCS.hex(), NUC.hex(), b'A'.hex(), b'T'.hex(), b'a'.hex(), b'CG'.hex()])
		ctx.count('stream:enc-long')
		yield 'long', dict(what='enc', n=n, alphabet=alpha, seed=rng.randrange(2 ** 32))
	# size ladder for revcomp (round 9): the property's revcomp clauses speak of byte strings of ANY length, and a wrapper that
	# works block-wise / in chunks / by halves is wrong only at particular lengths -- so every public name gets inputs whose
	# length is m * 2^p (m = 1..9, p = 6..22, 24 thorough), the decimal round numbers, each with both neighbours, and random
	# lengths between; content from randbytes (all byte values / nucleotides with a few foreign bytes), judged by _py_rc
	for n in _size_ladder(ctx.pick(1 << 22, 1 << 24)):
		alpha = rng.choice([(NUCS + b'Nn-').hex(), full, NUCS.hex(), (NUCS * 8 + b'\xc1\xe1\xd4\xf4N\x00').hex()])
		ctx.count('stream:rc-ladder')
		yield 'long', dict(what='rc-ladder', n=n, alphabet=alpha, seed=rng.randrange(2 ** 32), gen='randbytes')
	for _ in range(ctx.pick(40, 400)):
		blk = 1 << rng.randint(8, 20)
		n = rng.choice([rng.randint(4097, 1 << 20), blk * rng.randint(2, 40), blk * rng.randint(2, 40) + rng.choice([-1, 1])])
		ctx.count('stream:rc-ladder-random')
		yield 'long', dict(what='rc-ladder', n=min(n, 1 << 22), alphabet=rng.choice([(NUCS + b'Nn-').hex(), full]), seed=rng.randrange(2 ** 32),
		                   gen='randbytes')
	# ------------------------------------------------------------------------------------------------
	# (state audit) call sequences over a small pool of shared caller objects, see "state and aliasing" in the docstring
	import time
	spent = 0.0
	for j in range(ctx.pick(7000, 70000)):
		t0 = time.time()
		c = _gen_script(rng, _SCRIPT_THEMES[j % len(_SCRIPT_THEMES)])
		spent += time.time() - t0
		yield 'script', c
	ctx.extra['script_generate_seconds'] = round(spent, 2)
