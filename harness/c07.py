"""C07 -- k-mer/index conversion is the base-4 bijection, consistent with revcomp.

Tie: T (Gen/KmersPyx.v regenerated from kmers.pyx) + B (this file): the compiled
extension, the generated model and the extracted specification are run on the same
inputs.  The specification determines the output, so `impl != spec` is a violation
with the input as replay; `impl == spec != model` is a broken correspondence."""
import itertools

PROP = 'C07'
RULE = ('enc: byte strings -> kmer_to_index / kmer_to_index_rc (value or ValueError); dec: (index,k) -> '
        'index_to_kmer and back; rc: byte strings -> revcomp.  non-trivial: enc with a valid k-mer of '
        'length >= 2 or an invalid byte not in first position; dec with k >= 2; rc containing a nucleotide '
        'and a non-nucleotide byte or length >= 2')
TRUSTED = ['tools/pyx2v.py (Cython subset -> Gallina; C integer semantics as documented in its header)',
           'gcc-compiled extension = semantics of kmers.pyx (the .so is exercised by the correspondence run)']
ASSUMPTIONS = ['k-mers are passed as bytes-like objects; `int k` arguments fit a C int',
               'CPython buffer protocol delivers the bytes unchanged to the Cython memoryview']

NUC = b'ACGT'


def setup(ctx):
	from vf import impl
	impl.check_import()


def _impl_enc(fn, b):
	try:
		return int(fn(b))
	except ValueError:
		return 'ValueError'
	except OverflowError:
		return 'OverflowError'


def _res(v):
	"""model result (0 x) / (1 code) -> python"""
	from vf.main import ERRNAMES
	if v[0] == 0:
		return v[1]
	return ERRNAMES.get(v[1], f'err{v[1]}')


def k_enc(ctx, cases):
	import gambit.kmers as gk
	from gambit._cython import kmers as ck
	reqs = []
	for h in cases:
		b = bytes.fromhex(h)
		reqs += [(701, b), (702, b), (711, b), (713, b)]
	ans = ctx.model(reqs) if ctx.model_ok else None
	# spec of rc: encode(revcomp)
	rc_specs = ctx.model([(711, bytes(ans[4 * i + 3])) for i in range(len(cases))]) if ans else None
	for i, h in enumerate(cases):
		b = bytes.fromhex(h)
		i1 = _impl_enc(ck.kmer_to_index, b)
		i2 = _impl_enc(ck.kmer_to_index_rc, b)
		valid = len(b) <= 32 and all(c in b'ACGTacgt' for c in b)
		nontriv = (valid and len(b) >= 2) or (not valid and len(b) >= 2 and (b[0] in b'ACGTacgt'))
		ctx.case(dict(kmer=h), nontrivial=nontriv, stream=None)
		# python-level wrappers must agree with the extension on every input type
		w1 = _impl_enc(gk.kmer_to_index, b)
		w1b = _impl_enc(gk.kmer_to_index, bytearray(b))
		if w1 != i1 or w1b != i1:
			ctx.violation('enc', h, f'gambit.kmers.kmer_to_index differs between wrapper/bytes/bytearray on {b!r}',
			              ext=i1, wrapper=w1, wrapper_bytearray=w1b)
		if ans is None:
			continue
		m1, m2 = _res(ans[4 * i]), _res(ans[4 * i + 1])
		s1 = ans[4 * i + 2][0] if ans[4 * i + 2] else 'ValueError'
		s2 = rc_specs[i][0] if rc_specs[i] else 'ValueError'
		if i1 != s1:
			ctx.violation('enc', h, f'kmer_to_index({b!r}) = {i1}, base-4 code says {s1}', impl=i1, spec=s1, model=m1)
		elif m1 != s1:
			ctx.violation('enc', h, f'kmers.pyx as translated: kmer_to_index({b!r}) = {m1}, base-4 code says {s1} '
			              f'(the compiled extension returns {i1}: stale build or translator mismatch)', impl=i1, spec=s1, model=m1)
		if i2 != s2:
			ctx.violation('enc', h, f'kmer_to_index_rc({b!r}) = {i2}, index of the reverse complement is {s2}',
			              impl=i2, spec=s2, model=m2)
		elif m2 != s2:
			ctx.violation('enc', h, f'kmers.pyx as translated: kmer_to_index_rc({b!r}) = {m2}, index of the reverse '
			              f'complement is {s2} (the compiled extension returns {i2})', impl=i2, spec=s2, model=m2)


def k_dec(ctx, cases):
	from gambit._cython import kmers as ck
	reqs = []
	for idx, k in cases:
		reqs += [(703, [idx, k]), (712, [idx, k])]
	ans = ctx.model(reqs) if ctx.model_ok else None
	for i, (idx, k) in enumerate(cases):
		try:
			r = ck.index_to_kmer(idx, k)
		except OverflowError:
			r = 'OverflowError'
		except ValueError:
			r = 'ValueError'
		inrange = 0 <= k <= 32 and 0 <= idx < 4 ** k
		ctx.case(dict(index=idx, k=k), nontrivial=inrange and k >= 2)
		if inrange:
			# the public name gambit.kmers.index_to_kmer, with the index as Python int and as the NumPy scalars a
			# signature array hands out (uint64, and the signature's own dtype when the index fits it)
			import numpy as np
			import gambit.kmers as gk
			forms = [('int', idx), ('numpy.uint64', np.uint64(idx))]
			dt = gk.index_dtype(k) if k >= 1 else None
			if dt is not None:
				forms.append((f'element of a {dt} array', np.array([idx], dtype=dt)[0]))
			for name, val in forms:
				try:
					w = gk.index_to_kmer(val, k)
				except Exception as e:  # noqa
					w = type(e).__name__
				if w != r:
					ctx.violation('dec', [idx, k], f'gambit.kmers.index_to_kmer({idx} as {name}, {k}) = {w!r} but the extension gives {r!r} for the Python int',
					              impl=w, ext=r)
					break
		if inrange:
			# mutually inverse on the domain of the property
			if not isinstance(r, bytes) or len(r) != k or any(c not in NUC for c in r):
				ctx.violation('dec', [idx, k], f'index_to_kmer({idx},{k}) = {r!r} is not an upper-case {k}-mer', impl=r)
				continue
			back = _impl_enc(ck.kmer_to_index, r)
			if back != idx:
				ctx.violation('dec', [idx, k], f'kmer_to_index(index_to_kmer({idx},{k})) = {back}', impl=r, back=back)
				continue
		if ans is None:
			continue
		m = _res(ans[2 * i])
		m = bytes(m) if isinstance(m, list) else m
		s = bytes(ans[2 * i + 1])
		if inrange and r != s:
			ctx.violation('dec', [idx, k], f'index_to_kmer({idx},{k}) = {r!r}, base-4 digits say {s!r}', impl=r, spec=s, model=m)
		elif m != r:
			if inrange:
				ctx.violation('dec', [idx, k], f'kmers.pyx as translated: index_to_kmer({idx},{k}) = {m!r}, base-4 digits say '
				              f'{s!r} (the compiled extension returns {r!r})', impl=r, spec=s, model=m)
			else:
				# outside the property's domain only the tie is checked
				ctx.broke('correspondence dec (index_to_kmer, out-of-domain input)', f'input {(idx, k)}: impl={r!r} model={m!r}')


def k_rc(ctx, cases):
	from gambit.seq import revcomp
	reqs = []
	for h in cases:
		b = bytes.fromhex(h)
		reqs += [(704, b), (713, b)]
	ans = ctx.model(reqs) if ctx.model_ok else None
	for i, h in enumerate(cases):
		b = bytes.fromhex(h)
		r = revcomp(b)
		ctx.case(dict(seq=h), nontrivial=len(b) >= 2)
		if revcomp(r) != b:
			ctx.violation('rc', h, f'revcomp is not an involution on {b!r}', impl=r, twice=revcomp(r))
			continue
		if ans is None:
			continue
		m = _res(ans[2 * i])
		m = bytes(m) if isinstance(m, list) else m
		s = bytes(ans[2 * i + 1])
		if r != s:
			ctx.violation('rc', h, f'revcomp({b!r}) = {r!r}, mirrored complement is {s!r}', impl=r, spec=s, model=m)
		elif m != s:
			ctx.violation('rc', h, f'kmers.pyx as translated: revcomp({b!r}) = {m!r}, mirrored complement is {s!r} '
			              f'(the compiled extension returns {r!r})', impl=r, spec=s, model=m)


KINDS = {'enc': k_enc, 'dec': k_dec, 'rc': k_rc}


def generate(ctx):
	rng = ctx.rng
	kmax = ctx.pick(7, 8)
	ctx.rule(RULE)
	# exhaustive: all k-mers up to kmax, first letter in both cases
	for k in range(0, kmax + 1):
		for t in itertools.product(NUC, repeat=k):
			b = bytes(t)
			yield 'enc', b.hex()
			if k:
				yield 'enc', (b[:1].lower() + b[1:]).hex()
			if k <= 6:
				yield 'rc', b.hex()
		ctx.count('stream:exhaustive-kmers', 4 ** k)
	# exhaustive: all byte strings of length <= 2
	yield 'enc', ''
	for a in range(256):
		yield 'enc', bytes([a]).hex()
		yield 'rc', bytes([a]).hex()
		for c in range(256):
			yield 'enc', bytes([a, c]).hex()
			yield 'rc', bytes([a, c]).hex()
	ctx.count('stream:exhaustive-bytes<=2', 65793)
	ctx.exhaustive = True
	ctx.extra['exhaustive_scope'] = f'all k-mers k<={kmax} (first letter both cases), all byte strings of length<=2, all indices for k<=6'
	# exhaustive: all indices for k <= 6
	for k in range(0, 7):
		for idx in range(4 ** k):
			yield 'dec', [idx, k]
	# boundary k-mers for every k up to 33 (+ rejection lengths up to 40)
	for k in range(1, 41):
		for b in (b'A' * k, b'T' * k, b'A' * (k - 1) + b'T', b'T' + b'A' * (k - 1), b't' * k, b'C' * k, b'G' * k):
			yield 'enc', b.hex()
			yield 'rc', b.hex()
		if k <= 32:
			for idx in (0, 4 ** k - 1, 1, 4 ** (k - 1), 3 * 4 ** (k - 1), (4 ** k) // 3):
				yield 'dec', [idx, k]
	# random k-mers, mixed case, with and without one invalid byte at a random position
	n = ctx.pick(6000, 60000)
	for _ in range(n):
		k = rng.randint(1, 36)
		b = bytearray(rng.choice(b'ACGTacgt') for _ in range(k))
		r = rng.random()
		if r < 0.25:
			b[rng.randrange(k)] = rng.choice([rng.randrange(256), ord('N'), ord('n'), 0x41 ^ 0x20 ^ 0x80, 0xC1, 0xE1, 0x21, 0x01])
		yield 'enc', bytes(b).hex()
		yield 'rc', bytes(b).hex()
	# random indices up to 2^64-1
	for _ in range(n):
		k = rng.randint(0, 32)
		idx = rng.randrange(4 ** k) if rng.random() < 0.8 else rng.randrange(2 ** 64)
		yield 'dec', [idx, k]
	# random byte strings for revcomp
	for _ in range(n // 4):
		ln = rng.randint(0, 80)
		yield 'rc', bytes(rng.choice(b'ACGTacgtNn-*\x00\xff' + bytes([rng.randrange(256)])) for _ in range(ln)).hex()
	# malformed stream: out-of-range index / k
	for idx, k in [(-1, 3), (2 ** 64, 3), (2 ** 64 - 1, 32), (5, -1), (0, 0), (2 ** 70, 0), (4 ** 5, 5), (4 ** 5 + 7, 5)]:
		ctx.count('stream:malformed')
		yield 'dec', [idx, k]
